// C09 harness, second build: tracing-subscriber WITHOUT the `registry` feature (see Cargo.toml.in).  The recording leaves, the op
// interpreter and the JSON protocol are those of harness/forwarding/src/bin/h_forwarding.rs ("static" mode, recording root only);
// what differs is the crate configuration under test: every `#[cfg(all(feature = "registry", feature = "std"))]` statement of
// `Layered` is compiled out here, so code that only behaves with that feature on shows.
use serde_json::{json, Value};
use std::panic::{catch_unwind, AssertUnwindSafe};
use std::sync::atomic::{AtomicU64, Ordering::SeqCst};
use std::sync::{Arc, Mutex};
use tracing_core::{
    callsite::Callsite,
    collect::{Collect, Interest},
    metadata::Kind,
    span, Dispatch, Event, Level, LevelFilter, Metadata,
};
use tracing_subscriber::{
    prelude::*,
    reload,
    subscribe::{Context, Identity, Subscribe},
};

thread_local! {
    static UNWIND_FROM: std::cell::Cell<Option<usize>> = std::cell::Cell::new(None);
    static UNWOUND: std::cell::Cell<usize> = std::cell::Cell::new(0);
}
struct RunOnDrop<F: FnMut()>(F);
impl<F: FnMut()> Drop for RunOnDrop<F> {
    fn drop(&mut self) {
        (self.0)()
    }
}

// ------------------------------------------------------------------------------------------------ log

#[derive(Clone, Debug)]
struct Entry {
    leaf: u64,
    m: &'static str,
    cs: u64,
    id: u64,
    id2: u64,
}
type Log = Arc<Mutex<Vec<Entry>>>;

fn push(log: &Log, leaf: u64, m: &'static str, cs: u64, id: u64, id2: u64) {
    log.lock().unwrap_or_else(|e| e.into_inner()).push(Entry { leaf, m, cs, id, id2 });
}

#[derive(Clone, Debug, Default)]
struct Beh {
    int: Vec<u64>,
    en: Vec<bool>,
    ev: Vec<bool>,
    hint: Option<u64>,
    close: u64,
    change: bool,
}

fn beh_of(v: &Value) -> Arc<Beh> {
    let bools = |k: &str| v[k].as_array().map(|a| a.iter().map(|x| x.as_bool().unwrap_or(true)).collect()).unwrap_or_default();
    Arc::new(Beh {
        int: v["int"].as_array().map(|a| a.iter().map(|x| x.as_u64().unwrap_or(2)).collect()).unwrap_or_default(),
        en: bools("en"),
        ev: bools("ev"),
        hint: v["hint"].as_u64(),
        close: v["close"].as_u64().unwrap_or(255),
        change: v["change"].as_bool().unwrap_or(false),
    })
}

impl Beh {
    fn interest(&self, cs: u64) -> Interest {
        match self.int.get(cs as usize).copied().unwrap_or(2) {
            0 => Interest::never(),
            1 => Interest::sometimes(),
            _ => Interest::always(),
        }
    }
    fn enabled(&self, cs: u64) -> bool {
        self.en.get(cs as usize).copied().unwrap_or(true)
    }
    fn event_enabled(&self, cs: u64) -> bool {
        self.ev.get(cs as usize).copied().unwrap_or(true)
    }
    fn hint(&self) -> Option<LevelFilter> {
        self.hint.map(filter_of_rank)
    }
}

fn filter_of_rank(r: u64) -> LevelFilter {
    match r {
        0 => LevelFilter::OFF,
        1 => LevelFilter::ERROR,
        2 => LevelFilter::WARN,
        3 => LevelFilter::INFO,
        4 => LevelFilter::DEBUG,
        _ => LevelFilter::TRACE,
    }
}
fn rank_of_filter(f: LevelFilter) -> u64 {
    [LevelFilter::OFF, LevelFilter::ERROR, LevelFilter::WARN, LevelFilter::INFO, LevelFilter::DEBUG, LevelFilter::TRACE]
        .iter()
        .position(|x| *x == f)
        .unwrap() as u64
}

/// Callsites are told apart by their target, "cs<N>".
fn cs_of(meta: &Metadata<'_>) -> u64 {
    meta.target().strip_prefix("cs").and_then(|s| s.parse().ok()).unwrap_or(99)
}

// ------------------------------------------------------------------------------------------------ static callsites (direct mode)

struct Cs(usize);
impl Callsite for Cs {
    fn set_interest(&self, _: Interest) {}
    fn metadata(&self) -> &Metadata<'_> {
        METAS[self.0]
    }
}
static C0: Cs = Cs(0);
static C1: Cs = Cs(1);
static C2: Cs = Cs(2);
static C3: Cs = Cs(3);
static M0: Metadata<'static> =
    tracing_core::metadata! { name: "cs0", target: "cs0", level: Level::INFO, fields: &[], callsite: &C0, kind: Kind::SPAN };
static M1: Metadata<'static> =
    tracing_core::metadata! { name: "cs1", target: "cs1", level: Level::DEBUG, fields: &[], callsite: &C1, kind: Kind::SPAN };
static M2: Metadata<'static> =
    tracing_core::metadata! { name: "cs2", target: "cs2", level: Level::INFO, fields: &[], callsite: &C2, kind: Kind::EVENT };
static M3: Metadata<'static> =
    tracing_core::metadata! { name: "cs3", target: "cs3", level: Level::TRACE, fields: &[], callsite: &C3, kind: Kind::EVENT };
static METAS: [&Metadata<'static>; 4] = [&M0, &M1, &M2, &M3];



#[derive(Clone)]
struct RecLayer {
    id: u64,
    b: Arc<Beh>,
    log: Log,
}
/// Leaves log raw span ids; `drive` renames them to creation order afterwards (a Registry root hands out slab indices,
/// the model speaks in creation order; a recording root hands out 1, 2, 3, ... itself).
fn canon(ids: &[u64], raw: u64) -> u64 {
    match ids.iter().rposition(|x| *x == raw) {
        Some(i) => i as u64 + 1,
        None => raw,
    }
}
fn canon_entries(ids: &[u64], es: &mut [Entry]) {
    for e in es {
        if e.id != 0 {
            e.id = canon(ids, e.id);
        }
        if e.id2 != 0 {
            e.id2 = canon(ids, e.id2);
        }
    }
}

impl<C: Collect> Subscribe<C> for RecLayer {
    fn on_register_dispatch(&self, _: &Dispatch) {
        push(&self.log, self.id, "on_register_dispatch", 0, 0, 0)
    }
    fn on_subscribe(&mut self, _: &mut C) {
        push(&self.log, self.id, "on_subscribe", 0, 0, 0)
    }
    fn register_callsite(&self, m: &'static Metadata<'static>) -> Interest {
        push(&self.log, self.id, "register_callsite", cs_of(m), 0, 0);
        self.b.interest(cs_of(m))
    }
    fn enabled(&self, m: &Metadata<'_>, _: Context<'_, C>) -> bool {
        push(&self.log, self.id, "enabled", cs_of(m), 0, 0);
        self.b.enabled(cs_of(m))
    }
    fn on_new_span(&self, a: &span::Attributes<'_>, id: &span::Id, _: Context<'_, C>) {
        push(&self.log, self.id, "on_new_span", cs_of(a.metadata()), id.into_u64(), 0)
    }
    fn max_level_hint(&self) -> Option<LevelFilter> {
        push(&self.log, self.id, "max_level_hint", 0, 0, 0);
        self.b.hint()
    }
    fn on_record(&self, id: &span::Id, _: &span::Record<'_>, _: Context<'_, C>) {
        push(&self.log, self.id, "on_record", 0, id.into_u64(), 0)
    }
    fn on_follows_from(&self, id: &span::Id, f: &span::Id, _: Context<'_, C>) {
        push(&self.log, self.id, "on_follows_from", 0, id.into_u64(), f.into_u64())
    }
    fn event_enabled(&self, e: &Event<'_>, _: Context<'_, C>) -> bool {
        push(&self.log, self.id, "event_enabled", cs_of(e.metadata()), 0, 0);
        self.b.event_enabled(cs_of(e.metadata()))
    }
    fn on_event(&self, e: &Event<'_>, _: Context<'_, C>) {
        push(&self.log, self.id, "on_event", cs_of(e.metadata()), 0, 0)
    }
    fn on_enter(&self, id: &span::Id, _: Context<'_, C>) {
        push(&self.log, self.id, "on_enter", 0, id.into_u64(), 0)
    }
    fn on_exit(&self, id: &span::Id, _: Context<'_, C>) {
        push(&self.log, self.id, "on_exit", 0, id.into_u64(), 0)
    }
    fn on_close(&self, id: span::Id, _: Context<'_, C>) {
        push(&self.log, self.id, "on_close", 0, id.into_u64(), 0)
    }
    fn on_id_change(&self, old: &span::Id, new: &span::Id, _: Context<'_, C>) {
        push(&self.log, self.id, "on_id_change", 0, old.into_u64(), new.into_u64())
    }
}

struct RecCollector {
    id: u64,
    b: Arc<Beh>,
    log: Log,
    next: AtomicU64,
}
impl Collect for RecCollector {
    fn on_register_dispatch(&self, _: &Dispatch) {
        push(&self.log, self.id, "on_register_dispatch", 0, 0, 0)
    }
    fn register_callsite(&self, m: &'static Metadata<'static>) -> Interest {
        push(&self.log, self.id, "register_callsite", cs_of(m), 0, 0);
        self.b.interest(cs_of(m))
    }
    fn enabled(&self, m: &Metadata<'_>) -> bool {
        push(&self.log, self.id, "enabled", cs_of(m), 0, 0);
        self.b.enabled(cs_of(m))
    }
    fn max_level_hint(&self) -> Option<LevelFilter> {
        push(&self.log, self.id, "max_level_hint", 0, 0, 0);
        self.b.hint()
    }
    fn new_span(&self, a: &span::Attributes<'_>) -> span::Id {
        let k = self.next.fetch_add(1, SeqCst) + 1;
        push(&self.log, self.id, "new_span", cs_of(a.metadata()), k, 0);
        span::Id::from_u64(k)
    }
    fn record(&self, id: &span::Id, _: &span::Record<'_>) {
        push(&self.log, self.id, "record", 0, id.into_u64(), 0)
    }
    fn record_follows_from(&self, id: &span::Id, f: &span::Id) {
        push(&self.log, self.id, "record_follows_from", 0, id.into_u64(), f.into_u64())
    }
    fn event_enabled(&self, e: &Event<'_>) -> bool {
        push(&self.log, self.id, "event_enabled", cs_of(e.metadata()), 0, 0);
        self.b.event_enabled(cs_of(e.metadata()))
    }
    fn event(&self, e: &Event<'_>) {
        push(&self.log, self.id, "event", cs_of(e.metadata()), 0, 0)
    }
    fn enter(&self, id: &span::Id) {
        push(&self.log, self.id, "enter", 0, id.into_u64(), 0)
    }
    fn exit(&self, id: &span::Id) {
        push(&self.log, self.id, "exit", 0, id.into_u64(), 0)
    }
    fn clone_span(&self, id: &span::Id) -> span::Id {
        push(&self.log, self.id, "clone_span", 0, id.into_u64(), 0);
        if self.b.change {
            span::Id::from_u64(id.into_u64() + 100)
        } else {
            id.clone()
        }
    }
    #[allow(deprecated)]
    fn drop_span(&self, id: span::Id) {
        push(&self.log, self.id, "drop_span", 0, id.into_u64(), 0)
    }
    fn try_close(&self, id: span::Id) -> bool {
        push(&self.log, self.id, "try_close", 0, id.into_u64(), 0);
        (self.b.close >> (id.into_u64() % 8)) & 1 == 1
    }
    fn current_span(&self) -> span::Current {
        push(&self.log, self.id, "current_span", 0, 0, 0);
        span::Current::unknown()
    }
}


struct Env {
    log: Log,
}
impl Env {
    fn new() -> Self {
        Env { log: Arc::new(Mutex::new(Vec::new())) }
    }
    fn layer(&self, id: u64, b: &Arc<Beh>) -> RecLayer {
        RecLayer { id, b: b.clone(), log: self.log.clone() }
    }
    fn root(&self, b: &Arc<Beh>) -> RecCollector {
        RecCollector { id: 0, b: b.clone(), log: self.log.clone(), next: AtomicU64::new(0) }
    }
    fn take(&self) -> Vec<Entry> {
        std::mem::take(&mut *self.log.lock().unwrap_or_else(|e| e.into_inner()))
    }
}
fn ent(v: &[Entry]) -> Value {
    Value::Array(v.iter().map(|e| json!([e.leaf, e.m, e.cs, e.id, e.id2])).collect())
}
fn interest_code(i: &Interest) -> u64 {
    if i.is_never() {
        0
    } else if i.is_sometimes() {
        1
    } else {
        2
    }
}

fn drive<C: Collect + Send + Sync + 'static>(env: &Env, stack: C, ops: &[Value]) -> Value {
    let build = env.take();
    let d = Dispatch::new(stack);
    let reg: Vec<Entry> = env.take().into_iter().filter(|e| e.m != "max_level_hint" && e.m != "register_callsite").collect();
    let mut outs = Vec::new();
    tracing_core::dispatch::with_default(&d, || outs = run_ops::<C>(env, &d, ops, false));
    json!({"build": ent(&build), "reg": ent(&reg), "ops": outs})
}

/// The ops, one after the other, on the calling thread; the callback log is cut after each op.
/// `quiet_registry_traffic`: drop `max_level_hint` / `register_callsite` entries (in the concurrency leg another thread's
/// `Handle::modify` ends with `rebuild_interest_cache`, which asks every dispatcher for its hint at an arbitrary moment).
fn run_ops<C: Collect + Send + Sync + 'static>(env: &Env, d: &Dispatch, ops: &[Value], quiet_registry_traffic: bool) -> Vec<Value> {
    let outs: std::cell::RefCell<Vec<Value>> = std::cell::RefCell::new(Vec::new());
    let ids: std::cell::RefCell<Vec<u64>> = std::cell::RefCell::new(Vec::new());
    let real = |k: u64| -> span::Id {
        match ids.borrow().get((k as usize).wrapping_sub(1)) {
            Some(r) if k >= 1 => span::Id::from_u64(*r),
            _ => span::Id::from_u64(k.max(1)),
        }
    };
    let exec = |op: &Value| {
        if std::thread::panicking() {
            UNWOUND.with(|c| c.set(c.get() + 1));
        }
        let name = op[0].as_str().unwrap_or("");
        let n1 = op[1].as_u64().unwrap_or(0);
        let n2 = op[2].as_u64().unwrap_or(0);
        let meta: &'static Metadata<'static> = METAS[(n1 as usize) % 4];
        let vs = meta.fields().value_set(&[]);
        let res = match name {
            "rc" => json!(["int", interest_code(&d.register_callsite(meta))]),
            "en" => json!(["bool", d.enabled(meta)]),
            "hint" => match d.downcast_ref::<C>() {
                Some(c) => json!(["hint", c.max_level_hint().map(rank_of_filter)]),
                None => json!(["nodowncast"]),
            },
            "new" => {
                let id = d.new_span(&span::Attributes::new_root(meta, &vs));
                ids.borrow_mut().push(id.into_u64());
                json!(["id", canon(&ids.borrow(), id.into_u64())])
            }
            "rec" => {
                d.record(&real(n1), &span::Record::new(&vs));
                json!(["unit"])
            }
            "ff" => {
                d.record_follows_from(&real(n1), &real(n2));
                json!(["unit"])
            }
            "ev" => {
                d.event(&Event::new(meta, &vs));
                json!(["unit"])
            }
            "enter" => {
                d.enter(&real(n1));
                json!(["unit"])
            }
            "exit" => {
                d.exit(&real(n1));
                json!(["unit"])
            }
            "clone" => {
                let id = d.clone_span(&real(n1));
                json!(["id", canon(&ids.borrow(), id.into_u64())])
            }
            "close" => json!(["bool", d.try_close(real(n1))]),
            "drop" => {
                #[allow(deprecated)]
                d.drop_span(real(n1));
                json!(["unit"])
            }
            "cur" => {
                let _ = d.current_span();
                json!(["unit"])
            }
            _ => json!(["badop"]),
        };
        let mut es = env.take();
        if quiet_registry_traffic {
            es.retain(|e| e.m != "max_level_hint" && e.m != "register_callsite");
        }
        canon_entries(&ids.borrow(), &mut es);
        outs.borrow_mut().push(json!({"log": ent(&es), "res": res}));
    };
    let k = UNWIND_FROM.with(|c| c.get()).unwrap_or(ops.len()).min(ops.len());
    for op in &ops[..k] {
        exec(op);
    }
    if k < ops.len() {
        // the rest of the workload runs in a Drop impl while a panic propagates; the panic is caught right here
        let _ = catch_unwind(AssertUnwindSafe(|| {
            let _guard = RunOnDrop(|| {
                for op in &ops[k..] {
                    exec(op);
                }
            });
            std::panic::resume_unwind(Box::new("unwinding segment"));
        }));
    }
    outs.into_inner()
}


macro_rules! shapes {
    ($name:expr, $env:expr, $ops:expr; $( $n:literal => $e:expr ),* $(,)?) => {
        match $name { $( $n => Some(drive($env, $e, $ops)), )* _ => None }
    };
}

fn static_any(name: &str, env: &Env, ops: &[Value], behs: &[Arc<Beh>]) -> Option<Value> {
    let l = |i: u64| env.layer(i, &behs[(i as usize).min(behs.len() - 1)]);
    let b0 = behs[0].clone();
    let mk = || env.root(&b0);
    type DS<R> = Box<dyn Subscribe<R> + Send + Sync>;
    shapes! { name, env, ops;
        "p0" => mk(),
        "p1" => mk().with(l(1)),
        "p2" => mk().with(l(1)).with(l(2)),
        "p3" => mk().with(l(1)).with(l(2)).with(l(3)),
        "box" => mk().with(Box::new(l(1))),
        "boxdyn" => mk().with(Box::new(l(1)) as DS<RecCollector>),
        "some" => mk().with(Some(l(1))),
        "vec1" => mk().with(vec![l(1)]),
        "reload" => mk().with(reload::Subscriber::new(l(1)).0),
        "id_outer" => mk().with(l(1).and_then(Identity::new())),
        "id_inner" => mk().with(Identity::new().and_then(l(1))),
        "mid_box" => mk().with(l(1)).with(Box::new(l(2))).with(l(3)),
        "mid_some" => mk().with(l(1)).with(Some(l(2))).with(l(3)),
        "mid_vec1" => mk().with(l(1)).with(vec![l(2)]).with(l(3)),
        "mid_reload" => mk().with(l(1)).with(reload::Subscriber::new(l(2)).0).with(l(3)),
        "none_top1" => mk().with(l(1)).with(None::<RecLayer>),
        "vec0_top1" => mk().with(l(1)).with(Vec::<RecLayer>::new()),
        "vec3" => mk().with(vec![l(1), l(2), l(3)]),
        "pair2" => mk().with(l(1).and_then(l(2))),
        "pair3" => mk().with(l(1).and_then(l(2)).and_then(l(3))),
        "cbox0" => Box::new(mk()),
        "carc0" => Arc::new(mk()),
        "cbox" => Box::new(mk().with(l(1))),
        "carc" => Arc::new(mk().with(l(1))),
        "cbox_mid" => Box::new(mk().with(l(1))).with(l(2)),
        "carc_mid" => Arc::new(mk().with(l(1))).with(l(2)),
    }
}

fn run_line(line: &str) -> Value {
    let case: Value = match serde_json::from_str(line) {
        Ok(v) => v,
        Err(e) => return json!({"id": null, "panic": format!("bad json: {}", e)}),
    };
    let id = case["id"].clone();
    let empty = Vec::new();
    let ops = case["ops"].as_array().unwrap_or(&empty).clone();
    let behs: Vec<Arc<Beh>> = case["behs"].as_array().unwrap_or(&empty).iter().map(beh_of).collect();
    UNWIND_FROM.with(|c| c.set(case["unwind_from"].as_u64().map(|k| k as usize)));
    UNWOUND.with(|c| c.set(0));
    let r = catch_unwind(AssertUnwindSafe(|| {
        let env = Env::new();
        static_any(case["shape"].as_str().unwrap_or(""), &env, &ops, &behs)
    }));
    match r {
        Ok(Some(mut v)) => {
            v["id"] = id;
            v["unwound"] = json!(UNWOUND.with(|c| c.get()));
            v["panic"] = Value::Null;
            v
        }
        Ok(None) => json!({"id": id, "panic": "unknown shape"}),
        Err(p) => {
            let msg = p.downcast_ref::<String>().cloned().or_else(|| p.downcast_ref::<&str>().map(|s| s.to_string())).unwrap_or_default();
            json!({"id": id, "panic": format!("panic: {}", msg)})
        }
    }
}

fn main() {
    std::panic::set_hook(Box::new(|_| {}));
    let stdin = std::io::stdin();
    let mut line = String::new();
    loop {
        line.clear();
        match stdin.read_line(&mut line) {
            Ok(0) | Err(_) => break,
            Ok(_) => {
                let l = line.trim();
                if l.is_empty() {
                    continue;
                }
                let owned = l.to_string();
                let out = std::thread::spawn(move || run_line(&owned)).join().unwrap_or_else(|_| json!({"id": null, "panic": "case thread died"}));
                println!("{}", out);
            }
        }
    }
}
