//! h_registry — drives the real `tracing_subscriber::Registry` (C05, C06).
//!
//! Input (file argument or stdin): cases
//!     case <id> <n0> <n1> <global 0|1>
//!     <op> ...            one per line, see `Op`
//!     end
//! `n0`/`n1` = number of recording layers (1 or 2) on registry instance 0 / 1.  Each instance is
//! `Registry + ErrorSubscriber + Rec<1> [+ Rec<2>] + FRec.with_filter(LevelFilter::INFO)`: the outermost layer has a
//! per-subscriber filter (spans created with the `d` flag are DEBUG = disabled for it) and records, inside on_event, what
//! IT sees as current span / event parent / event scope (`fevent`).  Spans and events are created the way the macros do:
//! `enabled()` first, then `new_span` / `event`.  With `global 1` instance 0 is installed as the
//! process-global default (the driver uses one process per such case).
//!
//! Every op is executed by one of three real worker threads, one op at a time (the controller waits
//! for the reply), so the interleaving at op granularity is the one in the file.  Output: one JSON
//! line per op with the observations made while it ran (layer callbacks + user-side reads), in order.
//! After the first panic the case stops (`"stopped":true`) and all remaining handles are leaked.
use std::any::Any;
use std::collections::HashMap;
use std::io::Read;
use std::panic::{catch_unwind, AssertUnwindSafe};
use std::sync::atomic::{AtomicUsize, Ordering};
use std::sync::mpsc::{channel, Receiver, Sender};
use std::sync::{Arc, Mutex};

use tracing::span::EnteredSpan;
use tracing::{Dispatch, Event, Metadata, Span};
use tracing_core::{callsite::Callsite, dispatch, span, Collect, Interest, Kind, Level};
use tracing_error::{ErrorSubscriber, SpanTrace};
use tracing_subscriber::{
    filter::LevelFilter,
    prelude::*,
    registry::{LookupSpan, Registry, SpanRef},
    reload,
    subscribe::Context,
    Subscribe,
};

// ---------------------------------------------------------------- static callsites (no macros: no interest cache)
struct Cs;
impl Callsite for Cs {
    fn set_interest(&self, _: Interest) {}
    fn metadata(&self) -> &Metadata<'_> {
        &SPAN_META[0]
    }
}
static CS: Cs = Cs;
macro_rules! span_meta {
    ($($name:literal),*) => {
        static SPAN_META: [Metadata<'static>; 32] = [
            $( tracing_core::metadata! { name: $name, target: "h_registry", level: Level::INFO, fields: &[], callsite: &CS, kind: Kind::SPAN } ),*
        ];
        static SPAN_META_D: [Metadata<'static>; 32] = [
            $( tracing_core::metadata! { name: $name, target: "h_registry", level: Level::DEBUG, fields: &[], callsite: &CS, kind: Kind::SPAN } ),*
        ];
    };
}
span_meta!(
    "s0", "s1", "s2", "s3", "s4", "s5", "s6", "s7", "s8", "s9", "s10", "s11", "s12", "s13", "s14", "s15", "s16", "s17",
    "s18", "s19", "s20", "s21", "s22", "s23", "s24", "s25", "s26", "s27", "s28", "s29", "s30", "s31"
);
static EVENT_META: Metadata<'static> = tracing_core::metadata! {
    name: "ev", target: "h_registry", level: Level::INFO, fields: &[], callsite: &CS, kind: Kind::EVENT
};

fn seq_of_name(n: &str) -> i64 {
    n.strip_prefix('s').and_then(|x| x.parse().ok()).unwrap_or(-9)
}

// ---------------------------------------------------------------- shared observation log
static LOG: Mutex<Vec<String>> = Mutex::new(Vec::new());
/// (instance, raw id, creation number) of every span created in this case, oldest first
static CREATED: Mutex<Vec<(usize, u64, i64)>> = Mutex::new(Vec::new());
static NEXT_Q: AtomicUsize = AtomicUsize::new(0);

fn lock<T>(m: &Mutex<T>) -> std::sync::MutexGuard<'_, T> {
    m.lock().unwrap_or_else(|e| e.into_inner())
}
fn log(s: String) {
    lock(&LOG).push(s);
}
fn opt(x: Option<i64>) -> String {
    match x {
        Some(v) => v.to_string(),
        None => "null".into(),
    }
}
fn list(v: &[i64]) -> String {
    format!("[{}]", v.iter().map(|x| x.to_string()).collect::<Vec<_>>().join(","))
}
fn seq_of_raw(inst: usize, raw: u64) -> Option<i64> {
    lock(&CREATED).iter().rev().find(|c| c.0 == inst && c.1 == raw).map(|c| c.2)
}

// ---------------------------------------------------------------- recording layer
struct Tag<const L: usize>(i64);
/// the extension somebody else (an exporter holding a SpanRef) writes into a span: `poke`
struct Note(i64);
struct Rec<const L: usize> {
    inst: usize,
}

impl<const L: usize, C> Subscribe<C> for Rec<L>
where
    C: Collect + for<'a> LookupSpan<'a>,
{
    fn on_new_span(&self, attrs: &span::Attributes<'_>, id: &span::Id, ctx: Context<'_, C>) {
        let q = seq_of_name(attrs.metadata().name());
        match ctx.span(id) {
            None => log(format!("{{\"k\":\"newgone\",\"i\":{},\"l\":{},\"q\":{}}}", self.inst, L, q)),
            Some(sp) => {
                let stale = sp.extensions().get::<Tag<L>>().map(|t| t.0);
                if L == 1 {
                    // data an earlier occupant of this slot left behind?
                    if let Some(v) = sp.extensions().get::<Note>().map(|n| n.0) {
                        log(format!("{{\"k\":\"stalenote\",\"i\":{},\"q\":{},\"v\":{}}}", self.inst, q, v));
                    }
                }
                // parent as stored: parent id present?  parent found?
                #[allow(deprecated)]
                let pid = sp.parent_id().cloned();
                let par = match pid {
                    None => "null".to_string(),
                    Some(_) => match sp.parent() {
                        Some(p) => seq_of_name(p.name()).to_string(),
                        None => "-1".to_string(),
                    },
                };
                sp.extensions_mut().replace(Tag::<L>(q));
                log(format!(
                    "{{\"k\":\"new\",\"i\":{},\"l\":{},\"q\":{},\"stale\":{},\"par\":{}}}",
                    self.inst, L, q, opt(stale), par
                ));
            }
        }
    }

    fn on_close(&self, id: span::Id, ctx: Context<'_, C>) {
        match ctx.span(&id) {
            Some(sp) => {
                let q = seq_of_name(sp.name());
                let ext = sp.extensions().get::<Tag<L>>().map(|t| t.0);
                log(format!("{{\"k\":\"close\",\"i\":{},\"l\":{},\"q\":{},\"ext\":{}}}", self.inst, L, q, opt(ext)));
            }
            None => log(format!(
                "{{\"k\":\"closegone\",\"i\":{},\"l\":{},\"q\":{}}}",
                self.inst,
                L,
                opt(seq_of_raw(self.inst, id.into_u64()))
            )),
        }
    }

    fn on_event(&self, ev: &Event<'_>, ctx: Context<'_, C>) {
        if L != 1 {
            return;
        }
        let cur = ctx.lookup_current().map(|s| seq_of_name(s.name()));
        let espan = ctx.event_span(ev).map(|s| seq_of_name(s.name()));
        let escope: Vec<i64> = ctx.event_scope(ev).map(|s| s.map(|x| seq_of_name(x.name())).collect()).unwrap_or_default();
        let efr: Vec<i64> =
            ctx.event_scope(ev).map(|s| s.from_root().map(|x| seq_of_name(x.name())).collect()).unwrap_or_default();
        let created: Vec<(usize, u64, i64)> = lock(&CREATED).iter().filter(|c| c.0 == self.inst).cloned().collect();
        let mut dump = Vec::new();
        for (_, raw, q) in created {
            let id = span::Id::from_u64(raw);
            match ctx.span(&id) {
                None => dump.push(format!("[{},null,null,null]", q)),
                Some(sp) => {
                    let sc: Vec<i64> = sp.scope().map(|x| seq_of_name(x.name())).collect();
                    let fr: Vec<i64> = sp.scope().from_root().map(|x| seq_of_name(x.name())).collect();
                    // walking with SpanRef::parent must give the same chain
                    let mut chain = vec![seq_of_name(sp.name())];
                    let mut p = sp.parent();
                    while let Some(x) = p {
                        chain.push(seq_of_name(x.name()));
                        p = x.parent();
                    }
                    dump.push(format!("[{},{},{},{}]", q, list(&sc), list(&fr), list(&chain)));
                }
            }
        }
        log(format!(
            "{{\"k\":\"event\",\"i\":{},\"cur\":{},\"espan\":{},\"escope\":{},\"efromroot\":{},\"dump\":[{}]}}",
            self.inst,
            opt(cur),
            opt(espan),
            list(&escope),
            list(&efr),
            dump.join(",")
        ));
    }
}

/// The layer behind a per-subscriber filter: what the FILTERED subscriber sees inside on_event.
struct FRec {
    inst: usize,
}
/// creation number of the span whose close makes FRec::on_close panic (`fdrop`), or -1
static ARMED: std::sync::atomic::AtomicI64 = std::sync::atomic::AtomicI64::new(-1);

impl<C> Subscribe<C> for FRec
where
    C: Collect + for<'a> LookupSpan<'a>,
{
    fn on_close(&self, id: span::Id, ctx: Context<'_, C>) {
        // FRec is the OUTERMOST layer: every other layer has been notified, the outermost CloseGuard is already `closing`.
        // The unwinding drops that guard, which clears the slot and releases the parent — as after a plain close.
        if let Some(sp) = ctx.span(&id) {
            if seq_of_name(sp.name()) == ARMED.load(Ordering::SeqCst) {
                drop(sp);
                std::panic::panic_any(ScriptedUnwind);
            }
        }
    }

    fn on_event(&self, ev: &Event<'_>, ctx: Context<'_, C>) {
        let cur = ctx.lookup_current().map(|s| seq_of_name(s.name()));
        let espan = ctx.event_span(ev).map(|s| seq_of_name(s.name()));
        let escope: Vec<i64> = ctx.event_scope(ev).map(|s| s.map(|x| seq_of_name(x.name())).collect()).unwrap_or_default();
        let efr: Vec<i64> =
            ctx.event_scope(ev).map(|s| s.from_root().map(|x| seq_of_name(x.name())).collect()).unwrap_or_default();
        log(format!(
            "{{\"k\":\"fevent\",\"i\":{},\"cur\":{},\"espan\":{},\"escope\":{},\"efromroot\":{}}}",
            self.inst,
            opt(cur),
            opt(espan),
            list(&escope),
            list(&efr)
        ));
    }
}

/// With two recording layers the second one sits behind `reload::Subscriber` (its handle is used by `mdrop`).
fn make_dispatch(inst: usize, n: usize) -> (Dispatch, Option<reload::Handle<Rec<2>>>) {
    let base = Registry::default().with(ErrorSubscriber::default()).with(Rec::<1> { inst });
    if n >= 2 {
        let (rl, handle) = reload::Subscriber::new(Rec::<2> { inst });
        (Dispatch::new(base.with(rl).with(FRec { inst }.with_filter(LevelFilter::INFO))), Some(handle))
    } else {
        (Dispatch::new(base.with(FRec { inst }.with_filter(LevelFilter::INFO))), None)
    }
}

// ---------------------------------------------------------------- ops
#[derive(Clone, Debug)]
enum Pk {
    Root,
    Ctx,
    Explicit(u64),
}
#[derive(Clone, Debug)]
enum Op {
    New(u64, Pk, bool), // bool: DEBUG level (disabled for the filtered layer)
    PDrop(u64),         // the handle is dropped while a scripted panic unwinds (caught)
    FDrop(u64),         // the handle is dropped and the outermost layer's on_close panics for that span (caught)
    PExitQ(i64),        // Collect::exit by creation number, from a destructor that runs while a scripted panic unwinds (caught)
    PDropGuard(u64),    // the EnteredSpan guard is dropped while a scripted panic unwinds (caught)
    MDrop(usize, u64),  // mdrop tA tB h: thread tA (the op's thread) parks inside reload Handle::modify of h's instance, thread tB drops h, tA leaves
    ModifyPark(usize),  // internal: what tA executes for MDrop
    Hold(u64, u64),     // hold k h: look the span of handle h up through its registry and keep the SpanRef in slot k
    Poke(u64),          // poke k: write an extension (Note) through the held SpanRef
    Peek(u64),          // peek k: read it back through the held SpanRef
    Release(u64),       // release k: drop the held SpanRef
    Clone(u64, u64),
    Drop(u64),
    Enter(u64),
    ExitQ(i64),
    ExitH(u64),
    Cur(u64, bool),
    Event(Pk),
    EventQ(i64), // an event whose explicit parent is the retained Id of span number q (possibly stale)
    SetDef(i64),
    UnsetDef,
    Read(u64),
    Entered(u64, u64),
    DropGuard(u64),
    Finish(bool), // end of case: true = leak everything (after a panic)
}

enum Handle {
    S(Span),
    T(SpanTrace),
}

struct Shared {
    handles: Mutex<HashMap<u64, Handle>>,
    /// (instance, id, dispatch) retained per creation number for raw exits
    raw: Mutex<HashMap<i64, (usize, span::Id, Dispatch)>>,
    disp: Vec<Dispatch>,
    reload: Vec<Option<reload::Handle<Rec<2>>>>,
    /// (some thread is parked inside Handle::modify, it may leave)
    park: (Mutex<(bool, bool)>, std::sync::Condvar),
    global: bool,
}

fn inst_of(sh: &Shared, d: &Dispatch) -> Option<usize> {
    // identify a dispatch by the address of its registry
    let r = d.downcast_ref::<Registry>()? as *const Registry;
    sh.disp.iter().position(|x| x.downcast_ref::<Registry>().map(|y| y as *const Registry) == Some(r))
}

fn span_q(sh: &Shared, sp: &Span) -> Option<i64> {
    sp.with_collector(|(id, d)| inst_of(sh, d).and_then(|i| seq_of_raw(i, id.into_u64()))).flatten()
}

fn panic_msg(e: Box<dyn Any + Send>) -> String {
    let s = if let Some(s) = e.downcast_ref::<String>() {
        s.clone()
    } else if let Some(s) = e.downcast_ref::<&str>() {
        s.to_string()
    } else {
        "?".into()
    };
    s.replace('\\', "/").replace('"', "'")
}

struct Worker {
    sh: Arc<Shared>,
    guard: Option<dispatch::DefaultGuard>,
    def: Option<Option<usize>>, // own scoped default
    guards: HashMap<u64, EnteredSpan>,
    refs: HashMap<u64, SpanRef<'static, Registry>>,
}

impl Worker {
    fn eff(&self) -> Option<usize> {
        match self.def {
            Some(d) => d,
            None => {
                if self.sh.global {
                    Some(0)
                } else {
                    None
                }
            }
        }
    }

    /// (id, own dispatch) of a live span handle; logs `ill` for a dead handle id
    fn pair_of(&self, h: u64) -> Option<(span::Id, Dispatch)> {
        let hs = lock(&self.sh.handles);
        match hs.get(&h) {
            None => {
                log("{\"k\":\"ill\",\"c\":3}".into());
                None
            }
            Some(Handle::S(s)) => s.with_collector(|(id, d)| (id.clone(), d.clone())),
            Some(Handle::T(_)) => None,
        }
    }

    fn exec(&mut self, op: &Op) {
        let sh = self.sh.clone();
        match op {
            Op::New(h, pk, dbg) => {
                if lock(&sh.handles).contains_key(h) {
                    log("{\"k\":\"ill\",\"c\":1}".into());
                    return;
                }
                let Some(i) = self.eff() else {
                    lock(&sh.handles).insert(*h, Handle::S(Span::none()));
                    return;
                };
                let q = NEXT_Q.load(Ordering::SeqCst);
                let meta: &'static Metadata<'static> = if *dbg { &SPAN_META_D[q] } else { &SPAN_META[q] };
                let vs = meta.fields().value_set(&[]);
                // as the macros do: ask `enabled` first (this is what lets per-subscriber filters record their verdict)
                let _ = dispatch::get_default(|d| d.enabled(meta));
                let parent_id: Option<Option<span::Id>> = match pk {
                    Pk::Explicit(hp) => match lock(&sh.handles).get(hp) {
                        None => {
                            log("{\"k\":\"ill\",\"c\":2}".into());
                            Some(None)
                        }
                        Some(Handle::S(p)) => {
                            if let Some(j) = p.with_collector(|(_, d)| inst_of(&sh, d)).flatten() {
                                if j != i {
                                    log("{\"k\":\"foreignparent\"}".into());
                                }
                            }
                            Some(p.id())
                        }
                        Some(Handle::T(_)) => Some(None),
                    },
                    _ => None,
                };
                let sp = match pk {
                    Pk::Root => Span::new_root(meta, &vs),
                    Pk::Ctx => Span::new(meta, &vs),
                    Pk::Explicit(_) => Span::child_of(parent_id.unwrap(), meta, &vs),
                };
                let raw = sp.id().map(|x| x.into_u64()).unwrap_or(0);
                NEXT_Q.store(q + 1, Ordering::SeqCst);
                lock(&CREATED).push((i, raw, q as i64));
                sp.with_collector(|(id, d)| lock(&sh.raw).insert(q as i64, (i, id.clone(), d.clone())));
                log(format!("{{\"k\":\"alloc\",\"i\":{},\"q\":{},\"raw\":{}}}", i, q, raw));
                lock(&sh.handles).insert(*h, Handle::S(sp));
            }
            Op::Clone(h, h2) => {
                let mut hs = lock(&sh.handles);
                if !hs.contains_key(h) {
                    log("{\"k\":\"ill\",\"c\":3}".into());
                    return;
                }
                if hs.contains_key(h2) {
                    log("{\"k\":\"ill\",\"c\":1}".into());
                    return;
                }
                let c = match hs.get(h).unwrap() {
                    Handle::S(s) => Handle::S(s.clone()),
                    Handle::T(t) => Handle::T(t.clone()),
                };
                hs.insert(*h2, c);
            }
            Op::Drop(h) => {
                let x = lock(&sh.handles).remove(h);
                match x {
                    None => log("{\"k\":\"ill\",\"c\":3}".into()),
                    Some(v) => drop(v),
                }
            }
            Op::Enter(h) => {
                if let Some((id, d)) = self.pair_of(*h) {
                    d.enter(&id);
                }
            }
            Op::ExitQ(q) => {
                let x = lock(&sh.raw).get(q).cloned();
                match x {
                    None => log("{\"k\":\"ill\",\"c\":4}".into()),
                    Some((_, id, d)) => d.exit(&id),
                }
            }
            Op::ExitH(h) => {
                if let Some((id, d)) = self.pair_of(*h) {
                    d.exit(&id);
                }
            }
            Op::Cur(h, as_trace) => {
                if lock(&sh.handles).contains_key(h) {
                    log("{\"k\":\"ill\",\"c\":1}".into());
                    return;
                }
                let sp = Span::current();
                let q = span_q(&sh, &sp);
                log(format!("{{\"k\":\"cur\",\"q\":{}}}", opt(q)));
                let v = if *as_trace { Handle::T(SpanTrace::new(sp)) } else { Handle::S(sp) };
                lock(&sh.handles).insert(*h, v);
            }
            Op::Event(pk) => {
                let vs = EVENT_META.fields().value_set(&[]);
                let ev = match pk {
                    Pk::Ctx => Event::new(&EVENT_META, &vs),
                    Pk::Root => Event::new_child_of(None, &EVENT_META, &vs),
                    Pk::Explicit(hp) => {
                        let pid = match lock(&sh.handles).get(hp) {
                            Some(Handle::S(p)) => p.id(),
                            _ => None,
                        };
                        match pid {
                            // an explicit parent that is a disabled span: the macros pass `None` = root;
                            // the model says "no event span" for both
                            None => Event::new_child_of(None, &EVENT_META, &vs),
                            Some(id) => Event::new_child_of(id, &EVENT_META, &vs),
                        }
                    }
                };
                dispatch::get_default(|d| {
                    if d.enabled(&EVENT_META) {
                        d.event(&ev)
                    }
                });
            }
            Op::EventQ(q) => {
                let x = lock(&sh.raw).get(q).cloned();
                match x {
                    None => log("{\"k\":\"ill\",\"c\":4}".into()),
                    Some((_, id, _)) => {
                        let vs = EVENT_META.fields().value_set(&[]);
                        let ev = Event::new_child_of(id, &EVENT_META, &vs);
                        dispatch::get_default(|d| {
                            if d.enabled(&EVENT_META) {
                                d.event(&ev)
                            }
                        });
                    }
                }
            }
            Op::PDrop(h) => {
                let x = lock(&sh.handles).remove(h);
                match x {
                    None => log("{\"k\":\"ill\",\"c\":3}".into()),
                    Some(v) => {
                        // the handle goes out of scope while a panic unwinds; the panic is contained here
                        let r = catch_unwind(AssertUnwindSafe(move || {
                            let _dropped_during_unwinding = v;
                            std::panic::panic_any(ScriptedUnwind);
                        }));
                        if let Err(e) = r {
                            if e.downcast_ref::<ScriptedUnwind>().is_none() {
                                std::panic::resume_unwind(e);
                            }
                        }
                    }
                }
            }
            Op::FDrop(h) => {
                let x = lock(&sh.handles).remove(h);
                match x {
                    None => log("{\"k\":\"ill\",\"c\":3}".into()),
                    Some(v) => {
                        let q = match &v {
                            Handle::S(s) => span_q(&sh, s),
                            Handle::T(_) => None,
                        };
                        ARMED.store(q.unwrap_or(-1), Ordering::SeqCst);
                        let r = catch_unwind(AssertUnwindSafe(move || drop(v)));
                        ARMED.store(-1, Ordering::SeqCst);
                        if let Err(e) = r {
                            if e.downcast_ref::<ScriptedUnwind>().is_none() {
                                std::panic::resume_unwind(e);
                            }
                        }
                    }
                }
            }
            Op::Hold(k, h) => {
                if self.refs.contains_key(k) {
                    log("{\"k\":\"ill\",\"c\":1}".into());
                    return;
                }
                if let Some((id, d)) = self.pair_of(*h) {
                    // the registry lives as long as this leaked clone of its Dispatch
                    let d: &'static Dispatch = Box::leak(Box::new(d));
                    match d.downcast_ref::<Registry>().and_then(|r| r.span(&id)) {
                        Some(sp) => {
                            log(format!("{{\"k\":\"hold\",\"q\":{}}}", seq_of_name(sp.name())));
                            self.refs.insert(*k, sp);
                        }
                        None => log("{\"k\":\"hold\",\"q\":null}".into()),
                    }
                }
            }
            Op::Poke(k) => match self.refs.get(k) {
                None => log("{\"k\":\"ill\",\"c\":3}".into()),
                Some(sp) => {
                    let q = seq_of_name(sp.name());
                    sp.extensions_mut().replace(Note(900 + q));
                }
            },
            Op::Peek(k) => match self.refs.get(k) {
                None => log("{\"k\":\"ill\",\"c\":3}".into()),
                Some(sp) => {
                    let v = sp.extensions().get::<Note>().map(|n| n.0);
                    log(format!("{{\"k\":\"peek\",\"v\":{}}}", opt(v)));
                }
            },
            Op::Release(k) => match self.refs.remove(k) {
                None => log("{\"k\":\"ill\",\"c\":3}".into()),
                Some(sp) => drop(sp),
            },
            Op::SetDef(d) => {
                // one guard per thread: drop the old one first
                self.guard = None;
                let disp = if *d < 0 { Dispatch::none() } else { sh.disp[*d as usize].clone() };
                self.guard = Some(dispatch::set_default(&disp));
                self.def = Some(if *d < 0 { None } else { Some(*d as usize) });
            }
            Op::UnsetDef => {
                self.guard = None;
                self.def = None;
            }
            Op::Read(h) => {
                let hs = lock(&sh.handles);
                match hs.get(h) {
                    None => log("{\"k\":\"ill\",\"c\":3}".into()),
                    Some(Handle::S(s)) => {
                        let r = s.with_collector(|(id, d)| {
                            d.downcast_ref::<Registry>().and_then(|r| r.span(id)).map(|sp| {
                                let sc: Vec<i64> = sp.scope().map(|x| seq_of_name(x.name())).collect();
                                sc
                            })
                        });
                        match r {
                            None => log("{\"k\":\"trace\",\"r\":[]}".into()),
                            Some(None) => log("{\"k\":\"trace\",\"r\":null}".into()),
                            Some(Some(v)) => log(format!("{{\"k\":\"trace\",\"r\":{}}}", list(&v))),
                        }
                    }
                    Some(Handle::T(t)) => {
                        let mut v = Vec::new();
                        let r = catch_unwind(AssertUnwindSafe(|| {
                            t.with_spans(|m, _| {
                                v.push(seq_of_name(m.name()));
                                true
                            })
                        }));
                        match r {
                            Ok(()) => log(format!("{{\"k\":\"trace\",\"r\":{}}}", list(&v))),
                            Err(e) => {
                                let m = panic_msg(e);
                                if m.contains("registry should have a span") {
                                    log("{\"k\":\"trace\",\"r\":null}".into())
                                } else {
                                    std::panic::resume_unwind(Box::new(m))
                                }
                            }
                        }
                    }
                }
            }
            Op::Entered(h, g) => {
                if self.guards.contains_key(g) {
                    log("{\"k\":\"ill\",\"c\":1}".into());
                    return;
                }
                let c: Option<Span> = {
                    let hs = lock(&sh.handles);
                    match hs.get(h) {
                        Some(Handle::S(s)) => Some(s.clone()),
                        _ => None,
                    }
                };
                match c {
                    Some(c) => {
                        let e = c.entered();
                        self.guards.insert(*g, e);
                    }
                    None => log("{\"k\":\"ill\",\"c\":3}".into()),
                }
            }
            Op::PExitQ(q) => {
                let x = lock(&sh.raw).get(q).cloned();
                match x {
                    None => log("{\"k\":\"ill\",\"c\":4}".into()),
                    Some((_, id, d)) => {
                        struct ExitOnDrop(Dispatch, span::Id);
                        impl Drop for ExitOnDrop {
                            fn drop(&mut self) {
                                self.0.exit(&self.1);
                            }
                        }
                        let r = catch_unwind(AssertUnwindSafe(move || {
                            let _exits_during_unwinding = ExitOnDrop(d, id);
                            std::panic::panic_any(ScriptedUnwind);
                        }));
                        if let Err(e) = r {
                            if e.downcast_ref::<ScriptedUnwind>().is_none() {
                                std::panic::resume_unwind(e);
                            }
                        }
                    }
                }
            }
            Op::PDropGuard(g) => match self.guards.remove(g) {
                None => log("{\"k\":\"ill\",\"c\":3}".into()),
                Some(e) => {
                    let r = catch_unwind(AssertUnwindSafe(move || {
                        let _dropped_during_unwinding = e;
                        std::panic::panic_any(ScriptedUnwind);
                    }));
                    if let Err(e) = r {
                        if e.downcast_ref::<ScriptedUnwind>().is_none() {
                            std::panic::resume_unwind(e);
                        }
                    }
                }
            },
            Op::ModifyPark(i) => {
                let park = &sh.park;
                let leave = |_: &mut Rec<2>| {
                    let mut g = lock(&park.0);
                    g.0 = true;
                    park.1.notify_all();
                    while !g.1 {
                        g = park.1.wait(g).unwrap_or_else(|e| e.into_inner());
                    }
                };
                match sh.reload.get(*i).and_then(|h| h.as_ref()) {
                    Some(h) => {
                        let _ = h.modify(leave);
                    }
                    None => leave(&mut Rec::<2> { inst: *i }),
                }
                let mut g = lock(&park.0);
                *g = (false, false);
            }
            Op::MDrop(..) => {}
            Op::DropGuard(g) => match self.guards.remove(g) {
                None => log("{\"k\":\"ill\",\"c\":3}".into()),
                Some(e) => drop(e),
            },
            Op::Finish(leak) => {
                if *leak {
                    for (_, g) in self.guards.drain() {
                        std::mem::forget(g);
                    }
                    for (_, r) in self.refs.drain() {
                        std::mem::forget(r);
                    }
                } else {
                    // drop guards in creation order (ids ascending) for determinism
                    let mut ks: Vec<u64> = self.guards.keys().cloned().collect();
                    ks.sort();
                    for k in ks {
                        let g = self.guards.remove(&k);
                        drop(g);
                    }
                }
                for (_, r) in self.refs.drain() {
                    std::mem::forget(r);
                }
                self.guard = None;
                self.def = None;
            }
        }
    }
}

/// payload of the scripted panic of `pdrop`
struct ScriptedUnwind;

fn worker_main(sh: Arc<Shared>, rx: Receiver<Op>, tx: Sender<Option<String>>) {
    let mut w = Worker { sh, guard: None, def: None, guards: HashMap::new(), refs: HashMap::new() };
    while let Ok(op) = rx.recv() {
        let r = catch_unwind(AssertUnwindSafe(|| w.exec(&op)));
        let fin = matches!(op, Op::Finish(_));
        let _ = tx.send(r.err().map(panic_msg));
        if fin {
            break;
        }
    }
}

fn parse_pk(f: &[&str]) -> Pk {
    match f.get(0).copied() {
        Some("r") => Pk::Root,
        Some("c") => Pk::Ctx,
        Some("e") => Pk::Explicit(f[1].parse().unwrap()),
        x => panic!("bad parent kind {:?}", x),
    }
}

fn parse_op(f: &[&str]) -> (usize, Op) {
    let t: usize = f[1].parse().unwrap();
    let n = |k: usize| -> u64 { f[k].parse().unwrap() };
    let op = match f[0] {
        "new" => Op::New(n(2), parse_pk(&f[3..]), f.last() == Some(&"d")),
        "pdrop" => Op::PDrop(n(2)),
        "fdrop" => Op::FDrop(n(2)),
        "pexit" => Op::PExitQ(f[2].parse().unwrap()),
        "pdropguard" => Op::PDropGuard(n(2)),
        "mdrop" => Op::MDrop(f[2].parse().unwrap(), n(3)),
        "hold" => Op::Hold(n(2), n(3)),
        "poke" => Op::Poke(n(2)),
        "peek" => Op::Peek(n(2)),
        "release" => Op::Release(n(2)),
        "clone" => Op::Clone(n(2), n(3)),
        "drop" => Op::Drop(n(2)),
        "enter" => Op::Enter(n(2)),
        "exit" => Op::ExitQ(f[2].parse().unwrap()),
        "exith" => Op::ExitH(n(2)),
        "cur" => Op::Cur(n(2), f[3] == "1"),
        "event" => Op::Event(parse_pk(&f[2..])),
        "evq" => Op::EventQ(f[2].parse().unwrap()),
        "setdef" => Op::SetDef(f[2].parse().unwrap()),
        "unsetdef" => Op::UnsetDef,
        "read" => Op::Read(n(2)),
        "entered" => Op::Entered(n(2), n(3)),
        "dropguard" => Op::DropGuard(n(2)),
        x => panic!("bad op {}", x),
    };
    (t, op)
}

fn run_case(id: &str, n0: usize, n1: usize, global: bool, ops: &[(usize, Op)], nthreads: usize) {
    lock(&LOG).clear();
    lock(&CREATED).clear();
    NEXT_Q.store(0, Ordering::SeqCst);
    let (d0, r0) = make_dispatch(0, n0);
    let (d1, r1) = make_dispatch(1, n1);
    let disp = vec![d0, d1];
    if global {
        dispatch::set_global_default(disp[0].clone()).expect("global default already set: one process per global case");
    }
    let sh = Arc::new(Shared {
        handles: Mutex::new(HashMap::new()),
        raw: Mutex::new(HashMap::new()),
        disp,
        reload: vec![r0, r1],
        park: (Mutex::new((false, false)), std::sync::Condvar::new()),
        global,
    });
    let mut chans = Vec::new();
    let mut joins = Vec::new();
    for _ in 0..nthreads {
        let (txo, rxo) = channel::<Op>();
        let (txr, rxr) = channel::<Option<String>>();
        let sh2 = sh.clone();
        joins.push(std::thread::Builder::new().stack_size(8 << 20).spawn(move || worker_main(sh2, rxo, txr)).unwrap());
        chans.push((txo, rxr));
    }
    println!("{{\"case\":\"{}\"}}", id);
    let mut stopped = false;
    for (k, (t, op)) in ops.iter().enumerate() {
        let pan = if let Op::MDrop(tb, h) = op {
            // thread A parks inside Handle::modify of the reload layer of h's instance (write lock held); thread B drops h:
            // if that closes the span, B must BLOCK in the reload layer's on_close until A leaves; then A leaves.
            let (ta, tb) = (*t % nthreads, *tb % nthreads);
            let inst = {
                let hs = lock(&sh.handles);
                match hs.get(h) {
                    Some(Handle::S(s)) => s.with_collector(|(_, d)| inst_of(&sh, d)).flatten(),
                    _ => None,
                }
            };
            if ta == tb {
                chans[tb].0.send(Op::Drop(*h)).unwrap();
                chans[tb].1.recv().unwrap()
            } else {
                chans[ta].0.send(Op::ModifyPark(inst.unwrap_or(9))).unwrap();
                {
                    let mut g = lock(&sh.park.0);
                    while !g.0 {
                        g = sh.park.1.wait(g).unwrap_or_else(|e| e.into_inner());
                    }
                }
                chans[tb].0.send(Op::Drop(*h)).unwrap();
                let early = chans[tb].1.recv_timeout(std::time::Duration::from_millis(40));
                {
                    let mut g = lock(&sh.park.0);
                    g.1 = true;
                    sh.park.1.notify_all();
                }
                let pa = chans[ta].1.recv().unwrap();
                let pb = match early {
                    Ok(x) => x,
                    Err(_) => chans[tb].1.recv().unwrap(),
                };
                pa.or(pb)
            }
        } else {
            let (tx, rx) = &chans[*t % nthreads];
            tx.send(op.clone()).unwrap();
            rx.recv().unwrap()
        };
        let mut obs: Vec<String> = lock(&LOG).drain(..).collect();
        if let Some(m) = &pan {
            obs.push(format!("{{\"k\":\"panic\",\"msg\":\"{}\"}}", m));
        }
        println!("{{\"op\":{},\"obs\":[{}]}}", k, obs.join(","));
        if pan.is_some() {
            stopped = true;
            break;
        }
    }
    // teardown: after a panic leak everything; otherwise leave remaining handles alive until the
    // registries go away (dropping them here would be extra, unscripted operations)
    for (tx, rx) in &chans {
        tx.send(Op::Finish(true)).unwrap();
        let _ = rx.recv();
    }
    for j in joins {
        let _ = j.join();
    }
    let hs: Vec<Handle> = lock(&sh.handles).drain().map(|x| x.1).collect();
    for h in hs {
        std::mem::forget(h);
    }
    lock(&sh.raw).clear();
    println!("{{\"endcase\":\"{}\",\"stopped\":{}}}", id, stopped);
}

fn main() {
    std::panic::set_hook(Box::new(|_| {}));
    let args: Vec<String> = std::env::args().collect();
    let mut text = String::new();
    if args.len() > 1 {
        text = std::fs::read_to_string(&args[1]).expect("case file");
    } else {
        std::io::stdin().read_to_string(&mut text).unwrap();
    }
    let mut cur: Option<(String, usize, usize, bool)> = None;
    let mut ops: Vec<(usize, Op)> = Vec::new();
    for line in text.lines() {
        let f: Vec<&str> = line.split_whitespace().collect();
        if f.is_empty() || f[0].starts_with('#') {
            continue;
        }
        match f[0] {
            "case" => {
                cur = Some((f[1].to_string(), f[2].parse().unwrap(), f[3].parse().unwrap(), f[4] == "1"));
                ops.clear();
            }
            "end" => {
                let (id, n0, n1, g) = cur.take().expect("end without case");
                run_case(&id, n0, n1, g, &ops, 3);
            }
            _ => ops.push(parse_op(&f)),
        }
    }
}
