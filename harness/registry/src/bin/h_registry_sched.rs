//! h_registry_sched — forced schedules of the registry's reference-count micro-steps (C05, thorough leg).
//!
//! Needs the H3 yield points of hooks/H3_registry.patch in sharded.rs (`--cfg tracing_verif`):
//!     51 / 56  before / after  ref_count.fetch_add   (clone_span)
//!     52 / 55  before / after  ref_count.fetch_sub   (try_close)
//!     53       before spans.clear(idx)               (CloseGuard::drop, outermost closing frame)
//!     54       before subscriber.try_close(parent)   (Clear for DataInner: the cascade)
//! Without them every operation is one step (`"yields_seen":false` is reported and the driver skips the leg).
//!
//! Input (stdin): scenarios
//!     scenario <id> <nlayers 1|2> <nthreads> <maxruns> <seed>
//!     new <h> r | new <h> e <hp>        set-up on the controller thread: a root span / a child of handle hp
//!     clone <h> <h2>                    set-up: another handle
//!     own <t> <h>                       worker t owns handle h
//!     pre <t> enter <h>                 worker t runs this to completion before the race phase
//!     op <t> drop <h> | clone <h> <h2> | enter <h> | exit <h> | new <h2> <hp>      worker t's program, in order
//!     end
//! Every worker parks at each yield point; the controller releases exactly one worker at a time, so a run is the
//! interleaving given by its list of choices (index into the sorted list of unfinished workers at each step; default 0).
//! All runs of a scenario are enumerated depth-first (re-execution from scratch); after <maxruns> runs the remaining
//! ones are sampled at random (xorshift on <seed>).  One JSON line per run.
use std::cell::Cell;
use std::collections::HashMap;
use std::io::Read;
use std::panic::{catch_unwind, AssertUnwindSafe};
use std::sync::atomic::{AtomicBool, AtomicUsize, Ordering};
use std::sync::mpsc::{channel, Receiver, Sender};
use std::sync::{Arc, Condvar, Mutex};

use tracing::{Dispatch, Metadata, Span};
use tracing_core::{callsite::Callsite, dispatch, span, Collect, Interest, Kind, Level};
use tracing_subscriber::{
    prelude::*,
    registry::{LookupSpan, Registry},
    subscribe::Context,
    Subscribe,
};

struct Cs;
impl Callsite for Cs {
    fn set_interest(&self, _: Interest) {}
    fn metadata(&self) -> &Metadata<'_> {
        &SPAN_META[0]
    }
}
static CS: Cs = Cs;
macro_rules! span_meta {
    ($($name:literal),*) => {
        static SPAN_META: [Metadata<'static>; 16] = [
            $( tracing_core::metadata! { name: $name, target: "h_registry_sched", level: Level::INFO, fields: &[], callsite: &CS, kind: Kind::SPAN } ),*
        ];
    };
}
span_meta!("s0", "s1", "s2", "s3", "s4", "s5", "s6", "s7", "s8", "s9", "s10", "s11", "s12", "s13", "s14", "s15");

fn seq_of_name(n: &str) -> i64 {
    n.strip_prefix('s').and_then(|x| x.parse().ok()).unwrap_or(-9)
}
fn lock<T>(m: &Mutex<T>) -> std::sync::MutexGuard<'_, T> {
    m.lock().unwrap_or_else(|e| e.into_inner())
}

// ---------------------------------------------------------------- scheduler
struct CtlState {
    parked: Vec<Option<u32>>,
    done: Vec<bool>,
    grant: Option<usize>,
}
struct Ctl {
    m: Mutex<CtlState>,
    cv: Condvar,
}
static CTL: Mutex<Option<Arc<Ctl>>> = Mutex::new(None);
static CONTROLLED: AtomicBool = AtomicBool::new(false);
static STEP: AtomicUsize = AtomicUsize::new(0);
static YIELDS_SEEN: AtomicBool = AtomicBool::new(false);
thread_local! { static WORKER: Cell<Option<usize>> = const { Cell::new(None) }; }

fn on_yield(id: u32) {
    // only the registry's own yield points (and the start gate 0) are scheduling points here; the yield points other
    // hook patches put into tracing-core / tracing (callsite registration, dispatch, reload ...) are ignored
    if !(id == 0 || (51..=56).contains(&id)) {
        return;
    }
    if id != 0 {
        YIELDS_SEEN.store(true, Ordering::SeqCst);
    }
    if !CONTROLLED.load(Ordering::SeqCst) {
        return;
    }
    let Some(t) = WORKER.with(|w| w.get()) else { return };
    let ctl = lock(&CTL).clone();
    let Some(ctl) = ctl else { return };
    let mut s = lock(&ctl.m);
    s.parked[t] = Some(id);
    ctl.cv.notify_all();
    while s.grant != Some(t) {
        s = ctl.cv.wait(s).unwrap_or_else(|e| e.into_inner());
    }
    s.grant = None;
    s.parked[t] = None;
}

// ---------------------------------------------------------------- recording layer
static LOG: Mutex<Vec<String>> = Mutex::new(Vec::new());
struct Tag<const L: usize>(i64);
struct Rec<const L: usize>;
impl<const L: usize, C> Subscribe<C> for Rec<L>
where
    C: Collect + for<'a> LookupSpan<'a>,
{
    fn on_new_span(&self, attrs: &span::Attributes<'_>, id: &span::Id, ctx: Context<'_, C>) {
        let q = seq_of_name(attrs.metadata().name());
        if let Some(sp) = ctx.span(id) {
            sp.extensions_mut().replace(Tag::<L>(q));
        }
    }
    fn on_close(&self, id: span::Id, ctx: Context<'_, C>) {
        let t = WORKER.with(|w| w.get()).map(|x| x as i64).unwrap_or(-1);
        let step = STEP.load(Ordering::SeqCst);
        match ctx.span(&id) {
            Some(sp) => {
                let q = seq_of_name(sp.name());
                let ext = sp.extensions().get::<Tag<L>>().map(|t| t.0).unwrap_or(-1);
                lock(&LOG).push(format!(
                    "{{\"k\":\"close\",\"l\":{},\"q\":{},\"t\":{},\"step\":{},\"ok\":true,\"ext\":{}}}",
                    L, q, t, step, ext
                ));
            }
            None => lock(&LOG).push(format!(
                "{{\"k\":\"close\",\"l\":{},\"raw\":{},\"t\":{},\"step\":{},\"ok\":false}}",
                L,
                id.into_u64(),
                t,
                step
            )),
        }
    }
}

// ---------------------------------------------------------------- scenario
#[derive(Clone, Debug)]
enum Op {
    Drop(u64),
    Clone(u64, u64),
    Enter(u64),
    Exit(u64),
    New(u64, u64),
}
#[derive(Clone, Debug, Default)]
struct Scenario {
    id: String,
    nlayers: usize,
    nthreads: usize,
    maxruns: usize,
    seed: u64,
    setup: Vec<(String, u64, u64)>, // ("new-r",h,0) ("new-e",h,hp) ("clone",h,h2)
    own: Vec<(usize, u64)>,
    pre: Vec<(usize, Op)>,
    prog: Vec<Vec<Op>>,
}

enum Msg {
    Pre(Op),
    Go,
    Quit,
}

struct WorkerCtx {
    t: usize,
    disp: Dispatch,
    handles: HashMap<u64, Span>,
    created: Arc<Mutex<Vec<(i64, u64)>>>, // (q, raw id)
    next_q: Arc<AtomicUsize>,
}

fn panic_msg(e: Box<dyn std::any::Any + Send>) -> String {
    let s = if let Some(s) = e.downcast_ref::<String>() {
        s.clone()
    } else if let Some(s) = e.downcast_ref::<&str>() {
        s.to_string()
    } else {
        "?".into()
    };
    s.replace('\\', "/").replace('"', "'").replace('\n', " ")
}

fn exec(w: &mut WorkerCtx, op: &Op) {
    match op {
        Op::Drop(h) => {
            let x = w.handles.remove(h);
            drop(x);
        }
        Op::Clone(h, h2) => {
            if let Some(s) = w.handles.get(h) {
                let c = s.clone();
                w.handles.insert(*h2, c);
            }
        }
        Op::Enter(h) => {
            if let Some(s) = w.handles.get(h) {
                s.with_collector(|(id, d)| d.enter(id));
            }
        }
        Op::Exit(h) => {
            if let Some(s) = w.handles.get(h) {
                s.with_collector(|(id, d)| d.exit(id));
            }
        }
        Op::New(h2, hp) => {
            let pid = w.handles.get(hp).and_then(|s| s.id());
            let q = w.next_q.fetch_add(1, Ordering::SeqCst);
            let meta: &'static Metadata<'static> = &SPAN_META[q];
            let vs = meta.fields().value_set(&[]);
            let sp = Span::child_of(pid, meta, &vs);
            if let Some(id) = sp.id() {
                lock(&w.created).push((q as i64, id.into_u64()));
            }
            w.handles.insert(*h2, sp);
        }
    }
}

fn worker_main(mut w: WorkerCtx, rx: Receiver<Msg>, tx: Sender<Option<String>>, prog: Vec<Op>, ctl: Arc<Ctl>) {
    WORKER.with(|c| c.set(Some(w.t)));
    let _g = dispatch::set_default(&w.disp);
    while let Ok(m) = rx.recv() {
        match m {
            Msg::Pre(op) => {
                let r = catch_unwind(AssertUnwindSafe(|| exec(&mut w, &op)));
                let _ = tx.send(r.err().map(panic_msg));
            }
            Msg::Go => {
                on_yield(0);
                let mut pan = None;
                for op in &prog {
                    let r = catch_unwind(AssertUnwindSafe(|| exec(&mut w, op)));
                    if let Err(e) = r {
                        pan = Some(panic_msg(e));
                        break;
                    }
                }
                {
                    let mut s = lock(&ctl.m);
                    s.done[w.t] = true;
                    ctl.cv.notify_all();
                }
                let _ = tx.send(pan);
            }
            Msg::Quit => break,
        }
    }
    // whatever is left is leaked: dropping it here would be unscripted operations
    for (_, s) in w.handles.drain() {
        std::mem::forget(s);
    }
}

struct RunOut {
    steps: Vec<(usize, usize, i64, i64)>, // (n_enabled, thread, from_yield, to_yield or -1)
    line: String,
}

fn run_once(sc: &Scenario, choices: &[usize], run_no: usize, rng: &mut Option<u64>) -> RunOut {
    lock(&LOG).clear();
    STEP.store(0, Ordering::SeqCst);
    CONTROLLED.store(false, Ordering::SeqCst);
    let base = Registry::default().with(Rec::<1>);
    let disp = if sc.nlayers >= 2 { Dispatch::new(base.with(Rec::<2>)) } else { Dispatch::new(base) };
    let created: Arc<Mutex<Vec<(i64, u64)>>> = Arc::new(Mutex::new(Vec::new()));
    let next_q = Arc::new(AtomicUsize::new(0));
    // ---- set-up on the controller thread
    let mut handles: HashMap<u64, Span> = HashMap::new();
    dispatch::with_default(&disp, || {
        for (k, a, b) in &sc.setup {
            match k.as_str() {
                "new-r" | "new-e" => {
                    let q = next_q.fetch_add(1, Ordering::SeqCst);
                    let meta: &'static Metadata<'static> = &SPAN_META[q];
                    let vs = meta.fields().value_set(&[]);
                    let sp = if k == "new-r" {
                        Span::new_root(meta, &vs)
                    } else {
                        Span::child_of(handles.get(b).and_then(|s| s.id()), meta, &vs)
                    };
                    if let Some(id) = sp.id() {
                        lock(&created).push((q as i64, id.into_u64()));
                    }
                    handles.insert(*a, sp);
                }
                "clone" => {
                    let c = handles.get(a).cloned();
                    if let Some(c) = c {
                        handles.insert(*b, c);
                    }
                }
                _ => {}
            }
        }
    });
    let n = sc.nthreads;
    let ctl = Arc::new(Ctl { m: Mutex::new(CtlState { parked: vec![None; n], done: vec![false; n], grant: None }), cv: Condvar::new() });
    *lock(&CTL) = Some(ctl.clone());
    let mut chans = Vec::new();
    let mut joins = Vec::new();
    for t in 0..n {
        let mut hs = HashMap::new();
        for (ot, h) in &sc.own {
            if *ot == t {
                if let Some(s) = handles.remove(h) {
                    hs.insert(*h, s);
                }
            }
        }
        let w = WorkerCtx { t, disp: disp.clone(), handles: hs, created: created.clone(), next_q: next_q.clone() };
        let (txo, rxo) = channel::<Msg>();
        let (txr, rxr) = channel::<Option<String>>();
        let prog = sc.prog.get(t).cloned().unwrap_or_default();
        let c2 = ctl.clone();
        joins.push(std::thread::Builder::new().stack_size(4 << 20).spawn(move || worker_main(w, rxo, txr, prog, c2)).unwrap());
        chans.push((txo, rxr));
    }
    let mut panics: Vec<String> = Vec::new();
    for (t, op) in &sc.pre {
        chans[*t].0.send(Msg::Pre(op.clone())).unwrap();
        if let Ok(Some(m)) = chans[*t].1.recv() {
            panics.push(format!("pre t{}: {}", t, m));
        }
    }
    // ---- race phase
    CONTROLLED.store(true, Ordering::SeqCst);
    for (tx, _) in &chans {
        tx.send(Msg::Go).unwrap();
    }
    {
        // wait until every worker is parked at its start gate
        let mut s = lock(&ctl.m);
        while !(0..n).all(|t| s.parked[t].is_some() || s.done[t]) {
            s = ctl.cv.wait(s).unwrap_or_else(|e| e.into_inner());
        }
    }
    let mut steps: Vec<(usize, usize, i64, i64)> = Vec::new();
    loop {
        let (enabled, from): (Vec<usize>, Vec<i64>) = {
            let s = lock(&ctl.m);
            let en: Vec<usize> = (0..n).filter(|t| !s.done[*t]).collect();
            let fr: Vec<i64> = en.iter().map(|t| s.parked[*t].map(|x| x as i64).unwrap_or(-2)).collect();
            (en, fr)
        };
        if enabled.is_empty() {
            break;
        }
        let k = steps.len();
        let pick = if k < choices.len() {
            choices[k].min(enabled.len() - 1)
        } else if let Some(x) = rng.as_mut() {
            *x ^= *x << 13;
            *x ^= *x >> 7;
            *x ^= *x << 17;
            (*x % enabled.len() as u64) as usize
        } else {
            0
        };
        let t = enabled[pick];
        STEP.store(k, Ordering::SeqCst);
        let to = {
            let mut s = lock(&ctl.m);
            s.grant = Some(t);
            ctl.cv.notify_all();
            // the worker clears `grant` and `parked[t]` when it wakes; wait until it parks again or finishes
            loop {
                s = ctl.cv.wait(s).unwrap_or_else(|e| e.into_inner());
                if s.grant.is_none() && (s.parked[t].is_some() || s.done[t]) {
                    break;
                }
            }
            if s.done[t] {
                -1
            } else {
                s.parked[t].map(|x| x as i64).unwrap_or(-2)
            }
        };
        steps.push((enabled.len(), t, from[pick], to));
        if steps.len() > 400 {
            panics.push("step bound exceeded".into());
            break;
        }
    }
    CONTROLLED.store(false, Ordering::SeqCst);
    for (t, (_, rx)) in chans.iter().enumerate() {
        if let Ok(Some(m)) = rx.recv() {
            panics.push(format!("t{}: {}", t, m));
        }
    }
    // ---- what is still in the registry
    let mut fin = Vec::new();
    if let Some(reg) = disp.downcast_ref::<Registry>() {
        for (q, raw) in lock(&created).iter() {
            let id = span::Id::from_u64(*raw);
            let found = match reg.span(&id) {
                Some(sp) => seq_of_name(sp.name()) == *q,
                None => false,
            };
            fin.push(format!("[{},{}]", q, found));
        }
    }
    for (tx, _) in &chans {
        let _ = tx.send(Msg::Quit);
    }
    for j in joins {
        let _ = j.join();
    }
    for (_, s) in handles.drain() {
        std::mem::forget(s);
    }
    *lock(&CTL) = None;
    let obs: Vec<String> = lock(&LOG).drain(..).collect();
    let st: Vec<String> = steps.iter().map(|(ne, t, f, to)| format!("[{},{},{},{}]", ne, t, f, to)).collect();
    let line = format!(
        "{{\"scn\":\"{}\",\"run\":{},\"steps\":[{}],\"obs\":[{}],\"final\":[{}],\"panics\":[{}],\"yields_seen\":{}}}",
        sc.id,
        run_no,
        st.join(","),
        obs.join(","),
        fin.join(","),
        panics.iter().map(|p| format!("\"{}\"", p)).collect::<Vec<_>>().join(","),
        YIELDS_SEEN.load(Ordering::SeqCst)
    );
    RunOut { steps, line }
}

fn explore(sc: &Scenario) {
    let mut choices: Vec<usize> = Vec::new();
    let mut runs = 0usize;
    let mut exhausted = false;
    while runs < sc.maxruns {
        let mut none = None;
        let out = run_once(sc, &choices, runs, &mut none);
        println!("{}", out.line);
        runs += 1;
        // next choice vector in depth-first order
        let mut full: Vec<(usize, usize)> = out
            .steps
            .iter()
            .enumerate()
            .map(|(k, (ne, _, _, _))| (if k < choices.len() { choices[k].min(ne - 1) } else { 0 }, *ne))
            .collect();
        loop {
            match full.pop() {
                None => {
                    exhausted = true;
                    break;
                }
                Some((c, ne)) => {
                    if c + 1 < ne {
                        full.push((c + 1, ne));
                        break;
                    }
                }
            }
        }
        if exhausted {
            break;
        }
        choices = full.iter().map(|x| x.0).collect();
    }
    let mut sampled = 0usize;
    if !exhausted {
        // the enumeration was cut: add random schedules
        let mut rng = Some(sc.seed | 1);
        for _ in 0..sc.maxruns {
            let out = run_once(sc, &[], runs, &mut rng);
            println!("{}", out.line);
            runs += 1;
            sampled += 1;
        }
    }
    println!("{{\"scn\":\"{}\",\"summary\":true,\"runs\":{},\"exhaustive\":{},\"sampled\":{}}}", sc.id, runs, exhausted, sampled);
}

fn parse_op(f: &[&str]) -> Op {
    let n = |k: usize| -> u64 { f[k].parse().unwrap() };
    match f[0] {
        "drop" => Op::Drop(n(1)),
        "clone" => Op::Clone(n(1), n(2)),
        "enter" => Op::Enter(n(1)),
        "exit" => Op::Exit(n(1)),
        "new" => Op::New(n(1), n(2)),
        x => panic!("bad op {}", x),
    }
}

fn main() {
    std::panic::set_hook(Box::new(|_| {}));
    tracing_core::__verif::set_yield(Some(Box::new(on_yield)));
    let mut text = String::new();
    std::io::stdin().read_to_string(&mut text).unwrap();
    let mut cur: Option<Scenario> = None;
    for line in text.lines() {
        let f: Vec<&str> = line.split_whitespace().collect();
        if f.is_empty() || f[0].starts_with('#') {
            continue;
        }
        match f[0] {
            "scenario" => {
                let nthreads: usize = f[3].parse().unwrap();
                cur = Some(Scenario {
                    id: f[1].to_string(),
                    nlayers: f[2].parse().unwrap(),
                    nthreads,
                    maxruns: f[4].parse().unwrap(),
                    seed: f[5].parse().unwrap(),
                    prog: vec![Vec::new(); nthreads],
                    ..Default::default()
                });
            }
            "new" => {
                let sc = cur.as_mut().unwrap();
                if f[2] == "r" {
                    sc.setup.push(("new-r".into(), f[1].parse().unwrap(), 0));
                } else {
                    sc.setup.push(("new-e".into(), f[1].parse().unwrap(), f[3].parse().unwrap()));
                }
            }
            "clone" => cur.as_mut().unwrap().setup.push(("clone".into(), f[1].parse().unwrap(), f[2].parse().unwrap())),
            "own" => cur.as_mut().unwrap().own.push((f[1].parse().unwrap(), f[2].parse().unwrap())),
            "pre" => {
                let t: usize = f[1].parse().unwrap();
                cur.as_mut().unwrap().pre.push((t, parse_op(&f[2..])));
            }
            "op" => {
                let t: usize = f[1].parse().unwrap();
                cur.as_mut().unwrap().prog[t].push(parse_op(&f[2..]));
            }
            "end" => {
                let sc = cur.take().unwrap();
                explore(&sc);
            }
            x => panic!("bad line {}", x),
        }
    }
}
