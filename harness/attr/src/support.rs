//! C17 harness support (hand-written): the effect recorder, the recording collector, the hand poller
//! and the case runner.  The generated corpus (`corpus_*.rs`, written by driver/props/c17_corpus.py)
//! contains the twin functions (plain / `#[tracing::instrument(..)]`) and a dispatch table.
//!
//! Log grammar (one string per entry; the driver parses it):
//!   body effects      eff K | use P | mv P | bdrop P | clone P | yield K
//!   scope-exit drops  xdrop P                (a recorder dropped by scope exit, not by the body's consume()/drop_now())
//!   poller / caller   call I | ret I | created I | poll I | pending I | ready I | panicked I | cancel I .. dropped I
//!   attribute side    fe J (custom field expression J evaluated) | pe K (parent expression) | fle (follows_from expression)
//!   tracing           new_span|id|name|level|target|parent|fields   enter|id   exit|id   close|id   follows|id|cause
//!                     event|level|target|current|fields             tdbg P | tdisp P (Debug/Display run by the collector)
//! A `Debug`/`Display` call on a recorder made while a collector callback is running is *tracing-side*
//! (`tdbg`/`tdisp`); made anywhere else it is a body effect (`dbg`/`disp`).
#![allow(dead_code)]
use std::cell::{Cell, RefCell};
use std::collections::HashMap;
use std::fmt;
use std::future::Future;
use std::mem::ManuallyDrop;
use std::pin::Pin;
use std::sync::atomic::{AtomicU64, Ordering};
use std::sync::Mutex;
use std::task::{Context, Poll, RawWaker, RawWakerVTable, Waker};

use tracing_core::collect::Interest;
use tracing_core::{span, Collect, Event, Level, LevelFilter, Metadata};

thread_local! {
    static LOG: RefCell<Vec<String>> = RefCell::new(Vec::new());
    static IN_TRACING: Cell<u32> = Cell::new(0);
    static BODY_DROP: Cell<bool> = Cell::new(false);
    static HELPERS: RefCell<Vec<tracing::Span>> = RefCell::new(Vec::new());
}

pub fn log(s: String) {
    LOG.with(|l| l.borrow_mut().push(s))
}
pub fn take_log() -> Vec<String> {
    LOG.with(|l| std::mem::take(&mut *l.borrow_mut()))
}
fn in_tracing() -> bool {
    IN_TRACING.with(|c| c.get() > 0)
}
struct TracingScope;
impl TracingScope {
    fn new() -> Self {
        IN_TRACING.with(|c| c.set(c.get() + 1));
        TracingScope
    }
}
impl Drop for TracingScope {
    fn drop(&mut self) {
        IN_TRACING.with(|c| c.set(c.get() - 1));
    }
}

// ------------------------------------------------------------------------------------------------
// the recorder

pub struct R {
    pub id: u32,
}
impl R {
    pub fn new(id: u32) -> R {
        R { id }
    }
}
impl Drop for R {
    fn drop(&mut self) {
        if BODY_DROP.with(|c| c.get()) {
            log(format!("bdrop {}", self.id))
        } else {
            log(format!("xdrop {}", self.id))
        }
    }
}
impl Clone for R {
    fn clone(&self) -> R {
        log(format!("clone {}", self.id));
        R { id: self.id + 100 }
    }
}
impl fmt::Debug for R {
    fn fmt(&self, f: &mut fmt::Formatter<'_>) -> fmt::Result {
        log(format!("{} {}", if in_tracing() { "tdbg" } else { "dbg" }, self.id));
        write!(f, "R{}", self.id)
    }
}
impl fmt::Display for R {
    fn fmt(&self, f: &mut fmt::Formatter<'_>) -> fmt::Result {
        log(format!("{} {}", if in_tracing() { "tdisp" } else { "disp" }, self.id));
        write!(f, "r{}", self.id)
    }
}

/// What generic / `impl Trait` parameters are bounded by.
pub trait Rec: fmt::Debug + fmt::Display {
    fn touch(&self);
    fn touch_mut(&mut self);
    fn into_r(self) -> R;
}
impl Rec for R {
    fn touch(&self) {
        log(format!("use {}", self.id))
    }
    fn touch_mut(&mut self) {
        log(format!("use {}", self.id))
    }
    fn into_r(self) -> R {
        self
    }
}
/// `consume(p)`: the body moves `p` away; the callee drops it.
pub fn consume<T: Rec>(r: T) {
    let r = r.into_r();
    log(format!("mv {}", r.id));
    BODY_DROP.with(|c| c.set(true));
    drop(r);
    BODY_DROP.with(|c| c.set(false));
}
/// `drop_now(p)`: an explicit `drop(p)` in the body.
pub fn drop_now<T>(v: T) {
    BODY_DROP.with(|c| c.set(true));
    drop(v);
    BODY_DROP.with(|c| c.set(false));
}
pub fn eff(k: u32) {
    log(format!("eff {}", k))
}

pub struct Pair {
    pub x: R,
    pub y: R,
}
pub struct Wrap(pub R, pub R);
pub struct PairN {
    pub x: u32,
    pub y: u32,
}

/// `name = NAMEk` / `target = TGTk`: the identifier forms of the attribute's string arguments.
pub const NAME0: &str = "name0";
pub const NAME1: &str = "name1";
pub const NAME2: &str = "name2";
pub const NAME3: &str = "name3";
pub const NAME4: &str = "name4";
pub const NAME5: &str = "name5";
pub const TGT0: &str = "tgt0";
pub const TGT1: &str = "tgt1";
pub const TGT2: &str = "tgt2";
pub const TGT3: &str = "tgt3";

/// A spelling of the boxed-future return type that is neither `impl Future` nor literally `Pin<Box<..>>`.
pub type BoxFut<'a, T> = Pin<Box<dyn Future<Output = T> + 'a>>;

/// Plain error value (no effects).
pub struct Er(pub u32);
impl fmt::Debug for Er {
    fn fmt(&self, f: &mut fmt::Formatter<'_>) -> fmt::Result {
        write!(f, "Er({})", self.0)
    }
}
impl fmt::Display for Er {
    fn fmt(&self, f: &mut fmt::Formatter<'_>) -> fmt::Result {
        write!(f, "e{}", self.0)
    }
}
/// Panic payload.
pub struct Pp(pub u32);

/// Canonical text of a returned value, produced without running any logging impl.
pub trait Canon {
    fn canon(&self) -> String;
}
impl Canon for () {
    fn canon(&self) -> String {
        "()".into()
    }
}
impl Canon for u32 {
    fn canon(&self) -> String {
        format!("{}", self)
    }
}
impl Canon for R {
    fn canon(&self) -> String {
        format!("R{}", self.id)
    }
}
impl Canon for Er {
    fn canon(&self) -> String {
        format!("Er({})", self.0)
    }
}
impl<T: Canon, E: Canon> Canon for Result<T, E> {
    fn canon(&self) -> String {
        match self {
            Ok(v) => format!("Ok({})", v.canon()),
            Err(e) => format!("Err({})", e.canon()),
        }
    }
}
/// `impl Trait` return shapes.
pub trait Shown: Canon + fmt::Debug + fmt::Display {}
impl Shown for u32 {}
impl Shown for R {}

// ------------------------------------------------------------------------------------------------
// attribute-side helpers (their evaluation is logged; the plain twin never calls them)

/// custom field expression J over a primitive value
pub fn fx(j: u32, v: u64) -> u64 {
    log(format!("fe {}", j));
    v
}
/// custom field expression J over a recorder (returns the reference: recorded with `?` / `%`)
pub fn fxr<T: Rec>(j: u32, r: &T) -> &T {
    log(format!("fe {}", j));
    r
}
/// parent expression: helper span K (None when that span is disabled)
pub fn hp(k: usize) -> Option<span::Id> {
    log(format!("pe {}", k));
    HELPERS.with(|h| h.borrow().get(k).and_then(|s| s.id()))
}
/// follows_from expression
pub fn hf(ks: &[usize]) -> Vec<span::Id> {
    log("fle".to_string());
    HELPERS.with(|h| ks.iter().filter_map(|k| h.borrow().get(*k).and_then(|s| s.id())).collect())
}

// ------------------------------------------------------------------------------------------------
// a future that yields once

pub struct YieldOnce(bool, u32);
impl YieldOnce {
    pub fn new(k: u32) -> Self {
        YieldOnce(false, k)
    }
}
impl Future for YieldOnce {
    type Output = ();
    fn poll(mut self: Pin<&mut Self>, _: &mut Context<'_>) -> Poll<()> {
        if self.0 {
            Poll::Ready(())
        } else {
            self.0 = true;
            log(format!("yield {}", self.1));
            Poll::Pending
        }
    }
}

// ------------------------------------------------------------------------------------------------
// the recording collector

pub struct Col {
    pub hint: u8, // 0 = OFF .. 5 = TRACE
    pub span_on: bool,
    pub ev_on: bool,
    pub sometimes: bool,
    pub no_hint: bool,
    next: AtomicU64,
    st: Mutex<ColState>,
}
#[derive(Default)]
struct ColState {
    refs: HashMap<u64, usize>,
    stack: Vec<u64>,
    metas: HashMap<u64, &'static Metadata<'static>>,
}
impl Col {
    pub fn new(hint: u8, span_on: bool, ev_on: bool, sometimes: bool, no_hint: bool) -> Col {
        Col { hint, span_on, ev_on, sometimes, no_hint, next: AtomicU64::new(1), st: Mutex::new(ColState::default()) }
    }
}
pub fn lvl_num(l: &Level) -> u8 {
    if *l == Level::ERROR {
        1
    } else if *l == Level::WARN {
        2
    } else if *l == Level::INFO {
        3
    } else if *l == Level::DEBUG {
        4
    } else {
        5
    }
}
fn filt(h: u8) -> LevelFilter {
    match h {
        0 => LevelFilter::OFF,
        1 => LevelFilter::ERROR,
        2 => LevelFilter::WARN,
        3 => LevelFilter::INFO,
        4 => LevelFilter::DEBUG,
        _ => LevelFilter::TRACE,
    }
}
struct Vis(Vec<String>);
impl tracing_core::field::Visit for Vis {
    fn record_debug(&mut self, f: &tracing_core::Field, v: &dyn fmt::Debug) {
        self.0.push(format!("{}=dbg:{:?}", f.name(), v))
    }
    fn record_u64(&mut self, f: &tracing_core::Field, v: u64) {
        self.0.push(format!("{}=u64:{}", f.name(), v))
    }
    fn record_i64(&mut self, f: &tracing_core::Field, v: i64) {
        self.0.push(format!("{}=i64:{}", f.name(), v))
    }
    fn record_i128(&mut self, f: &tracing_core::Field, v: i128) {
        self.0.push(format!("{}=i128:{}", f.name(), v))
    }
    fn record_u128(&mut self, f: &tracing_core::Field, v: u128) {
        self.0.push(format!("{}=u128:{}", f.name(), v))
    }
    fn record_bool(&mut self, f: &tracing_core::Field, v: bool) {
        self.0.push(format!("{}=bool:{}", f.name(), v))
    }
    fn record_str(&mut self, f: &tracing_core::Field, v: &str) {
        self.0.push(format!("{}=str:{}", f.name(), v))
    }
    fn record_f64(&mut self, f: &tracing_core::Field, v: f64) {
        self.0.push(format!("{}=f64:{}", f.name(), v))
    }
}
impl Collect for Col {
    fn register_callsite(&self, m: &'static Metadata<'static>) -> Interest {
        if self.sometimes {
            Interest::sometimes()
        } else if self.enabled(m) {
            Interest::always()
        } else {
            Interest::never()
        }
    }
    fn enabled(&self, m: &Metadata<'_>) -> bool {
        lvl_num(m.level()) <= self.hint && if m.is_span() { self.span_on } else { self.ev_on }
    }
    fn max_level_hint(&self) -> Option<LevelFilter> {
        if self.no_hint {
            None
        } else {
            Some(filt(self.hint))
        }
    }
    fn new_span(&self, a: &span::Attributes<'_>) -> span::Id {
        let _t = TracingScope::new();
        let id = self.next.fetch_add(1, Ordering::Relaxed);
        let mut v = Vis(Vec::new());
        a.record(&mut v);
        let mut st = self.st.lock().unwrap();
        let parent = if a.is_root() {
            "root".to_string()
        } else if let Some(p) = a.parent() {
            format!("explicit:{}", p.into_u64())
        } else {
            match st.stack.last() {
                Some(c) => format!("ctx:{}", c),
                None => "ctx:none".to_string(),
            }
        };
        st.refs.insert(id, 1);
        st.metas.insert(id, a.metadata());
        let m = a.metadata();
        log(format!("new_span|{}|{}|{}|{}|{}|{}", id, m.name(), lvl_num(m.level()), m.target(), parent, v.0.join(",")));
        span::Id::from_u64(id)
    }
    fn record(&self, id: &span::Id, r: &span::Record<'_>) {
        let _t = TracingScope::new();
        let mut v = Vis(Vec::new());
        r.record(&mut v);
        log(format!("record|{}|{}", id.into_u64(), v.0.join(",")));
    }
    fn record_follows_from(&self, s: &span::Id, f: &span::Id) {
        log(format!("follows|{}|{}", s.into_u64(), f.into_u64()));
    }
    fn event(&self, e: &Event<'_>) {
        let _t = TracingScope::new();
        let mut v = Vis(Vec::new());
        e.record(&mut v);
        let st = self.st.lock().unwrap();
        let cur = if e.is_root() {
            "root".to_string()
        } else if let Some(p) = e.parent() {
            format!("explicit:{}", p.into_u64())
        } else {
            match st.stack.last() {
                Some(c) => format!("ctx:{}", c),
                None => "ctx:none".to_string(),
            }
        };
        let m = e.metadata();
        log(format!("event|{}|{}|{}|{}", lvl_num(m.level()), m.target(), cur, v.0.join(",")));
    }
    fn enter(&self, id: &span::Id) {
        self.st.lock().unwrap().stack.push(id.into_u64());
        log(format!("enter|{}", id.into_u64()));
    }
    fn exit(&self, id: &span::Id) {
        let mut st = self.st.lock().unwrap();
        if let Some(pos) = st.stack.iter().rposition(|x| *x == id.into_u64()) {
            st.stack.remove(pos);
        }
        drop(st);
        log(format!("exit|{}", id.into_u64()));
    }
    fn clone_span(&self, id: &span::Id) -> span::Id {
        *self.st.lock().unwrap().refs.entry(id.into_u64()).or_insert(0) += 1;
        id.clone()
    }
    fn try_close(&self, id: span::Id) -> bool {
        let mut st = self.st.lock().unwrap();
        let n = st.refs.entry(id.into_u64()).or_insert(1);
        *n -= 1;
        if *n == 0 {
            drop(st);
            log(format!("close|{}", id.into_u64()));
            true
        } else {
            false
        }
    }
    fn current_span(&self) -> span::Current {
        let st = self.st.lock().unwrap();
        match st.stack.last() {
            Some(id) => span::Current::new(span::Id::from_u64(*id), st.metas[id]),
            None => span::Current::none(),
        }
    }
}

// ------------------------------------------------------------------------------------------------
// the case runner

pub type Fut = Pin<Box<dyn Future<Output = String>>>;
pub enum Call {
    Sync(Box<dyn FnOnce() -> String>),
    Async(Box<dyn FnOnce() -> Fut>),
}
/// Borrowed recorders live in the caller and are never dropped (no log entry for them).
pub fn borrowed(id: u32) -> ManuallyDrop<R> {
    ManuallyDrop::new(R::new(id))
}
/// Canonicalise a returned value, then forget it (its drop is the caller's business, not the function's).
pub fn finish<T: Canon>(v: T) -> String {
    let s = v.canon();
    std::mem::forget(v);
    s
}

fn noop_waker() -> Waker {
    fn cl(_: *const ()) -> RawWaker {
        RawWaker::new(std::ptr::null(), &VT)
    }
    fn no(_: *const ()) {}
    static VT: RawWakerVTable = RawWakerVTable::new(cl, no, no, no);
    unsafe { Waker::from_raw(RawWaker::new(std::ptr::null(), &VT)) }
}

fn payload(p: Box<dyn std::any::Any + Send>) -> String {
    if let Some(pp) = p.downcast_ref::<Pp>() {
        format!("panic:{}", pp.0)
    } else if let Some(s) = p.downcast_ref::<&str>() {
        format!("panic-str:{}", s)
    } else if let Some(s) = p.downcast_ref::<String>() {
        format!("panic-str:{}", s)
    } else {
        "panic-other".to_string()
    }
}

pub struct CaseCall {
    pub f: usize,
    pub twin: char, // 'p' plain, 'i' instrumented
    pub args: Vec<u64>,
}
pub struct Case {
    pub id: String,
    pub col: Option<(u8, bool, bool, bool, bool)>, // hint, span_on, ev_on, sometimes, no_hint
    pub cur: bool,                                 // enter a caller span around everything
    pub calls: Vec<CaseCall>,
    pub sched: Vec<usize>,
}

/// `case ID col none|H,S,E,I,N cur 0|1 calls F:T:a.b.c;F:T:... sched i.j.k`
pub fn parse_case(line: &str) -> Option<Case> {
    let t: Vec<&str> = line.split_whitespace().collect();
    if t.len() < 10 || t[0] != "case" {
        return None;
    }
    let col = if t[3] == "none" {
        None
    } else {
        let v: Vec<u8> = t[3].split(',').map(|x| x.parse().unwrap()).collect();
        Some((v[0], v[1] != 0, v[2] != 0, v[3] != 0, v[4] != 0))
    };
    let calls = t[7]
        .split(';')
        .filter(|s| !s.is_empty())
        .map(|c| {
            let p: Vec<&str> = c.split(':').collect();
            CaseCall {
                f: p[0].parse().unwrap(),
                twin: p[1].chars().next().unwrap(),
                args: p[2].split('.').filter(|s| !s.is_empty()).map(|x| x.parse().unwrap()).collect(),
            }
        })
        .collect();
    let sched = t[9].split('.').filter(|s| !s.is_empty() && *s != "-").map(|x| x.parse().unwrap()).collect();
    Some(Case { id: t[1].to_string(), col, cur: t[5] == "1", calls, sched })
}

fn json_str(s: &str) -> String {
    let mut o = String::with_capacity(s.len() + 2);
    o.push('"');
    for c in s.chars() {
        match c {
            '"' => o.push_str("\\\""),
            '\\' => o.push_str("\\\\"),
            '\n' => o.push_str("\\n"),
            c if (c as u32) < 0x20 => o.push_str(&format!("\\u{:04x}", c as u32)),
            c => o.push(c),
        }
    }
    o.push('"');
    o
}

/// Runs one case; `mk(f, twin, args)` comes from the generated corpus.
pub fn run_case(case: &Case, mk: &dyn Fn(usize, char, &[u64]) -> Option<Call>) -> String {
    take_log();
    let body = || {
        // helper spans (ids 1..3) for `parent = hp(k)` / `follows_from = hf(..)`, and the caller span (id 4)
        let helpers: Vec<tracing::Span> = vec![
            tracing::span!(Level::ERROR, "h0"),
            tracing::span!(Level::ERROR, "h1"),
            tracing::span!(Level::ERROR, "h2"),
        ];
        HELPERS.with(|h| *h.borrow_mut() = helpers);
        let caller = tracing::span!(Level::ERROR, "caller");
        let guard = if case.cur { Some(caller.enter()) } else { None };
        take_log(); // set-up entries are not part of the observation
        let mut results: Vec<String> = vec![String::new(); case.calls.len()];
        let mut futs: Vec<Option<Fut>> = Vec::new();
        for (i, c) in case.calls.iter().enumerate() {
            match mk(c.f, c.twin, &c.args) {
                None => {
                    results[i] = "no-such-function".into();
                    futs.push(None);
                }
                Some(Call::Sync(f)) => {
                    log(format!("call {}", i));
                    let r = std::panic::catch_unwind(std::panic::AssertUnwindSafe(f));
                    results[i] = match r {
                        Ok(s) => {
                            log(format!("ret {}", i));
                            s
                        }
                        Err(p) => {
                            log(format!("panicked {}", i));
                            payload(p)
                        }
                    };
                    futs.push(None);
                }
                Some(Call::Async(f)) => {
                    log(format!("call {}", i));
                    let r = std::panic::catch_unwind(std::panic::AssertUnwindSafe(f));
                    match r {
                        Ok(fut) => {
                            log(format!("created {}", i));
                            futs.push(Some(fut));
                        }
                        Err(p) => {
                            log(format!("panicked {}", i));
                            results[i] = payload(p);
                            futs.push(None);
                        }
                    }
                }
            }
        }
        let w = noop_waker();
        let mut cx = Context::from_waker(&w);
        let mut poll_one = |i: usize, futs: &mut Vec<Option<Fut>>, results: &mut Vec<String>| {
            if i >= futs.len() || futs[i].is_none() {
                return;
            }
            log(format!("poll {}", i));
            let r = {
                let f = futs[i].as_mut().unwrap();
                std::panic::catch_unwind(std::panic::AssertUnwindSafe(|| f.as_mut().poll(&mut cx)))
            };
            match r {
                Ok(Poll::Pending) => log(format!("pending {}", i)),
                Ok(Poll::Ready(s)) => {
                    log(format!("ready {}", i));
                    results[i] = s;
                    futs[i] = None; // drop of a completed future: logs nothing for a correct implementation
                    log(format!("dropped {}", i));
                }
                Err(p) => {
                    log(format!("panicked {}", i));
                    results[i] = payload(p);
                    futs[i] = None;
                    log(format!("dropped {}", i));
                }
            }
        };
        for &i in &case.sched {
            if i >= 1000 {
                // cancellation: the caller drops future i - 1000 now (unfinished, or never polled)
                let j = i - 1000;
                if j < futs.len() && futs[j].is_some() {
                    log(format!("cancel {}", j));
                    results[j] = "cancelled".to_string();
                    futs[j] = None;
                    log(format!("dropped {}", j));
                }
            } else {
                poll_one(i, &mut futs, &mut results);
            }
        }
        // then round-robin until everything is done (bounded: every future yields finitely often)
        let mut rounds = 0;
        while futs.iter().any(|f| f.is_some()) && rounds < 10_000 {
            for i in 0..futs.len() {
                poll_one(i, &mut futs, &mut results);
            }
            rounds += 1;
        }
        let lg = take_log();
        drop(guard);
        drop(caller);
        HELPERS.with(|h| h.borrow_mut().clear());
        (lg, results)
    };
    let (lg, results) = match case.col {
        Some((h, s, e, i, n)) => tracing::collect::with_default(Col::new(h, s, e, i, n), body),
        None => body(),
    };
    take_log();
    format!(
        "{{\"id\":{},\"log\":[{}],\"results\":[{}]}}",
        json_str(&case.id),
        lg.iter().map(|s| json_str(s)).collect::<Vec<_>>().join(","),
        results.iter().map(|s| json_str(s)).collect::<Vec<_>>().join(",")
    )
}

pub fn main_loop(mk: &dyn Fn(usize, char, &[u64]) -> Option<Call>) {
    use std::io::{BufRead, Write};
    std::panic::set_hook(Box::new(|_| {}));
    let stdin = std::io::stdin();
    let out = std::io::stdout();
    let mut out = std::io::BufWriter::new(out.lock());
    for line in stdin.lock().lines() {
        let line = line.unwrap();
        if let Some(c) = parse_case(&line) {
            let s = run_case(&c, mk);
            writeln!(out, "{}", s).unwrap();
        }
    }
    out.flush().unwrap();
}
