//! C17 harness, argument-order probe: twins whose attribute writes `target` before `parent` / `follows_from`
//! (`corpus_o.rs`).  A separate binary: this tree's attr.rs rejects that order (known finding F172), and the
//! rejection must not take the main corpus down.
extern crate alloc; // `alloc::boxed::Box::pin` spellings of the corpus
#[path = "../support.rs"]
mod support;
#[path = "../corpus_o.rs"]
mod corpus;

fn main() {
    support::main_loop(&corpus::mk);
}
