//! C17 harness, fallback: when a corpus no longer compiles against the tree under check, the driver writes the twins that
//! still do to a scratch file and builds this binary with `--cfg c17_pruned` and `C17_PRUNED=<that file>` (see driver/props/c17.py
//! build_pruned).  Without the cfg it contains an empty corpus.
extern crate alloc; // `alloc::boxed::Box::pin` spellings of the corpus
#[path = "../support.rs"]
mod support;
#[cfg(c17_pruned)]
#[allow(unused, unreachable_code, clippy::all)]
mod corpus {
    include!(env!("C17_PRUNED"));
}
#[cfg(not(c17_pruned))]
mod corpus {
    pub fn mk(_f: usize, _t: char, _a: &[u64]) -> Option<super::support::Call> {
        None
    }
}

fn main() {
    support::main_loop(&corpus::mk);
}
