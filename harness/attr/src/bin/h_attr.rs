//! C17 harness, quick corpus: runs the cases read from stdin against the generated twins of
//! `corpus_a.rs` (real `#[tracing::instrument]` expansion, real `tracing` span/event machinery).
extern crate alloc; // `alloc::boxed::Box::pin` spellings of the corpus
#[path = "../support.rs"]
mod support;
#[path = "../corpus_a.rs"]
mod corpus;

fn main() {
    support::main_loop(&corpus::mk);
}
