//! C17 harness, thorough corpus (`corpus_b.rs`): same runner as h_attr.
#[path = "../support.rs"]
mod support;
#[path = "../corpus_b.rs"]
mod corpus;

fn main() {
    support::main_loop(&corpus::mk);
}
