//! C17 harness, thorough corpus (`corpus_b.rs`): same runner as h_attr.
extern crate alloc; // `alloc::boxed::Box::pin` spellings of the corpus
#[path = "../support.rs"]
mod support;
#[path = "../corpus_b.rs"]
mod corpus;

fn main() {
    support::main_loop(&corpus::mk);
}
