//! C10 harness support: evaluation counters, the typed recording visitor, the configurable collector,
//! the run-time data table the generated invocation templates draw their payloads from.
//!
//! Everything observable is written as one JSON object per line; texts are hex-encoded UTF-8 so the
//! driver never has to trust an escaper.
#![allow(dead_code)]
use std::cell::RefCell;
use std::error::Error;
use std::fmt;
use std::num::*;
use std::ops::Deref;
use tracing_core::{
    collect::{Collect, Interest},
    field::{Field, Visit},
    span, Event, LevelFilter, Metadata,
};

pub const NTICKS: usize = 160;

thread_local! {
    pub static TICKS: RefCell<Vec<u32>> = RefCell::new(vec![0; NTICKS]);
    pub static DELIV: RefCell<Vec<String>> = RefCell::new(Vec::new());
    pub static ENABLED_CALLS: RefCell<Vec<String>> = RefCell::new(Vec::new());
    pub static NEXT_ID: RefCell<u64> = RefCell::new(1);
}

/// Evaluation counter: every value / message-argument expression inside a macro invocation of the
/// corpus is wrapped as `t(i, expr)`.
#[inline(never)]
pub fn t<T>(i: usize, v: T) -> T {
    TICKS.with(|c| c.borrow_mut()[i] += 1);
    v
}

pub fn reset() {
    TICKS.with(|c| c.borrow_mut().iter_mut().for_each(|x| *x = 0));
    DELIV.with(|c| c.borrow_mut().clear());
    ENABLED_CALLS.with(|c| c.borrow_mut().clear());
}

/// Shorthand fields with a dotted path (`h.val`, `?h.sub.val`) have no expression to wrap; the path
/// goes through this `Deref`, so evaluating the path once = one tick.
pub struct Cnt<T> {
    pub __i: usize,
    pub __v: T,
}
impl<T> Cnt<T> {
    pub fn new(i: usize, v: T) -> Self {
        Cnt { __i: i, __v: v }
    }
}
impl<T> Deref for Cnt<T> {
    type Target = T;
    fn deref(&self) -> &T {
        TICKS.with(|c| c.borrow_mut()[self.__i] += 1);
        &self.__v
    }
}
pub struct H1<T> {
    pub val: T,
}
pub struct H2<T> {
    pub sub: H1<T>,
}
#[allow(non_snake_case)]
pub struct HR<T> {
    pub r#type: T,
}

/// A type with *different* Display and Debug texts that is not a `Value`: only usable through sigils.
pub struct DD(pub u32);
impl fmt::Display for DD {
    fn fmt(&self, f: &mut fmt::Formatter<'_>) -> fmt::Result {
        write!(f, "D<{}>", self.0)
    }
}
impl fmt::Debug for DD {
    fn fmt(&self, f: &mut fmt::Formatter<'_>) -> fmt::Result {
        write!(f, "G<{}>", self.0)
    }
}

/// A value whose Display AND Debug impls panic: formatting it inside the collector's visitor unwinds through the
/// dispatcher (`get_default`), the collector callback and the macro.  Used by the `+p` phases: the panic is caught, then
/// the ordinary corpus runs on the same thread under the same scoped default.
pub struct Boom;
impl fmt::Display for Boom {
    fn fmt(&self, _: &mut fmt::Formatter<'_>) -> fmt::Result {
        panic!("Boom: Display")
    }
}
impl fmt::Debug for Boom {
    fn fmt(&self, _: &mut fmt::Formatter<'_>) -> fmt::Result {
        panic!("Boom: Debug")
    }
}

/// One of three recordings of a panicking value; returns whether a panic was caught.
pub fn panic_probe(k: usize) -> bool {
    let r = std::panic::catch_unwind(|| match k % 3 {
        0 => {
            tracing::event!(tracing::Level::ERROR, boom = %Boom, after = 1u8);
        }
        1 => {
            let sp = tracing::span!(tracing::Level::ERROR, "boom_span", boom = ?Boom);
            drop(sp);
        }
        _ => {
            let sp = tracing::span!(tracing::Level::ERROR, "boom_record", late = tracing::field::Empty);
            sp.record("late", tracing::field::display(Boom));
            drop(sp);
        }
    });
    r.is_err()
}

#[derive(Debug)]
pub struct ChainErr {
    pub msg: String,
    pub src: Option<Box<ChainErr>>,
}
impl fmt::Display for ChainErr {
    fn fmt(&self, f: &mut fmt::Formatter<'_>) -> fmt::Result {
        f.write_str(&self.msg)
    }
}
impl Error for ChainErr {
    fn source(&self) -> Option<&(dyn Error + 'static)> {
        self.src.as_ref().map(|b| &**b as &(dyn Error + 'static))
    }
}
fn clone_err(e: &ChainErr) -> ChainErr {
    ChainErr { msg: e.msg.clone(), src: e.src.as_ref().map(|b| Box::new(clone_err(b))) }
}

pub const CN0: &str = "const.name zero";
pub const CN1: &str = "CN one";
pub const CN2: &str = "r#const";
pub const CN3: &str = "c3";

pub fn hex(b: &[u8]) -> String {
    let mut s = String::with_capacity(b.len() * 2);
    for x in b {
        s.push_str(&format!("{:02x}", x));
    }
    s
}
pub fn unhex(s: &str) -> Vec<u8> {
    (0..s.len() / 2).map(|i| u8::from_str_radix(&s[2 * i..2 * i + 2], 16).unwrap()).collect()
}

// ------------------------------------------------------------------------------------------------
// data table

macro_rules! data_table {
    ($( $f:ident : $t:ty ),* ; $( $nz:ident : $nzt:ty ),* ) => {
        pub struct D {
            pub r: usize,
            pub parent: tracing::Span,
            $( pub $f: Vec<$t>, )*
            $( pub $nz: Vec<$nzt>, )*
            pub f32v: Vec<f32>,
            pub f64v: Vec<f64>,
            pub boolv: Vec<bool>,
            pub strv: Vec<String>,
            pub bytesv: Vec<Vec<u8>>,
            pub errv: Vec<Box<ChainErr>>,
        }
        impl D {
            $( #[inline(never)] pub fn $f(&self, j: usize) -> $t { self.$f[(self.r + j) % self.$f.len()] } )*
            $( #[inline(never)] pub fn $nz(&self, j: usize) -> $nzt { self.$nz[(self.r + j) % self.$nz.len()] } )*
            pub fn empty() -> D {
                D { r: 0, parent: tracing::Span::none(), $( $f: Vec::new(), )* $( $nz: Vec::new(), )*
                    f32v: Vec::new(), f64v: Vec::new(), boolv: Vec::new(), strv: Vec::new(), bytesv: Vec::new(), errv: Vec::new() }
            }
            fn load_int(&mut self, key: &str, vals: &[&str]) -> bool {
                match key {
                    $( stringify!($f) => { self.$f = vals.iter().map(|s| s.parse::<$t>().unwrap()).collect(); true } )*
                    $( stringify!($nz) => { self.$nz = vals.iter().map(|s| <$nzt>::new(s.parse().unwrap()).unwrap()).collect(); true } )*
                    _ => false,
                }
            }
        }
    };
}
data_table! {
    u8: u8, u16: u16, u32: u32, u64: u64, u128: u128, usize: usize,
    i8: i8, i16: i16, i32: i32, i64: i64, i128: i128, isize: isize ;
    nz_u8: NonZeroU8, nz_u16: NonZeroU16, nz_u32: NonZeroU32, nz_u64: NonZeroU64, nz_u128: NonZeroU128, nz_usize: NonZeroUsize,
    nz_i8: NonZeroI8, nz_i16: NonZeroI16, nz_i32: NonZeroI32, nz_i64: NonZeroI64, nz_i128: NonZeroI128, nz_isize: NonZeroIsize
}

impl D {
    pub fn f32(&self, j: usize) -> f32 {
        self.f32v[(self.r + j) % self.f32v.len()]
    }
    pub fn f64(&self, j: usize) -> f64 {
        self.f64v[(self.r + j) % self.f64v.len()]
    }
    /// `Option<T>` is not a `Value` in this version of tracing-core: usable through `?` only.
    pub fn opt_u8(&self, j: usize) -> Option<u8> {
        let v = self.u8(j);
        if v % 2 == 0 {
            Some(v)
        } else {
            None
        }
    }
    pub fn bool(&self, j: usize) -> bool {
        self.boolv[(self.r + j) % self.boolv.len()]
    }
    pub fn str(&self, j: usize) -> &str {
        &self.strv[(self.r + j) % self.strv.len()]
    }
    pub fn bytes(&self, j: usize) -> &[u8] {
        &self.bytesv[(self.r + j) % self.bytesv.len()]
    }
    pub fn err(&self, j: usize) -> &(dyn Error + 'static) {
        &*self.errv[(self.r + j) % self.errv.len()]
    }
    pub fn err_send(&self, j: usize) -> &(dyn Error + Send + 'static) {
        &*self.errv[(self.r + j) % self.errv.len()]
    }
    pub fn err_sync(&self, j: usize) -> &(dyn Error + Sync + 'static) {
        &*self.errv[(self.r + j) % self.errv.len()]
    }
    pub fn err_send_sync(&self, j: usize) -> &(dyn Error + Send + Sync + 'static) {
        &*self.errv[(self.r + j) % self.errv.len()]
    }
    pub fn box_err(&self, j: usize) -> Box<dyn Error + Send + Sync + 'static> {
        Box::new(clone_err(&self.errv[(self.r + j) % self.errv.len()]))
    }

    /// Data file: one line per domain: `<domain> <v0> <v1> ...`; integers in decimal, floats as hex bit
    /// patterns, strings / byte strings as hex (`-` = empty), error chains as `hex|hex|...`.
    pub fn load(text: &str) -> D {
        let mut d = D::empty();
        for line in text.lines() {
            let mut it = line.split_whitespace();
            let key = match it.next() {
                Some(k) => k,
                None => continue,
            };
            let vals: Vec<&str> = it.collect();
            let unh = |s: &str| if s == "-" { Vec::new() } else { unhex(s) };
            match key {
                "f32" => d.f32v = vals.iter().map(|s| f32::from_bits(u32::from_str_radix(s, 16).unwrap())).collect(),
                "f64" => d.f64v = vals.iter().map(|s| f64::from_bits(u64::from_str_radix(s, 16).unwrap())).collect(),
                "bool" => d.boolv = vals.iter().map(|s| *s == "1").collect(),
                "str" => d.strv = vals.iter().map(|s| String::from_utf8(unh(s)).unwrap()).collect(),
                "bytes" => d.bytesv = vals.iter().map(|s| unh(s)).collect(),
                "err" => {
                    d.errv = vals
                        .iter()
                        .map(|s| {
                            let mut cur: Option<Box<ChainErr>> = None;
                            for part in s.split('|').rev() {
                                cur = Some(Box::new(ChainErr { msg: String::from_utf8(unh(part)).unwrap(), src: cur }));
                            }
                            cur.unwrap()
                        })
                        .collect()
                }
                k => {
                    if !d.load_int(k, &vals) {
                        panic!("unknown data domain {}", k);
                    }
                }
            }
        }
        d
    }

    /// Reference texts computed by std's formatting directly (never through tracing): what `{}` / `{:?}`
    /// print for the strings and floats of the table.  The oracle compares sigil fields with these.
    pub fn print_refs(&self) {
        let l = |name: &str, v: Vec<String>| {
            println!("{{\"ref\":\"{}\",\"v\":[{}]}}", name, v.iter().map(|s| format!("\"{}\"", hex(s.as_bytes()))).collect::<Vec<_>>().join(","));
        };
        l("str_dbg", self.strv.iter().map(|s| format!("{:?}", s)).collect());
        l("f32_disp", self.f32v.iter().map(|s| format!("{}", s)).collect());
        l("f32_dbg", self.f32v.iter().map(|s| format!("{:?}", s)).collect());
        l("f64_disp", self.f64v.iter().map(|s| format!("{}", s)).collect());
        l("f64_dbg", self.f64v.iter().map(|s| format!("{:?}", s)).collect());
    }
}

// ------------------------------------------------------------------------------------------------
// the typed recording visitor

pub struct RecVisitor {
    pub out: Vec<String>,
}
impl RecVisitor {
    fn push(&mut self, f: &Field, m: &str, text: String) {
        self.out.push(format!("[\"{}\",{},\"{}\",\"{}\"]", hex(f.name().as_bytes()), f.index(), m, text));
    }
}
impl Visit for RecVisitor {
    fn record_f64(&mut self, f: &Field, v: f64) {
        self.push(f, "f64", format!("{:016x}", v.to_bits()));
    }
    fn record_i64(&mut self, f: &Field, v: i64) {
        self.push(f, "i64", v.to_string());
    }
    fn record_u64(&mut self, f: &Field, v: u64) {
        self.push(f, "u64", v.to_string());
    }
    fn record_i128(&mut self, f: &Field, v: i128) {
        self.push(f, "i128", v.to_string());
    }
    fn record_u128(&mut self, f: &Field, v: u128) {
        self.push(f, "u128", v.to_string());
    }
    fn record_bool(&mut self, f: &Field, v: bool) {
        self.push(f, "bool", v.to_string());
    }
    fn record_str(&mut self, f: &Field, v: &str) {
        self.push(f, "str", hex(v.as_bytes()));
    }
    fn record_bytes(&mut self, f: &Field, v: &[u8]) {
        self.push(f, "bytes", hex(v));
    }
    fn record_error(&mut self, f: &Field, v: &(dyn Error + 'static)) {
        let mut parts = vec![hex(v.to_string().as_bytes())];
        let mut cur = v.source();
        while let Some(e) = cur {
            parts.push(hex(e.to_string().as_bytes()));
            cur = e.source();
        }
        self.push(f, "error", parts.join("|"));
    }
    fn record_debug(&mut self, f: &Field, v: &dyn fmt::Debug) {
        self.push(f, "debug", hex(format!("{:?}", v).as_bytes()));
    }
}

// ------------------------------------------------------------------------------------------------
// the collector

#[derive(Clone, Copy, PartialEq, Debug)]
pub enum Mode {
    /// register_callsite = always, enabled = true
    Always,
    /// register_callsite = sometimes, enabled = true
    Sometimes,
    /// register_callsite = never  (static disable)
    Never,
    /// register_callsite = sometimes, enabled = false  (dynamic disable)
    Dyn,
    /// register_callsite = always, enabled = true, max_level_hint = the given cap (0 = OFF .. 5 = TRACE)
    Cap(u8),
    /// register_callsite = sometimes, enabled = true, max_level_hint = cap
    CapSometimes(u8),
}

pub struct TestCollector {
    pub mode: Mode,
}

fn level_num(l: &tracing_core::Level) -> u8 {
    // position in the public constant list, found with derived-PartialEq `==` only
    let all = [tracing_core::Level::ERROR, tracing_core::Level::WARN, tracing_core::Level::INFO, tracing_core::Level::DEBUG, tracing_core::Level::TRACE];
    all.iter().position(|x| x == l).unwrap() as u8 + 1
}

fn meta_json(m: &Metadata<'_>) -> String {
    let fields: Vec<String> = m.fields().iter().map(|f| format!("\"{}\"", hex(f.name().as_bytes()))).collect();
    format!(
        "\"name\":\"{}\",\"target\":\"{}\",\"level\":{},\"kind\":\"{}{}{}\",\"fields\":[{}]",
        hex(m.name().as_bytes()),
        hex(m.target().as_bytes()),
        level_num(m.level()),
        if m.is_event() { "E" } else { "" },
        if m.is_span() { "S" } else { "" },
        if format!("{:?}", m).contains("HINT") { "H" } else { "" },
        fields.join(",")
    )
}

impl Collect for TestCollector {
    fn register_callsite(&self, _m: &'static Metadata<'static>) -> Interest {
        match self.mode {
            Mode::Always | Mode::Cap(_) => Interest::always(),
            Mode::Sometimes | Mode::Dyn | Mode::CapSometimes(_) => Interest::sometimes(),
            Mode::Never => Interest::never(),
        }
    }
    fn enabled(&self, m: &Metadata<'_>) -> bool {
        ENABLED_CALLS.with(|c| c.borrow_mut().push(format!("{{{}}}", meta_json(m))));
        !matches!(self.mode, Mode::Dyn)
    }
    fn max_level_hint(&self) -> Option<LevelFilter> {
        let f = |c: u8| match c {
            0 => LevelFilter::OFF,
            1 => LevelFilter::ERROR,
            2 => LevelFilter::WARN,
            3 => LevelFilter::INFO,
            4 => LevelFilter::DEBUG,
            _ => LevelFilter::TRACE,
        };
        match self.mode {
            Mode::Cap(c) | Mode::CapSometimes(c) => Some(f(c)),
            _ => None,
        }
    }
    fn new_span(&self, a: &span::Attributes<'_>) -> span::Id {
        let id = NEXT_ID.with(|c| {
            let mut c = c.borrow_mut();
            *c += 1;
            *c
        });
        let mut v = RecVisitor { out: Vec::new() };
        a.record(&mut v);
        let parent = if a.is_root() {
            "root".to_string()
        } else if a.is_contextual() {
            "current".to_string()
        } else {
            format!("explicit:{}", a.parent().map(|p| p.into_u64()).unwrap_or(0))
        };
        DELIV.with(|c| {
            c.borrow_mut().push(format!(
                "{{\"cb\":\"new_span\",\"id\":{},{},\"parent\":\"{}\",\"v\":[{}]}}",
                id,
                meta_json(a.metadata()),
                parent,
                v.out.join(",")
            ))
        });
        span::Id::from_u64(id)
    }
    fn record(&self, id: &span::Id, r: &span::Record<'_>) {
        let mut v = RecVisitor { out: Vec::new() };
        r.record(&mut v);
        DELIV.with(|c| c.borrow_mut().push(format!("{{\"cb\":\"record\",\"id\":{},\"v\":[{}]}}", id.into_u64(), v.out.join(","))));
    }
    fn record_follows_from(&self, _: &span::Id, _: &span::Id) {}
    fn event(&self, e: &Event<'_>) {
        let mut v = RecVisitor { out: Vec::new() };
        e.record(&mut v);
        let parent = if e.is_root() {
            "root".to_string()
        } else if e.is_contextual() {
            "current".to_string()
        } else {
            format!("explicit:{}", e.parent().map(|p| p.into_u64()).unwrap_or(0))
        };
        DELIV.with(|c| {
            c.borrow_mut().push(format!(
                "{{\"cb\":\"event\",{},\"parent\":\"{}\",\"v\":[{}]}}",
                meta_json(e.metadata()),
                parent,
                v.out.join(",")
            ))
        });
    }
    fn enter(&self, _: &span::Id) {}
    fn exit(&self, _: &span::Id) {}
    fn current_span(&self) -> span::Current {
        span::Current::unknown()
    }
}

/// The `log` side (package feature `with_log` = tracing's `log` feature + a logger): the logger counts and formats what
/// it is given; whether it wants records, and `log::max_level()`, are set per phase.
#[cfg(feature = "with_log")]
pub mod logside {
    use std::sync::atomic::{AtomicBool, AtomicUsize, Ordering};
    pub static WANTS: AtomicBool = AtomicBool::new(true);
    pub static LOGGED: AtomicUsize = AtomicUsize::new(0);
    struct L;
    impl log::Log for L {
        fn enabled(&self, _: &log::Metadata<'_>) -> bool {
            WANTS.load(Ordering::Relaxed)
        }
        fn log(&self, r: &log::Record<'_>) {
            // format the record: runs the Display/Debug impls of the fields, as a real logger would
            let _ = format!("{}", r.args());
            LOGGED.fetch_add(1, Ordering::Relaxed);
        }
        fn flush(&self) {}
    }
    static THE_LOGGER: L = L;
    pub fn install() {
        log::set_logger(&THE_LOGGER).expect("logger");
        log::set_max_level(log::LevelFilter::Trace);
    }
    /// `ndon` / `ndoff` / `ndmax<N>`: no dispatcher; logger wants everything / nothing / wants, with max_level N
    pub fn configure(mode: &str) {
        let (wants, max) = match mode {
            "ndon" => (true, 5),
            "ndoff" => (false, 5),
            m => (true, m.strip_prefix("ndmax").expect("nd mode").parse::<u8>().unwrap()),
        };
        WANTS.store(wants, Ordering::Relaxed);
        log::set_max_level(match max {
            0 => log::LevelFilter::Off,
            1 => log::LevelFilter::Error,
            2 => log::LevelFilter::Warn,
            3 => log::LevelFilter::Info,
            4 => log::LevelFilter::Debug,
            _ => log::LevelFilter::Trace,
        });
    }
}

pub fn parse_mode(s: &str) -> Mode {
    match s {
        "always" => Mode::Always,
        "sometimes" => Mode::Sometimes,
        "never" => Mode::Never,
        "dyn" => Mode::Dyn,
        _ => {
            if let Some(n) = s.strip_prefix("caps") {
                Mode::CapSometimes(n.parse().unwrap())
            } else if let Some(n) = s.strip_prefix("cap") {
                Mode::Cap(n.parse().unwrap())
            } else {
                panic!("unknown mode {}", s)
            }
        }
    }
}

pub type Inv = fn(&D) -> i32;

/// Run phases `mode:rounds[:first_round]`, each under a fresh collector (the previous one is dropped first, so callsite
/// interest and the global max level are rebuilt from this collector alone).
pub fn run_all(invs: &[(u32, Inv)], data_path: &str, phases: &[String], only: Option<u32>) {
    let text = std::fs::read_to_string(data_path).expect("data file");
    let mut d = D::load(&text);
    d.print_refs();
    // the compile-time level cap of this build (cargo feature `max_level_*` of `tracing`), as the crate reports it
    {
        use tracing::level_filters::{LevelFilter as LF, STATIC_MAX_LEVEL as S};
        let all = [LF::OFF, LF::ERROR, LF::WARN, LF::INFO, LF::DEBUG, LF::TRACE];
        println!("{{\"static_max\":{}}}", all.iter().position(|x| *x == S).unwrap());
    }
    std::panic::set_hook(Box::new(|_| {}));
    println!("{{\"log_feature\":{}}}", cfg!(feature = "with_log"));
    #[cfg(feature = "with_log")]
    logside::install();
    for (pi, ph) in phases.iter().enumerate() {
        let mut parts = ph.split(':');
        let mode_full = parts.next().unwrap();
        // `<mode>+p`: before every round a value whose Display/Debug panics is recorded (panic caught), then the round
        let probe = mode_full.ends_with("+p");
        let mode_s = mode_full.trim_end_matches("+p");
        let rounds: usize = parts.next().map(|s| s.parse().unwrap()).unwrap_or(1);
        let first: usize = parts.next().map(|s| s.parse().unwrap()).unwrap_or(0);
        // `nd*` phases: NO dispatcher at all (and none may have been set before: `dispatch::has_been_set()` is a
        // process-lifetime flag).  Only meaningful in the `with_log` build.
        let no_dispatch = mode_s.starts_with("nd");
        if no_dispatch {
            assert!(!tracing::dispatch::has_been_set(), "nd phases must come first");
            #[cfg(feature = "with_log")]
            logside::configure(mode_s);
        } else {
            #[cfg(feature = "with_log")]
            logside::configure("ndon");
        }
        let mode = if no_dispatch { Mode::Never } else { parse_mode(mode_s) };
        let dispatch = tracing::Dispatch::new(TestCollector { mode });
        let mut body = || {
            d.parent = tracing::span!(tracing::Level::ERROR, "the_parent", pf = 1u8);
            let pid = d.parent.id().map(|i| i.into_u64()).unwrap_or(0);
            println!(
                "{{\"phase\":{},\"mode\":\"{}\",\"parent_id\":{},\"has_been_set\":{},\"panic_probe\":{}}}",
                pi,
                mode_s,
                pid,
                tracing::dispatch::has_been_set(),
                probe
            );
            for r in first..first + rounds {
                d.r = r;
                if probe {
                    reset();
                    let caught = panic_probe(r);
                    println!("{{\"probe\":{},\"r\":{},\"ph\":{},\"caught\":{}}}", r % 3, r, pi, caught);
                }
                for (id, f) in invs {
                    if let Some(o) = only {
                        if o != *id {
                            continue;
                        }
                    }
                    reset();
                    let res = std::panic::catch_unwind(std::panic::AssertUnwindSafe(|| f(&d)));
                    let ticks: Vec<String> = TICKS.with(|c| {
                        let c = c.borrow();
                        let n = c.iter().rposition(|x| *x != 0).map(|p| p + 1).unwrap_or(0);
                        c[..n].iter().map(|x| x.to_string()).collect()
                    });
                    let deliv = DELIV.with(|c| c.borrow().join(","));
                    let en = ENABLED_CALLS.with(|c| c.borrow().join(","));
                    println!(
                        "{{\"i\":{},\"r\":{},\"ph\":{},\"t\":[{}],\"d\":[{}],\"en\":[{}],\"ret\":{}}}",
                        id,
                        r,
                        pi,
                        ticks.join(","),
                        deliv,
                        en,
                        match res {
                            Ok(x) => x.to_string(),
                            Err(_) => "\"panic\"".to_string(),
                        }
                    );
                }
            }
            d.parent = tracing::Span::none();
        };
        if no_dispatch {
            body();
        } else {
            tracing::dispatch::with_default(&dispatch, body);
        }
        drop(dispatch);
    }
}

/// `h_fields <data-file> [--only ID] <mode:rounds[:first]>...`
pub fn cli_main(invs: &[(u32, Inv)]) {
    let mut args: Vec<String> = std::env::args().skip(1).collect();
    if args.is_empty() {
        eprintln!("usage: h_fields <data-file> [--only ID] <mode:rounds[:first]>...");
        std::process::exit(2);
    }
    let data = args.remove(0);
    let mut only = None;
    if args.first().map(|s| s == "--only").unwrap_or(false) {
        args.remove(0);
        only = Some(args.remove(0).parse().unwrap());
    }
    run_all(invs, &data, &args, only);
}
