//! C10 harness: runs every generated macro-invocation template (src/gen/, written by
//! driver/props/c10_corpus.py) against the real `tracing` macros under a sequence of collectors.
//!
//!   h_fields <data-file> [--only ID] <mode:rounds[:first]>...
//!
//! modes: always | sometimes | never | dyn | cap<N> | caps<N>   (see support.rs `Mode`).
//! Output: one JSON object per line (reference tables, the build's static max level, phase headers, one record per
//! template x round).
#[path = "../support.rs"]
mod support;
#[path = "../gen/mod.rs"]
mod gen;

fn main() {
    support::cli_main(&gen::all());
}
