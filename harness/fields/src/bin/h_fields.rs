//! C10 harness: runs every generated macro-invocation template (src/gen/, written by
//! driver/props/c10_corpus.py) against the real `tracing` macros under a sequence of collectors.
//!
//!   h_fields <data-file> [--only ID] <mode:rounds[:first]>...
//!
//! modes: always | sometimes | never | dyn | cap<N> | caps<N>   (see support.rs `Mode`).
//! Output: one JSON object per line (reference tables, phase headers, one record per template x round).
#[path = "../support.rs"]
mod support;
#[path = "../gen/mod.rs"]
mod gen;

fn main() {
    let mut args: Vec<String> = std::env::args().skip(1).collect();
    if args.is_empty() {
        eprintln!("usage: h_fields <data-file> [--only ID] <mode:rounds[:first]>...");
        std::process::exit(2);
    }
    let data = args.remove(0);
    let mut only = None;
    if args.first().map(|s| s == "--only").unwrap_or(false) {
        args.remove(0);
        only = Some(args.remove(0).parse().unwrap());
    }
    let invs = gen::all();
    support::run_all(&invs, &data, &args, only);
}
