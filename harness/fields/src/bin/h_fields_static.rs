//! C10 harness, the same corpus compiled with `tracing`'s cargo feature `max_level_info` (package feature
//! `static_info`): the *static* filtering stage.  Every DEBUG / TRACE invocation must compile to nothing observable.
#[path = "../support.rs"]
mod support;
#[path = "../gen/mod.rs"]
mod gen;

fn main() {
    support::cli_main(&gen::all());
}
