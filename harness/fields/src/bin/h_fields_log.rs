//! C10 harness, the same corpus compiled with `tracing`'s cargo feature `log` (package feature `with_log`) and a
//! `log` logger installed.  `nd*` phases run the corpus with NO dispatcher ever set: the disabled branch of every macro
//! then hands its fields to the `log` crate (documented behaviour); afterwards the ordinary collector phases.
#[path = "../support.rs"]
mod support;
#[path = "../gen/mod.rs"]
mod gen;

fn main() {
    support::cli_main(&gen::all());
}
