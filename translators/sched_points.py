#!/usr/bin/env python3
"""translators/sched_points.py — read the H3 yield points (`__verif::yield_point(N)`) off the Rust sources that C04 / C12
model at micro-step granularity: which function hosts which ids, in textual order.  Output: coq/gen/Gen_sched_points.v
(`gen_yield_sites`, `gen_yield_ids`).  Dispatch/Sched_Points.v proves that the ids are exactly the yield points of the model's
program points and that every function hosts the ids the model's step order expects."""
import os, re, sys

FILES = ["tracing-core/src/callsite.rs", "tracing-core/src/metadata.rs", "tracing-core/src/dispatch.rs",
         "tracing/src/lib.rs", "tracing-subscriber/src/reload.rs"]
FN = re.compile(r"^\s*(?:pub(?:\([a-z]+\))?\s+)?(?:const\s+)?(?:unsafe\s+)?fn\s+(\w+)")
YP = re.compile(r"__verif::yield_point\((\d+)\)")


def main(repo, _unused=None):
    sites, unrec = [], []
    for rel in FILES:
        p = os.path.join(repo, rel)
        try:
            lines = open(p, encoding="utf-8").read().split("\n")
        except OSError as e:
            unrec.append("%s: %s" % (rel, e))
            continue
        cur, per = None, {}
        order = []
        for ln in lines:
            m = FN.match(ln)
            if m:
                cur = m.group(1)
            for y in YP.findall(ln):
                if cur is None:
                    unrec.append("%s: yield_point(%s) outside a function" % (rel, y))
                    continue
                if cur not in per:
                    per[cur] = []
                    order.append(cur)
                per[cur].append(int(y))
        # the same function name may occur in several impl blocks (reload.rs): ids are merged under the name
        for fn in order:
            sites.append((rel, fn, per[fn]))
    # the shape of LinkedList::push: where the `next` link and the duplicate assertion sit relative to the CAS retry loop
    shape = []
    try:
        src = open(os.path.join(repo, "tracing-core/src/callsite.rs"), encoding="utf-8").read()
        m = re.search(r"fn push\(&self, registration: &'static Registration\) \{(.*?)\n    \}\n", src, re.S)
        if m:
            body = m.group(1)
            marks = [("load-head", r"self\.head\.load\("), ("loop", r"\bloop \{"), ("store-next", r"registration\.next\.store\("),
                     ("assert-ne", r"assert_ne!\("), ("yield-44", r"yield_point\(44\)"), ("cas-head", r"self\.head\.compare_exchange\("),
                     ("reload-on-failure", r"Err\(\w+\) => \w+ = \w+")]
            found = []
            for name, rx in marks:
                for mm in re.finditer(rx, body):
                    found.append((mm.start(), name))
            shape = [n for _, n in sorted(found)]
        else:
            unrec.append("callsite.rs: LinkedList::push not recognised")
    except OSError as e:
        unrec.append("callsite.rs: %s" % e)
    # the KIND of access each entry point of the std registry takes on the dispatcher list's RwLock
    lock_kinds = []
    try:
        cur = None
        for ln in open(os.path.join(repo, "tracing-core/src/callsite.rs"), encoding="utf-8").read().split("\n"):
            m = FN.match(ln)
            if m:
                cur = m.group(1)
            for k in re.findall(r"REGISTRY\s*\.\s*dispatchers\s*\.\s*(read|write|try_read|try_write)\(\)", ln):
                if cur != "__verif_lock_state":
                    lock_kinds.append((cur or "?", k))
    except OSError as e:
        unrec.append("callsite.rs: %s" % e)
    # where the global max level is published, and how long the guards on the dispatcher list live: the functions of callsite.rs that
    # call LevelFilter::set_max, and for each guard binding its block depth inside the function (1 = the guard lives to the end of the
    # function body, so everything the function does -- including rebuild_interest's set_max -- happens under the lock)
    set_max_fns, guard_depth = [], []
    try:
        cur, depth = None, 0
        src_std = open(os.path.join(repo, "tracing-core/src/callsite.rs"), encoding="utf-8").read()
        # the std registry only (the no-std `mod inner` further down has no lock)
        a = src_std.find('#[cfg(feature = "std")]\nmod inner')
        b = src_std.find('#[cfg(not(feature = "std"))]\nmod inner')
        if a < 0 or b < a:
            unrec.append("callsite.rs: std `mod inner` not found")
            a, b = 0, len(src_std)
        for ln in src_std[a:b].split("\n"):
            code = ln.split("//")[0]
            m = FN.match(ln)
            if m:
                cur, depth = m.group(1), 0
            if cur is not None:
                if re.search(r"\bset_max\(", code) and cur not in set_max_fns:
                    set_max_fns.append(cur)
                g = re.search(r"let\s+(?:mut\s+)?\w+\s*=\s*REGISTRY\s*\.\s*dispatchers\s*\.\s*(?:read|write)\(\)", code)
                if g:
                    guard_depth.append((cur, depth))
                elif re.search(r"REGISTRY\s*\.\s*dispatchers\s*\.\s*(?:read|write)\(\)", code) and cur != "__verif_lock_state":
                    guard_depth.append((cur, 0))       # a temporary: dropped at the end of the statement
                depth += code.count("{") - code.count("}")
    except OSError as e:
        unrec.append("callsite.rs: %s" % e)
    # how each function of reload.rs gets at the reloadable value: blocking read / write, or a non-blocking try_*
    reload_locks = []
    try:
        cur = None
        for ln in open(os.path.join(repo, "tracing-subscriber/src/reload.rs"), encoding="utf-8").read().split("\n"):
            if ln.lstrip().startswith("//"):
                continue
            m = FN.match(ln)
            if m:
                cur = m.group(1)
            for mm in re.finditer(r"(try_read!\(|try_write!\(|\.\s*try_read\(\)|\.\s*try_write\(\)|inner\s*\.\s*read\(\)|inner\s*\.\s*write\(\))", ln):
                k = mm.group(1)
                kind = "try_read" if "try_read" in k else "try_write" if "try_write" in k else "read" if "read" in k else "write"
                if cur is not None:
                    reload_locks.append((cur, kind))
    except OSError as e:
        unrec.append("reload.rs: %s" % e)
    ids = sorted({y for _, _, ys in sites for y in ys})
    out = ["(** GENERATED by translators/sched_points.py from the Rust sources — do not edit. *)",
           "From Coq Require Import List String.", "Import ListNotations.", "Local Open Scope string_scope.", "",
           "Definition gen_yield_sites : list (string * string * list nat) :=", "  ["]
    out.append(";\n".join('   ("%s", "%s", [%s])' % (f, fn, "; ".join(str(y) for y in ys)) for f, fn, ys in sites))
    out += ["  ].", "", "Definition gen_yield_ids : list nat := [%s]." % "; ".join(str(y) for y in ids), "",
            "Definition gen_push_shape : list string := [%s]." % "; ".join('"%s"' % n for n in shape), "",
            "Definition gen_lock_kinds : list (string * string) := [%s]." % "; ".join('("%s", "%s")' % x for x in lock_kinds), "",
            "Definition gen_reload_locks : list (string * string) := [%s]." % "; ".join('("%s", "%s")' % x for x in reload_locks), "",
            "Definition gen_set_max_fns : list string := [%s]." % "; ".join('"%s"' % x for x in set_max_fns), "",
            "Definition gen_guard_depth : list (string * nat) := [%s]." % "; ".join('("%s", %d)' % x for x in guard_depth), ""]
    return "\n".join(out), unrec


if __name__ == "__main__":
    text, unrec = main(sys.argv[1] if len(sys.argv) > 1 else "/repo")
    sys.stdout.write(text)
    if unrec:
        sys.stderr.write("unrecognised: %s\n" % unrec)
