"""C05 / C06 translator: reads the reference-count / span-stack / close protocol out of the Rust source and emits
coq/gen/Gen_registry.v:

    fetch_sub_by close_threshold fetch_add_by closed_mark init_refs guard_dec guard_clear_at start_inc : N
    clear_resets_close_count : bool      which of the two recognised variants of Clear for DataInner is in the tree (F51)
    shapes : list (string * bool)        one entry per function whose body must have exactly the mirrored shape
    gen_unrecognised : list string

Registry/Model.v hard-wires the protocol; `Registry.C05Proofs.model_mirrors_source` (re-exported as
`C05_model_mirrors_source`) states that the constants read here are the ones the model uses (refs > 1 => not last;
CloseGuard clears when the count it saw is 1; new spans start at 1; ...) and that every shape was recognised.  Every
function is compared, after comment / whitespace normalisation and with the add-only verification yield hooks removed
(rsparse.strip_comments), against the shape the model mirrors, with the numeric constants captured; anything else is
listed in `gen_unrecognised` and the shape's flag is false (fails closed: a harmless refactor of one of these bodies
also trips it — the correspondence then says whether behaviour changed)."""
import os
import re
import sys

sys.path.insert(0, os.path.dirname(os.path.abspath(__file__)))
from rsparse import strip_comments, find_blocks, fns_in, norm, coq_str  # noqa: E402

SH = "tracing-subscriber/src/registry/sharded.rs"
ST = "tracing-subscriber/src/registry/stack.rs"
MO = "tracing-subscriber/src/registry/mod.rs"
LA = "tracing-subscriber/src/subscribe/layered.rs"
CX = "tracing-subscriber/src/subscribe/context.rs"


def esc(s):
    """regex for a normalised body: literal text, `@N@` = a captured decimal constant"""
    out = []
    for part in re.split(r"(@N@)", s):
        out.append(r"(\d+)" if part == "@N@" else re.escape(part))
    return "^" + "".join(out) + "$"


# (key, file, impl header regex, fn name, shape with @N@ captures, names of the captured constants)
SHAPES = [
    ("try_close", SH, r"impl Collect for Registry\s*\{", "try_close",
     'let span = match self.get(&id) { Some(span) => span, None if std::thread::panicking() => return false, '
     'None => panic!("tried to drop a ref to {:?}, but no such span exists!", id), }; '
     'let refs = span.ref_count.fetch_sub(@N@, Ordering::Release); '
     'if !std::thread::panicking() { assert!(refs < usize::MAX, "reference count overflow!"); } '
     'if refs > @N@ { return false; } fence(Ordering::Acquire); true',
     ["fetch_sub_by", "close_threshold"]),
    ("clone_span", SH, r"impl Collect for Registry\s*\{", "clone_span",
     'let span = self .get(id) .unwrap_or_else(|| panic!("tried to clone {:?}, but no span exists with that ID", id)); '
     'let refs = span.ref_count.fetch_add(@N@, Ordering::Relaxed); '
     'assert_ne!( refs, @N@, "tried to clone a span ({:?}) that already closed", id ); id.clone()',
     ["fetch_add_by", "closed_mark"]),
    ("new_span", SH, r"impl Collect for Registry\s*\{", "new_span",
     'let parent = if attrs.is_root() { None } else if attrs.is_contextual() { self.current_span().id().map(|id| self.clone_span(id)) } '
     'else { attrs.parent().map(|id| self.clone_span(id)) }; '
     'let id = self .spans .create_with(|data| { data.metadata = attrs.metadata(); data.parent = parent; '
     'data.filter_map = crate::filter::FILTERING.with(|filtering| filtering.filter_map()); '
     '#[cfg(debug_assertions)] { if data.filter_map != FilterMap::new() { debug_assert!(self.has_per_subscriber_filters()); } } '
     'let refs = data.ref_count.get_mut(); debug_assert_eq!(*refs, 0); *refs = @N@; }) '
     '.expect("Unable to allocate another span"); idx_to_id(id)',
     ["init_refs"]),
    ("enter", SH, r"impl Collect for Registry\s*\{", "enter",
     'if self .current_spans .get_or_default() .borrow_mut() .push(id.clone()) { self.clone_span(id); }', []),
    ("exit", SH, r"impl Collect for Registry\s*\{", "exit",
     'if let Some(spans) = self.current_spans.get() { if spans.borrow_mut().pop(id) { '
     'dispatch::get_default(|dispatch| dispatch.try_close(id.clone())); } }', []),
    ("current_span", SH, r"impl Collect for Registry\s*\{", "current_span",
     'self.current_spans .get() .and_then(|spans| { let spans = spans.borrow(); let id = spans.current()?; '
     'let span = self.get(id)?; Some(Current::new(id.clone(), span.metadata)) }) .unwrap_or_else(Current::none)', []),
    ("start_close", SH, r"impl Registry\s*\{", "start_close",
     'CLOSE_COUNT.with(|count| { let c = count.get(); count.set(c + @N@); }); '
     'CloseGuard { id, registry: self, is_closing: false, }', ["start_inc"]),
    ("close_guard_drop", SH, r"impl Drop for CloseGuard<'_>\s*\{", "drop",
     'let _ = CLOSE_COUNT.try_with(|count| { let c = count.get(); count.set(c - @N@); '
     'if c == @N@ && self.is_closing { self.registry.spans.clear(id_to_idx(&self.id)); } });',
     ["guard_dec", "guard_clear_at"]),
    # two recognised variants: as found (F51 present) / with fixes/F51.patch (CLOSE_COUNT reset around the cascade);
    # which one it is becomes Gen_registry.clear_resets_close_count (the op-level model is the same for both: at op
    # granularity the count is 0 when a slot is cleared; Registry/MicroReal.v takes the flag as its `fixed` parameter)
    ("clear", SH, r"impl Clear for DataInner\s*\{", "clear",
     ['if self.parent.is_some() { let subscriber = dispatch::get_default(Dispatch::clone); '
      'if let Some(parent) = self.parent.take() { let _ = subscriber.try_close(parent); } } '
      'self.extensions .get_mut() .unwrap_or_else(|l| { l.into_inner() }) .clear(); self.filter_map = FilterMap::new();',
      'if self.parent.is_some() { let subscriber = dispatch::get_default(Dispatch::clone); '
      'if let Some(parent) = self.parent.take() { let outer = CLOSE_COUNT.try_with(|count| count.replace(0)); '
      'let _ = subscriber.try_close(parent); if let Ok(outer) = outer { let _ = CLOSE_COUNT.try_with(|count| count.set(outer)); } } } '
      'self.extensions .get_mut() .unwrap_or_else(|l| { l.into_inner() }) .clear(); self.filter_map = FilterMap::new();'], []),
    ("stack_push", ST, r"impl SpanStack\s*\{", "push",
     'let duplicate = self.stack.iter().any(|i| i.id == id); self.stack.push(ContextId { id, duplicate }); !duplicate', []),
    ("stack_pop", ST, r"impl SpanStack\s*\{", "pop",
     'if let Some((idx, _)) = self .stack .iter() .enumerate() .rev() .find(|(_, ctx_id)| ctx_id.id == *expected_id) { '
     'let ContextId { id: _, duplicate } = self.stack.remove(idx); return !duplicate; } false', []),
    ("stack_iter", ST, r"impl SpanStack\s*\{", "iter",
     'self.stack .iter() .rev() .filter_map(|ContextId { id, duplicate }| if !*duplicate { Some(id) } else { None })', []),
    ("stack_current", ST, r"impl SpanStack\s*\{", "current", 'self.iter().next()', []),
    ("layered_try_close", LA, r"impl<S, C> Collect for Layered<S, C>[^{]*\{", "try_close",
     '#[cfg(all(feature = "registry", feature = "std"))] let subscriber = &self.inner as &dyn Collect; '
     '#[cfg(all(feature = "registry", feature = "std"))] let mut guard = subscriber .downcast_ref::<Registry>() '
     '.map(|registry| registry.start_close(id.clone())); if self.inner.try_close(id.clone()) { '
     '#[cfg(all(feature = "registry", feature = "std"))] { if let Some(g) = guard.as_mut() { g.set_closing() }; } '
     'self.subscriber.on_close(id, self.ctx()); true } else { false }', []),
    ("scope_next", MO, r"impl<'a, R> Iterator for Scope<'a, R>[^{]*\{", "next",
     'loop { let curr = self.registry.span(self.next.as_ref()?)?; #[cfg(all(feature = "registry", feature = "std"))] '
     'let curr = curr.with_filter(self.filter); self.next = curr.data.parent().cloned(); '
     '#[cfg(all(feature = "registry", feature = "std"))] { if !curr.is_enabled_for(self.filter) { continue; } } return Some(curr); }', []),
    ("from_root", MO, r"impl<'a, R> Scope<'a, R>[^{]*\{", "from_root",
     '#[cfg(feature = "smallvec")] type Buf<T> = smallvec::SmallVec<T>; #[cfg(not(feature = "smallvec"))] type Buf<T> = Vec<T>; '
     'ScopeFromRoot { spans: self.collect::<Buf<_>>().into_iter().rev(), }', []),
    ("spanref_scope", MO, r"impl<'a, R> SpanRef<'a, R>[^{]*\{", "scope",
     'Scope { registry: self.registry, next: Some(self.id()), #[cfg(feature = "registry")] filter: self.filter, }', []),
    ("event_span", CX, r"impl<'a, C> Context<'a, C>[^{]*\{", "event_span",
     'if event.is_root() { None } else if event.is_contextual() { self.lookup_current() } else { event.parent().and_then(|id| self.span(id)) }', []),
    ("event_scope", CX, r"impl<'a, C> Context<'a, C>[^{]*\{", "event_scope", 'Some(self.event_span(event)?.scope())', []),
    ("lookup_current_filtered", CX, r"impl<'a, C> Context<'a, C>[^{]*\{", "lookup_current_filtered",
     'let registry = (subscriber as &dyn Collect).downcast_ref::<Registry>()?; registry .span_stack() .iter() '
     '.find_map(|id| subscriber.span(id)?.try_with_filter(self.filter))', []),
    ("lookup_current", CX, r"impl<'a, C> Context<'a, C>[^{]*\{", "lookup_current",
     'let subscriber = *self.subscriber.as_ref()?; let current = subscriber.current_span(); let id = current.id()?; '
     'let span = subscriber.span(id); debug_assert!( span.is_some(), "the subscriber should have data for the current span ({:?})!", id, ); '
     '#[cfg(all(feature = "registry", feature = "std"))] { if let Some(span) = span?.try_with_filter(self.filter) { Some(span) } '
     'else { self.lookup_current_filtered(subscriber) } } #[cfg(not(feature = "registry"))] span', []),
]

CONSTS = ["fetch_sub_by", "close_threshold", "fetch_add_by", "closed_mark", "init_refs", "guard_dec", "guard_clear_at", "start_inc"]


def analyse(repo):
    unrec = []
    consts = {}
    flags = []
    cache = {}
    variant = {}
    for key, path, hdr, fn, shape, names in SHAPES:
        if path not in cache:
            try:
                cache[path] = strip_comments(open(os.path.join(repo, path)).read())
            except OSError:
                cache[path] = ""
        body = None
        for _, b, _, _ in find_blocks(cache[path], hdr):
            f = fns_in(b)
            if fn in f and f[fn][1] is not None:
                body = norm(f[fn][1])
                break
        ok = False
        if body is None:
            unrec.append("%s: fn %s not found in %s" % (key, fn, path))
        else:
            if key == "clear":
                # which variant of the cascade is in the tree is read independently of the rest of the body, so that an
                # unrelated edit of `clear` (unrecognised shape: fails closed below) does not also flip the schedule model
                variant["clear_resets"] = bool(re.search(r"let outer = CLOSE_COUNT\.try_with\(\|count\| count\.replace\(0\)\); let _ = subscriber\.try_close\(parent\);", body))
            alts = shape if isinstance(shape, list) else [shape]
            m = None
            for vi, alt in enumerate(alts):
                m = re.match(esc(alt), body)
                if m:
                    variant[key] = vi
                    break
            if not m:
                unrec.append("%s: body of %s::%s is not the mirrored shape" % (key, os.path.basename(path), fn))
            else:
                ok = True
                for n, v in zip(names, m.groups()):
                    consts[n] = int(v)
        flags.append((key, ok))
    for n in CONSTS:
        if n not in consts:
            consts[n] = 999999          # an unreadable constant can never equal the model's
    return consts, flags, unrec, variant


def main(repo, _unused=None):
    consts, flags, unrec, variant = analyse(repo)
    lines = ["(** GENERATED by translators/registry_shapes.py from sharded.rs / stack.rs / layered.rs / registry/mod.rs /",
             "    subscribe/context.rs — do not edit.  Checked by Registry.C05Proofs.model_mirrors_source. *)",
             "From Coq Require Import List String NArith.", "Import ListNotations.", "Local Open Scope string_scope.", ""]
    for n in CONSTS:
        lines.append("Definition %s : N := %d%%N." % (n, consts[n]))
    lines.append("(* Clear for DataInner resets CLOSE_COUNT around the cascade's try_close(parent) (fixes/F51.patch applied) *)")
    lines.append("Definition clear_resets_close_count : bool := %s." % ("true" if variant.get("clear_resets") else "false"))
    lines.append("")
    lines.append("Definition shapes : list (string * bool) :=\n  [%s]." % ";\n   ".join("(%s, %s)" % (coq_str(k), "true" if ok else "false") for k, ok in flags))
    lines.append("")
    lines.append("Definition gen_unrecognised : list string := [%s]." % "; ".join(coq_str(u) for u in unrec))
    return "\n".join(lines) + "\n", unrec


if __name__ == "__main__":
    text, unrec = main(sys.argv[1] if len(sys.argv) > 1 else "/repo")
    sys.stdout.write(text)
    if unrec:
        sys.stderr.write("unrecognised: %s\n" % unrec)
