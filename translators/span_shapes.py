"""C03 translator: reads the per-method *collector-call shapes* of the span handle API out of the Rust source and emits
coq/gen/Gen_span.v:

    src_shapes       : SpanApi.ShapeSyntax.table   one row (method, ordered list of shape events) per method
    gen_unrecognised : list string                 statements / items the translator could not read (fails closed)

Sources: tracing/src/span.rs (Span, Inner, Entered, EnteredSpan), tracing/src/instrument.rs and
tracing-futures/src/lib.rs (Instrumented, WithDispatch, Instrument, WithCollector; rows of the latter are prefixed
`futures::`), tracing/src/macros.rs (`span!`), tracing/src/lib.rs (`MacroCallsite::disabled_span`).

How a row is read (not a Rust parser; DESIGN 5.1): the source is stripped of comments and of the add-only verification
hooks (rsparse), `#[cfg(..)]` attributes are evaluated for the configuration the harness builds (features `std`,
`std-future` on; `log`, `futures-01`, `futures-03`, `docsrs`, `test` off) and disabled items are removed, the method's
body is split into statements, and every statement must match one of the statement forms below, which yields its shape
events in order:

    collector call on the handle's own Dispatch about its own id          SCall TOwn k
    collector call on the closure parameter of dispatch::get_default       SCall TDefault k
    if let Some(inner) = self.inner / if let Some(from) = from.into() ...  SIfInner / SIfFrom / SIfField / SIfDisabled / SIfCurrent
    a call of another method of the table                                  SInvoke m
    let _g = <span>.enter()   (named binding: lives to the end of the fn)  SGuard "Span::enter"
    let _ = <span>.enter() / bare `<span>.enter();`                        STemp "Span::enter"
    f() / inner.poll(cx) / ManuallyDrop::drop(inner)                       SBody
    struct literals, mem::replace(&mut self.span, Span::none()), ptr::read of the span field, ManuallyDrop::new(self) ...

Anything else becomes `SUnrecognised "<statement>"`, which no model row contains: the obligation C03_source_shapes
(Gen_span.src_shapes = SpanApi.Shapes.model_shapes) then fails.  Drop glue rows (`X::dropglue`) and `X::clone` rows of
derived Clone impls are read off the struct definitions (field types)."""
import os
import re
import sys

sys.path.insert(0, os.path.dirname(os.path.abspath(__file__)))
from rsparse import strip_comments, match_brace, find_blocks, fns_in, norm, coq_str  # noqa: E402

SPAN_RS = "tracing/src/span.rs"
INSTR_RS = "tracing/src/instrument.rs"
FUT_RS = "tracing-futures/src/lib.rs"
MACROS_RS = "tracing/src/macros.rs"
LIB_RS = "tracing/src/lib.rs"
DISPATCH_RS = "tracing-core/src/dispatch.rs"
COLLECT_RS = "tracing-core/src/collect.rs"

FEATURES_ON = {"std", "std-future", "alloc"}
# the Collect methods a span handle reaches through its Dispatch, and through a Box<C> / Arc<C> the collector sits behind
FORWARDED = ["new_span", "record", "record_follows_from", "enter", "exit", "clone_span", "try_close", "current_span"]
CFG_IDENTS_ON = set()          # docsrs, test, tracing_verif ... are off


# ------------------------------------------------------------------------------------------------
# cfg evaluation

def eval_cfg(expr):
    """Value of a cfg predicate under the modelled configuration; None if it cannot be parsed."""
    expr = expr.strip()
    m = re.match(r'^feature\s*=\s*"([^"]+)"$', expr)
    if m:
        return m.group(1) in FEATURES_ON
    m = re.match(r"^(all|any|not)\s*\((.*)\)$", expr, re.S)
    if m:
        parts = split_top(m.group(2), ",")
        vals = [eval_cfg(p) for p in parts if p.strip()]
        if any(v is None for v in vals):
            return None
        if m.group(1) == "all":
            return all(vals)
        if m.group(1) == "any":
            return any(vals)
        return (not vals[0]) if len(vals) == 1 else None
    if re.match(r"^[A-Za-z_][A-Za-z0-9_]*$", expr):
        return expr in CFG_IDENTS_ON
    return None


def split_top(s, sep):
    out, cur, depth, i = [], [], 0, 0
    while i < len(s):
        c = s[i]
        if c == '"':
            j = i + 1
            while j < len(s) and s[j] != '"':
                if s[j] == "\\":
                    j += 1
                j += 1
            cur.append(s[i:j + 1])
            i = j + 1
            continue
        if c in "([{":
            depth += 1
        elif c in ")]}":
            depth -= 1
        if c == sep and depth == 0:
            out.append("".join(cur))
            cur = []
        else:
            cur.append(c)
        i += 1
    out.append("".join(cur))
    return out


ATTR_RE = re.compile(r"#\[")


def item_end(src, i):
    """End (exclusive) of the item / statement that starts at i: up to the first `;` at depth 0 or the end of the first
    top-level `{..}` block (plus a directly following `;`).  Leading attributes are part of the item."""
    n = len(src)
    while True:
        while i < n and src[i].isspace():
            i += 1
        if src.startswith("#[", i):
            i = match_brace(src, i + 1, "[", "]") + 1
            continue
        break
    depth = 0
    while i < n:
        c = src[i]
        if c == '"':
            j = i + 1
            while j < n and src[j] != '"':
                if src[j] == "\\":
                    j += 1
                j += 1
            i = j + 1
            continue
        if c in "([":
            depth += 1
        elif c in ")]":
            depth -= 1
        elif c == "{":
            if depth == 0:
                e = match_brace(src, i) + 1
                k = e
                while k < n and src[k] in " \t":
                    k += 1
                return k + 1 if k < n and src[k] == ";" else e
            depth += 1
        elif c == "}":
            if depth == 0:
                return i          # end of the enclosing block: the item was a tail expression
            depth -= 1
        elif c == ";" and depth == 0:
            return i + 1
        i += 1
    return n


def apply_cfg(src, unrec, where):
    """Remove items whose #[cfg(..)] is false, strip #[cfg(..)] that is true and every #[cfg_attr(..)]."""
    out = []
    i = 0
    n = len(src)
    while i < n:
        if src.startswith("#[cfg_attr(", i) or src.startswith("#![cfg_attr(", i):
            i = match_brace(src, src.index("[", i), "[", "]") + 1
            continue
        if src.startswith("#[cfg(", i):
            close = match_brace(src, i + 1, "[", "]")
            expr = src[i + len("#[cfg("):close - 1]
            v = eval_cfg(expr)
            if v is None:
                unrec.append("%s: cfg predicate not understood: %s" % (where, norm(expr)))
                v = True
            if v:
                i = close + 1
            else:
                i = item_end(src, close + 1)
            continue
        out.append(src[i])
        i += 1
    return "".join(out)


def load(repo, path, unrec):
    try:
        src = open(os.path.join(repo, path)).read()
    except OSError:
        unrec.append("%s: cannot read" % path)
        return ""
    return apply_cfg(strip_comments(src), unrec, path)


# ------------------------------------------------------------------------------------------------
# statements

BLOCK_START = re.compile(r"^(if\b|unsafe\s*\{|match\b|loop\b|for\b|while\b|\{|(?:\$?[A-Za-z_][A-Za-z0-9_:]*)!\s*\{)")


def statements(body):
    """Top-level statements of a block body (normalised text each, without the closing `;`)."""
    body = norm(body)
    out = []
    i, n = 0, len(body)
    start = 0
    depth = 0
    while i < n:
        c = body[i]
        if c == '"':
            j = i + 1
            while j < n and body[j] != '"':
                if body[j] == "\\":
                    j += 1
                j += 1
            i = j + 1
            continue
        if c == "'":
            m = re.match(r"'(\\.|[^\\'])'", body[i:i + 4])
            if m:
                i += len(m.group(0))
                continue
        if c in "([{":
            depth += 1
        elif c in ")]}":
            depth -= 1
            if c == "}" and depth == 0:
                st = body[start:i + 1].strip()
                rest = body[i + 1:].lstrip()
                if BLOCK_START.match(st) and not re.match(r"^(else\b|\.|\?)", rest):
                    if rest.startswith(";"):
                        i = body.index(";", i + 1)
                    out.append(st)
                    start = i + 1
        elif c == ";" and depth == 0:
            st = body[start:i].strip()
            if st:
                out.append(st)
            start = i + 1
        i += 1
    tail = body[start:].strip()
    if tail:
        out.append(tail)
    # drop statement-level attributes such as #[inline]
    return [re.sub(r"^(#\[[^\]]*\]\s*)+", "", s) for s in out]


def block_of(st, open_idx):
    """(inside, index after the closing brace) of the `{..}` that opens at open_idx in st."""
    cb = match_brace(st, open_idx)
    return st[open_idx + 1:cb].strip(), cb + 1


SENSITIVE = re.compile(r"collector|dispatch|do_enter|do_exit|\benter\(|\bentered\(|\bexit\(|clone_span|try_close|new_span|"
                       r"current_span|record|follows_from|\.clone\(\)|mem::|ManuallyDrop|ptr::|\.read\(\)|forget")

OWN_CALLS = {"enter": "KEnter", "exit": "KExit", "try_close": "KTryClose", "clone_span": "KCloneSpan",
             "record": "KRecord", "record_follows_from": "KFollows"}
DEF_CALLS = {"new_span": "KNewSpan", "clone_span": "KCloneSpan", "current_span": "KCurrentSpan"}


class Env:
    """What the identifiers of a method body denote."""

    def __init__(self, cls, span_exprs=(), inner_self=False):
        self.cls = cls                      # row prefix of the impl (Span, Inner, Entered, ...)
        self.span = set(span_exprs)         # expressions denoting the span the method acts on (`self`, `self.span`, ...)
        self.inner = set()                  # variables bound to the span's `Inner`
        if inner_self:
            self.inner.add("self")
        self.own_id = set()                 # variables bound to `inner.id` by a destructuring pattern
        self.own_coll = set()               # ... to `inner.collector`
        self.default = set()                # closure parameters of dispatch::get_default
        self.taken = set()                  # locals holding the Span taken out of self by mem::replace
        self.ptr_span = set()               # raw pointers to self's span field
        self.ptr_inner = set()
        self.forgot_self = False
        self.prefix = ""                    # "futures::" for tracing-futures rows

    def fork(self):
        e = Env(self.cls)
        e.__dict__.update({k: (set(v) if isinstance(v, set) else v) for k, v in self.__dict__.items()})
        return e

    def is_span(self, x):
        return x in self.span or x in self.taken

    def own_id_expr(self, x):
        """does expression x denote (a reference to / a clone of) the handle's own id?"""
        x = x.strip()
        for iv in self.inner:
            if x in ("&%s.id" % iv, "%s.id.clone()" % iv):
                return True
        for v in self.own_id:
            if x in (v, "&%s" % v, "%s.clone()" % v):
                return True
        return False

    def own_coll_expr(self, x):
        x = x.strip()
        return any(x == "%s.collector" % iv for iv in self.inner) or x in self.own_coll


def unrec(st):
    return ("SUnrecognised", norm(st)[:120])


def log_only(text):
    """an if_log_enabled! { .. } invocation (the `log` feature is off: the macro expands to nothing)"""
    return re.match(r"^(\$crate::)?if_log_enabled!\s*\{", text) is not None


def interp(body, env, P):
    """shape events of a block body"""
    evs = []
    sts = statements(body)
    for i, st in enumerate(sts):
        m = re.match(r"^drop\((\w+)\)$", st)
        if m and m.group(1) in getattr(env, "guard_vars", ()) and \
                all(x == getattr(env, "result_var", "\0") for x in sts[i + 1:]):
            continue      # an explicit drop of a guard as the last action of the function = the implicit drop at scope end
        evs.extend(interp_stmt(st, env, P))
    return evs


def interp_stmt(st, env, P):
    S = env.prefix
    # ---- nothing to see
    if log_only(st):
        return []
    if st in ("self", "span") or st in env.taken or st == getattr(env, "result_var", "\0"):
        return []                                                    # the value returned
    m = re.match(r"^let (\w+) = f\(\)$", st)
    if m:
        env.result_var = m.group(1)                                  # foreign code whose result is returned later
        return [("SBody",)]
    m = re.match(r"^if let Some\(_?meta\) = self\.meta \{", st)
    if m:
        inside, end = block_of(st, m.end() - 1)
        if end != len(st):
            return [unrec(st)]                                       # an else branch
        inner_sts = statements(inside)
        if all(log_only(x) for x in inner_sts):
            return []
        m2 = re.match(r"^if let Some\(field\) = field\.as_field\(meta\) \{", inner_sts[0]) if len(inner_sts) == 1 else None
        if m2:
            body2, end2 = block_of(inner_sts[0], m2.end() - 1)
            if end2 != len(inner_sts[0]):
                return [unrec(inner_sts[0])]
            return [("SIfField", interp(body2, env, P))]
        return [unrec(st)]
    if re.match(r"^let record = Record::new\(values\)$", st) or re.match(r"^let attrs = &new_span$", st) \
            or re.match(r"^let mut parent = parent\.into\(\)$", st) or re.match(r"^let meta = __CALLSITE\.metadata\(\)$", st):
        return []
    # ---- conditionals on the handle
    m = re.match(r"^if let Some\((?:ref )?(\w+)\) = self\.inner(?:\.as_ref\(\))? \{", st)
    if m and env.is_span("self"):
        inside, end = block_of(st, m.end() - 1)
        if end != len(st):
            return [unrec(st)]
        e2 = env.fork()
        e2.inner.add(m.group(1))
        return [("SIfInner", interp(inside, e2, P))]
    m = re.match(r"^if let Some\(Inner \{ ref (\w+), ref (\w+),? \}\) = self\.inner \{", st)
    if m and env.is_span("self") and {m.group(1), m.group(2)} == {"id", "collector"}:
        inside, end = block_of(st, m.end() - 1)
        if end != len(st):
            return [unrec(st)]
        e2 = env.fork()
        e2.own_id.add("id")
        e2.own_coll.add("collector")
        return [("SIfInner", interp(inside, e2, P))]
    m = re.match(r"^if let Some\((\w+)\) = from\.into\(\) \{", st)
    if m:
        inside, end = block_of(st, m.end() - 1)
        if end != len(st):
            return [unrec(st)]
        e2 = env.fork()
        e2.from_var = m.group(1)
        return [("SIfFrom", interp(inside, e2, P))]
    m = re.match(r"^if self\.is_disabled\(\) \{", st)
    if m and env.is_span("self"):
        inside, end = block_of(st, m.end() - 1)
        sts = statements(inside)
        if end == len(st) and len(sts) == 1 and sts[0].startswith("return "):
            return [("SIfDisabled", interp_stmt(sts[0][len("return "):], env, P))]
        return [unrec(st)]
    # ---- the default dispatcher
    m = re.match(r"^dispatch::get_default\((?:move )?\|(\w+)\| ", st)
    if m and st.endswith(")"):
        inner = st[m.end():-1].strip()
        e2 = env.fork()
        e2.default.add(m.group(1))
        if inner.startswith("{"):
            inside, end = block_of(inner, 0)
            if end != len(inner):
                return [unrec(st)]
            return [("SWithDefault", interp(inside, e2, P))]
        return [("SWithDefault", interp(inner, e2, P))]
    for d in env.default:
        m = re.match(r"^if let Some\(\(id, meta\)\) = %s\.current_span\(\)\.into_inner\(\) \{" % re.escape(d), st)
        if m:
            th, end = block_of(st, m.end() - 1)
            rest = st[end:].strip()
            m2 = re.match(r"^else \{", rest)
            if not m2:
                return [unrec(st)]
            el, end2 = block_of(rest, m2.end() - 1)
            if end2 != len(rest):
                return [unrec(st)]
            return [("SIfCurrent", interp(th, env, P), interp(el, env, P))]
        if st == "let id = %s.new_span(attrs)" % d:
            return [("SCall", "TDefault", "KNewSpan")]
        if st == "let id = %s.clone_span(&id)" % d:
            return [("SCall", "TDefault", "KCloneSpan")]
        if st in ("let inner = Some(Inner::new(id, %s))" % d,
                  "Self { inner: Some(Inner::new(id, %s)), meta: Some(meta), }" % d):
            return [("SMkSpan", "TDefault")]
        m = re.match(r"^Self::(new_with|new_root_with|child_of_with)\((.*)\)$", st)
        if m and split_top(m.group(2), ",")[-1].strip() == d:
            return [("SInvoke", S + "Span::" + m.group(1))]
    if st == "let span = Self { inner, meta: Some(meta), }":
        return []                      # the `inner` built by the preceding statement (SMkSpan)
    m = re.match(r"^Self::make_with\(meta, new_span, (\w+)\)$", st)
    if m and m.group(1) in env.default:
        return [("SInvoke", S + "Span::make_with")]
    m = re.match(r"^let new_span = Attributes::(new|new_root)\(meta, values\)$", st)
    if m:
        return [("SAttrs", "contextual" if m.group(1) == "new" else "root")]
    if st == ("let new_span = match parent.into() { Some(parent) => Attributes::child_of(parent, meta, values), "
              "None => Attributes::new_root(meta, values), }"):
        return [("SAttrs", "child_or_root")]
    if st in ("Self::none()", "crate::Span::none()"):
        return [("SInvoke", S + "Span::none")]
    if st == "Self::current()":
        return [("SInvoke", S + "Span::current")]
    if re.match(r"^Self \{ inner: None, meta: (None|Some\(meta\)), \}$", st):
        return [("SMkNone",)]
    if st == "Self { inner: self.inner.clone(), meta: self.meta, }" and env.is_span("self"):
        return [("SIfInner", [("SInvoke", S + "Inner::clone")])]       # what derive(Clone) expands to
    if st == "*self = source.clone()" and env.is_span("self"):
        return [("SInvoke", S + "Span::clone"), ("SDropSpan",)]
    # ---- calls on the handle's own collector
    m = re.match(r"^([\w.]+)\.(\w+)\((.*)\)$", st)
    if m and m.group(2) in OWN_CALLS and env.own_coll_expr(m.group(1)):
        args = [a.strip() for a in split_top(m.group(3), ",")]
        if args and env.own_id_expr(args[0]):
            return [("SCall", "TOwn", OWN_CALLS[m.group(2)])]
        return [unrec(st)]
    for iv in env.inner:
        m = re.match(r"^%s\.(record|follows_from)\(&\w+\)$" % re.escape(iv), st)
        if m:
            return [("SInvoke", S + "Inner::" + m.group(1))]
    # ---- methods of the table called on the span
    m = re.match(r"^([\w.]+)\.(do_enter|do_exit)\(\)$", st)
    if m and env.is_span(m.group(1)):
        return [("SInvoke", S + "Span::" + m.group(2))]
    m = re.match(r"^let (\w+) = ([\w.]+)\.(enter)\(\)$", st)
    if m and env.is_span(m.group(2)):
        if m.group(1) != "_":
            env.guard_vars = set(getattr(env, "guard_vars", ())) | {m.group(1)}
        return [("STemp" if m.group(1) == "_" else "SGuard", S + "Span::enter")]
    m = re.match(r"^([\w.]+)\.(enter|entered)\(\)$", st)
    if m and env.is_span(m.group(1)):
        return [("STemp", S + "Span::" + m.group(2))]
    m = re.match(r"^self\.record_all\( &meta \.fields\(\) \.value_set\(&\[\(&field, Some\(&value as &dyn field::Value\)\)\]\), \)$", st)
    if m and env.is_span("self"):
        return [("SInvoke", S + "Span::record_all")]
    # ---- struct literals wrapping the span
    m = re.match(r"^(Entered|EnteredSpan) \{ span: self, _not_send: PhantomNotSend, \}$", st)
    if m and env.is_span("self"):
        return [("SMk", m.group(1))]
    if st == "Inner { id: self.collector.clone_span(&self.id), collector: self.collector.clone(), }" and "self" in env.inner:
        return [("SCall", "TOwn", "KCloneSpan"), ("SMk", "Inner")]
    if st == "Inner { id: self.id.clone(), collector: self.collector.clone(), }" and "self" in env.inner:
        return [("SMk", "Inner")]                                   # the Id is copied without telling the collector
    if st == "Inner { id, collector: collector.clone(), }" and env.cls == "Inner":
        return [("SMk", "Inner")]
    if st in ("Instrumented { inner: ManuallyDrop::new(self), span, }", "Instrumented { inner, span }"):
        return [("SMk", "Instrumented")]
    if st == "let inner = ManuallyDrop::new(self)" and env.cls == "Instrument":
        return []
    if st == "self.instrument(Span::current())" and env.cls == "Instrument":
        return [("SInvoke", "Span::current"), ("SInvoke", S + "Instrument::instrument")]
    if st in ("WithDispatch { inner: self, dispatch: collector.into(), }",):
        return [("SMk", "WithDispatch")]
    if st == "WithDispatch { inner: self, dispatch: dispatch::get_default(|default| default.clone()), }":
        return [("SWithDefault", [("SMk", "WithDispatch")])]
    # ---- foreign code
    if st in ("f()", "inner.poll(cx)", "future.poll(cx)") or \
            st == "unsafe { ManuallyDrop::drop(this.inner.get_unchecked_mut()) }":
        return [("SBody",)]
    # ---- EnteredSpan::exit
    m = re.match(r"^let (\w+) = mem::replace\(&mut self\.span, Span::none\(\)\)$", st)
    if m and env.cls == "EnteredSpan":
        env.taken.add(m.group(1))
        return [("STakeSpan",)]
    # ---- EnteredSpan::exit written without the placeholder: ManuallyDrop::new(self) suppresses the guard's destructor, the
    #      span is exited in place (`this.span` IS self's span) and moved out with ptr::read.  Read as shapes: the model's row
    #      has STakeSpan (the span is owned by a local BEFORE do_exit runs); this row differs from it.
    if env.cls == "EnteredSpan":
        m = re.match(r"^let (?:mut )?(\w+) = (?:(?:core|std)::)?(?:mem::)?ManuallyDrop::new\(self\)$", st)
        if m:
            env.forgot_self = True
            env.md_self = m.group(1)
            env.span.add("%s.span" % m.group(1))
            return [("SForgetSelf",)]
        md = getattr(env, "md_self", None)
        if md and re.match(r"^unsafe \{ (?:(?:core|std)::)?ptr::read\(&%s\.span\) \}$" % re.escape(md), st):
            return [("SOwnSpan",)]
        m = re.match(r"^let (\w+) = unsafe \{ (?:(?:core|std)::)?ptr::read\(&(\w+)\.span\) \}$", st)
        if m and md and m.group(2) == md:
            env.taken.add(m.group(1))
            return [("SOwnSpan",)]
    # ---- projections (aliases only)
    if st in ("let this = this.project()", "let this = self.project()") and env.cls in ("Instrumented", "WithDispatch"):
        if env.cls == "Instrumented":
            env.span.add("this.span")
        return []
    if st == "let (span, inner) = self.project().span_and_inner_pin_mut()" and env.cls == "Instrumented":
        if P.get("proj_ok"):
            env.span.add("span")
            return []
        return [unrec(st)]
    if st in ("let dispatch = this.dispatch", "let future = this.inner") and env.cls == "WithDispatch":
        return []
    if st == "let _default = dispatch::set_default(dispatch)" and env.cls == "WithDispatch":
        return [("SSetDefault",)]
    if st == "dispatch::with_default(dispatch, || future.poll(cx))" and env.cls == "WithDispatch":
        return [("SSetDefault",), ("SBody",)]
    # ---- Instrumented::into_inner
    if env.cls == "Instrumented":
        m = re.match(r"^let (?:mut )?this = ManuallyDrop::new\(self\)$", st)
        if m:
            env.forgot_self = True
            env.this_is_self = True
            return [("SForgetSelf",)]
        if st == "mem::forget(self)":
            env.forgot_self = True
            return [("SForgetSelf",)]
        m = re.match(r"^let (\w+): \*const Span = &(this|self)\.span$", st)
        if m and (m.group(2) == "self" or getattr(env, "this_is_self", False)):
            env.ptr_span.add(m.group(1))
            return []
        m = re.match(r"^let (\w+): \*const ManuallyDrop<T> = &(this|self)\.inner$", st)
        if m and (m.group(2) == "self" or getattr(env, "this_is_self", False)):
            env.ptr_inner.add(m.group(1))
            return []
        m = re.match(r"^let (\w+) = unsafe \{ (\w+)\.read\(\) \}$", st)
        if m and m.group(2) in env.ptr_span:
            return [("SOwnSpan",)] if m.group(1) != "_" else [("SOwnSpan",), ("SDropSpan",)]
        if m and m.group(2) in env.ptr_inner:
            env.inner_val = m.group(1)
            return []
        if st == "ManuallyDrop::into_inner(%s)" % getattr(env, "inner_val", "\0"):
            return []
        if st == "unsafe { ManuallyDrop::take(&mut this.inner) }" and getattr(env, "this_is_self", False):
            return []                                                # the inner value leaves; nothing else is touched
        if st.startswith("{") and st.endswith("}"):
            inside, end = block_of(st, 0)
            if end == len(st):
                return interp(inside, env, P)
    return [unrec(st)]


# ------------------------------------------------------------------------------------------------
# items

def find_impl(src, header_re):
    for _m, body, _s, _e in find_blocks(src, header_re):
        return body
    return None


def find_fn(body, fn):
    """(signature text, body text) of `fn <fn>` in an impl / trait body; generics may contain `->` (FnOnce() -> T)."""
    for m in re.finditer(r"\bfn\s+%s\b" % re.escape(fn), body):
        i = m.end()
        depth = 0
        n = len(body)
        while i < n:
            if body.startswith("->", i):
                i += 2
                continue
            c = body[i]
            if c == "<":
                depth += 1
            elif c == ">":
                depth -= 1
            elif c == "(" and depth == 0:
                break
            i += 1
        if i >= n:
            continue
        cp = match_brace(body, i, "(", ")")
        j = cp + 1
        while j < n and body[j] not in "{;":
            j += 1
        if j >= n or body[j] == ";":
            continue
        cb = match_brace(body, j)
        return norm(body[m.start():j]), body[j + 1:cb].strip()
    return None


def fn_body(src, header_re, fn, unrec_list, key):
    found_impl = False
    for _m, body, _s, _e in find_blocks(src, header_re):
        found_impl = True
        f = find_fn(body, fn)
        if f is not None:
            return f
    unrec_list.append("%s: %s" % (key, "fn %s not found" % fn if found_impl else "impl block not found"))
    return None


def struct_def(src, name):
    """(derive list, [(field, type)]) of `struct name[<..>] { .. }` (inside or outside pin_project!), or None."""
    m = re.search(r"((?:#\[[^\]]*\]\s*)*)pub(?:\([a-z]+\))?\s+struct\s+%s\b[^{;]*\{" % re.escape(name), src)
    if not m:
        return None
    ob = m.end() - 1
    cb = match_brace(src, ob)
    derives = []
    for d in re.findall(r"#\[derive\(([^)]*)\)\]", m.group(1)):
        derives += [x.strip() for x in d.split(",") if x.strip()]
    fields = []
    for part in split_top(src[ob + 1:cb], ","):
        part = re.sub(r"#\[[^\]]*\]", "", part).strip()
        if not part:
            continue
        fm = re.match(r"^(?:pub(?:\([a-z]+\))?\s+)?(\w+)\s*:\s*(.*)$", part, re.S)
        if not fm:
            return derives, None
        fields.append((fm.group(1), norm(fm.group(2))))
    return derives, fields


def impls_of(src, cls):
    """sorted trait names `cls` implements: its derive list plus every `impl .. Trait for cls` header"""
    out = set()
    d = struct_def(src, cls)
    if d:
        out |= set(d[0])
    if d is None:
        m = re.search(r"((?:#\[[^\]]*\]\s*)*)(?:pub(?:\([a-z]+\))?\s+)?struct\s+%s\b" % re.escape(cls), src)
        if m:
            for dd in re.findall(r"#\[derive\(([^)]*)\)\]", m.group(1)):
                out |= {x.strip() for x in dd.split(",") if x.strip()}
    for m in re.finditer(r"\bimpl(?:\s*<[^>{]*>)?\s+(?:!\s*)?([A-Za-z_][\w:]*)(?:<[^{]*?>)?\s+for\s+%s\b(?!:)" % re.escape(cls), src):
        out.add(m.group(1).split("::")[-1])
    return sorted(out)


PURE_TYPES = {"Option<&'static Metadata<'static>>", "PhantomNotSend", "Id", "Dispatch", "&'a Span", "ManuallyDrop<T>"}


def glue(fields, has_drop, cls, S):
    """drop glue of a struct: its Drop impl (if any), then the fields in declaration order"""
    evs = [("SInvoke", S + cls + "::drop")] if has_drop else []
    for _f, ty in fields:
        if ty == "Span":
            evs.append(("SDropSpan",))
        elif ty == "T":
            evs.append(("SBody",))
        elif ty == "Option<Inner>" or ty in PURE_TYPES:
            pass            # Inner has no Drop impl (checked by the caller); Id / Dispatch / references: no collector call
        else:
            evs.append(unrec("field of type " + ty))
    return evs


def derived_clone(fields, S):
    evs = []
    for _f, ty in fields:
        if ty == "Span":
            evs.append(("SInvoke", S + "Span::clone"))
        elif ty == "Option<Inner>":
            evs.append(("SIfInner", [("SInvoke", S + "Inner::clone")]))
        elif ty in ("T", "ManuallyDrop<T>"):
            evs.append(("SBody",))
        elif ty in PURE_TYPES:
            pass
        else:
            evs.append(unrec("clone of field of type " + ty))
    return evs


def pure_row(sig_body, key, unrec_list):
    """[] if the body touches nothing that could reach a collector"""
    if sig_body is None:
        return [unrec("missing " + key)]
    body = norm(sig_body[1])
    allowed = body.replace("self.inner.as_ref().map(Inner::id)", "").replace("self.id.clone()", "") \
        .replace("span_and_inner_pin_mut", "").replace("span_and_inner_pin_ref", "").replace("&self.dispatch", "") \
        .replace("self.is_disabled()", "")
    if SENSITIVE.search(allowed):
        return [unrec(body)]
    return []


def analyse(repo):
    U = []
    rows = []

    def row(key, evs):
        rows.append((key, evs))

    span_src = load(repo, SPAN_RS, U)

    def method(cls, fn, hdr, env, key=None, P=None, src=None, pre=""):
        fb = fn_body(src if src is not None else span_src, hdr, fn, U, key or (cls + "::" + fn))
        if fb is None:
            row(pre + (key or cls + "::" + fn), [unrec("missing")])
            return
        env.prefix = pre
        for pm in re.finditer(r"(\w+): &Dispatch\b", fb[0]):
            env.default.add(pm.group(1))          # the caller passes the closure parameter of get_default on
        row(pre + (key or cls + "::" + fn), interp(fb[1], env, P or {}))

    SPAN_IMPL = r"\nimpl Span\s*\{"
    INNER_IMPL = r"\nimpl Inner\s*\{"
    # ---- Inner
    method("Inner", "clone", r"\nimpl Clone for Inner\s*\{", Env("Inner", inner_self=True))
    method("Inner", "new", INNER_IMPL, Env("Inner"))
    method("Inner", "record", INNER_IMPL, Env("Inner", inner_self=True))
    method("Inner", "follows_from", INNER_IMPL, Env("Inner", inner_self=True))
    fb = fn_body(span_src, INNER_IMPL, "id", U, "Inner::id")
    row("Inner::id", pure_row(fb, "Inner::id", U))
    inner_has_drop = re.search(r"\nimpl(?:<[^>]*>)? Drop for Inner\b", span_src) is not None
    if inner_has_drop:
        U.append("Inner has a Drop impl (the model has none)")
    # ---- Span: Clone / Drop / glue
    sd = struct_def(span_src, "Span")
    CLONE_SPAN = r"\nimpl(?:<[^>]*>)? Clone for Span\s*\{"
    if re.search(r"\nimpl(?:<[^>]*>)? Clone for Span\b", span_src):
        method("Span", "clone", CLONE_SPAN, Env("Span", ["self"]))
        cf = None
        for _m, b_, _s, _e in find_blocks(span_src, CLONE_SPAN):
            cf = find_fn(b_, "clone_from")
        if cf is None:
            row("Span::clone_from", [("SInvoke", "Span::clone"), ("SDropSpan",)])
        else:
            row("Span::clone_from", interp(cf[1], Env("Span", ["self"]), {}))
    elif sd and sd[1] is not None and "Clone" in sd[0]:
        row("Span::clone", derived_clone(sd[1], ""))
        # the provided Clone::clone_from: `*self = source.clone()`: the clone is made, then the old value is dropped
        row("Span::clone_from", [("SInvoke", "Span::clone"), ("SDropSpan",)])
    else:
        row("Span::clone", [unrec("Span is not Clone")])
        row("Span::clone_from", [unrec("Span is not Clone")])
    method("Span", "drop", r"\nimpl Drop for Span\s*\{", Env("Span", ["self"]))
    row("Span::dropglue", glue(sd[1], True, "Span", "") + ([unrec("Inner: Drop")] if inner_has_drop else [])
        if sd and sd[1] is not None else [unrec("struct Span")])
    # ---- Span methods
    for fn in ("do_enter", "do_exit", "enter", "entered", "in_scope", "record", "record_all", "follows_from", "or_current",
               "current", "none", "new_disabled", "make_with", "new", "new_with", "new_root", "new_root_with", "child_of",
               "child_of_with"):
        method("Span", fn, SPAN_IMPL, Env("Span", ["self"]))
    for fn in ("is_disabled", "is_none", "id", "metadata"):
        row("Span::" + fn, pure_row(fn_body(span_src, SPAN_IMPL, fn, U, "Span::" + fn), "Span::" + fn, U))
    # ---- guards
    method("Entered", "drop", r"\nimpl Drop for Entered<'_>\s*\{", Env("Entered", ["self.span"]))
    method("EnteredSpan", "drop", r"\nimpl Drop for EnteredSpan\s*\{", Env("EnteredSpan", ["self.span"]))
    method("EnteredSpan", "exit", r"\nimpl EnteredSpan\s*\{", Env("EnteredSpan", []))
    row("EnteredSpan::deref", pure_row(fn_body(span_src, r"\nimpl Deref for EnteredSpan\s*\{", "deref", U, "EnteredSpan::deref"),
                                       "EnteredSpan::deref", U))
    for cls in ("Entered", "EnteredSpan"):
        d = struct_def(span_src, cls)
        row(cls + "::dropglue", glue(d[1], True, cls, "") if d and d[1] is not None else [unrec("struct " + cls)])
    # ---- which traits the handle and guard types implement (derive lists and impl blocks): a new impl is a shape change
    for cls in ("Span", "Inner", "Entered", "EnteredSpan", "PhantomNotSend"):
        row(cls + "::impls", [("SAttrs", t) for t in impls_of(span_src, cls)])
    es = impls_of(span_src, "EnteredSpan")
    # `.clone()` written on an EnteredSpan guard: there is no Clone for the guard, so it auto-derefs to Span::clone
    row("EnteredSpan::clone", [("SInvoke", "Span::clone")] if "Clone" not in es and "Deref" in es
        else [unrec("EnteredSpan implements Clone (or lost Deref): .clone() on the guard is no longer Span::clone")])
    row("Entered::clone", [] if "Clone" not in impls_of(span_src, "Entered") else [unrec("Entered implements Clone")])
    # ---- the span! macro and the disabled branch
    mac = load(repo, MACROS_RS, U)
    lib = load(repo, LIB_RS, U)
    row("span!(parent)", macro_arm(mac, True, U))
    row("span!(ctx)", macro_arm(mac, False, U))
    fb = fn_body(lib, r"\n\s*impl MacroCallsite<&'static dyn Callsite>\s*\{", "disabled_span", U, "MacroCallsite::disabled_span")
    row("MacroCallsite::disabled_span", interp(fb[1], Env("MacroCallsite"), {}) if fb else [unrec("missing")])
    # ---- Instrumented / WithDispatch, both crates
    for path, S, fut_path in ((INSTR_RS, "", "Future"), (FUT_RS, "futures::", "core::future::Future")):
        src = load(repo, path, U)
        # rows of this crate refer to the one Span implementation
        proj = fn_body(src, r"\nimpl<'a, T> InstrumentedProj<'a, T>\s*\{", "span_and_inner_pin_mut", U, S + "InstrumentedProj")
        proj_ok = proj is not None and norm(proj[1]) == "let inner = unsafe { self.inner.map_unchecked_mut(|v| &mut **v) }; (self.span, inner)"
        if not proj_ok:
            U.append(S + "InstrumentedProj::span_and_inner_pin_mut is not (self.span, inner)")
        P = {"proj_ok": proj_ok}

        def m2(cls, fn, hdr, env, key=None):
            fb2 = fn_body(src, hdr, fn, U, S + (key or cls + "::" + fn))
            if fb2 is None:
                row(S + (key or cls + "::" + fn), [unrec("missing")])
                return
            evs = interp(fb2[1], env, P)
            row(S + (key or cls + "::" + fn), [retarget(e, S) for e in evs])

        m2("Instrument", "instrument", r"\npub trait Instrument: Sized\s*\{", Env("Instrument"))
        m2("Instrument", "in_current_span", r"\npub trait Instrument: Sized\s*\{", Env("Instrument"))
        m2("WithCollector", "with_collector", r"\npub trait WithCollector: Sized\s*\{", Env("WithCollector"))
        m2("WithCollector", "with_current_collector", r"\npub trait WithCollector: Sized\s*\{", Env("WithCollector"))
        m2("Instrumented", "poll", r"\nimpl<T: %s> %s for Instrumented<T>\s*\{" % (re.escape(fut_path), re.escape(fut_path)),
           Env("Instrumented"))
        m2("Instrumented", "drop", r"\n\s*impl<T> PinnedDrop for Instrumented<T>\s*\{", Env("Instrumented"))
        m2("Instrumented", "into_inner", r"\nimpl<T> Instrumented<T>\s*\{", Env("Instrumented"))
        for fn in ("span", "span_mut", "inner", "inner_mut", "inner_pin_ref", "inner_pin_mut"):
            row(S + "Instrumented::" + fn,
                pure_row(fn_body(src, r"\nimpl<T> Instrumented<T>\s*\{", fn, U, S + "Instrumented::" + fn), fn, U))
        d = struct_def(src, "Instrumented")
        if d and d[1] is not None:
            row(S + "Instrumented::dropglue", glue(d[1], True, "Instrumented", S))
            row(S + "Instrumented::clone", derived_clone(d[1], "") if "Clone" in d[0] else [unrec("Instrumented is not Clone")])
        else:
            row(S + "Instrumented::dropglue", [unrec("struct Instrumented")])
            row(S + "Instrumented::clone", [unrec("struct Instrumented")])
        m2("WithDispatch", "poll", r"\nimpl<T: %s> %s for WithDispatch<T>\s*\{" % (re.escape(fut_path), re.escape(fut_path)),
           Env("WithDispatch"))
        for fn in ("inner", "inner_mut", "inner_pin_ref", "inner_pin_mut", "into_inner", "dispatch"):
            row(S + "WithDispatch::" + fn,
                pure_row(fn_body(src, r"\nimpl<T> WithDispatch<T>\s*\{", fn, U, S + "WithDispatch::" + fn), fn, U))
        for cls in ("Instrumented", "WithDispatch"):
            row(S + cls + "::impls", [("SAttrs", t) for t in impls_of(src, cls)])
        d = struct_def(src, "WithDispatch")
        has_drop = re.search(r"Drop for WithDispatch\b", src) is not None
        if d and d[1] is not None and not has_drop:
            row(S + "WithDispatch::dropglue", glue(d[1], False, "WithDispatch", S))
            row(S + "WithDispatch::clone", derived_clone(d[1], "") if "Clone" in d[0] else [unrec("WithDispatch is not Clone")])
        else:
            row(S + "WithDispatch::dropglue", [unrec("struct WithDispatch")])
            row(S + "WithDispatch::clone", [unrec("struct WithDispatch")])
    # ---- the way from the handle's Dispatch to the collector: Dispatch::m and the Box<C> / Arc<C> impls of Collect
    for path, cls, hdr, recv in ((DISPATCH_RS, "Dispatch", r"\nimpl Dispatch\s*\{", "self.collector()"),
                                 (COLLECT_RS, "Box<C>", r"\nimpl<C> Collect for alloc::boxed::Box<C>", "self.as_ref()"),
                                 (COLLECT_RS, "Arc<C>", r"\nimpl<C> Collect for Arc<C>", "self.as_ref()")):
        src = load(repo, path, U)
        for fn in FORWARDED:
            row(cls + "::" + fn, forward_row(src, hdr, cls, fn, recv))
    for k, evs in rows:
        for u in collect_unrec(evs):
            U.append("%s: %s" % (k, u))
    return rows, U


def forward_row(src, hdr, cls, fn, recv):
    """[SInvoke "Collect::<fn>"] if <cls>::<fn> hands exactly its arguments to the same method of the wrapped collector"""
    found = None
    for _m, body, _s, _e in find_blocks(src, hdr):
        found = find_fn(body, fn)
        if found is not None:
            break
    else:
        if found is None and not list(find_blocks(src, hdr)):
            return [unrec("impl block of %s not found" % cls)]
    if found is None:
        return [unrec("%s does not override %s: the trait's provided method runs instead" % (cls, fn))]
    sig, body = found
    pm = re.search(r"\((.*)\)", sig, re.S)
    params = [p.split(":")[0].strip() for p in split_top(pm.group(1), ",")[1:]] if pm else None
    want = "%s.%s(%s)" % (recv, fn, ", ".join(params or []))
    got = norm(body).rstrip(";").strip()
    if got == want:
        return [("SInvoke", "Collect::" + fn)]
    return [unrec("%s::%s: %s" % (cls, fn, got))]


def retarget(ev, S):
    """rows of tracing-futures call into the one Span implementation of `tracing`: strip the crate prefix from Span::*"""
    if ev[0] in ("SInvoke", "SGuard", "STemp") and ev[1].startswith(S + "Span::"):
        return (ev[0], ev[1][len(S):])
    if ev[0] in ("SIfInner", "SIfFrom", "SIfField", "SIfDisabled", "SWithDefault"):
        return (ev[0], [retarget(e, S) for e in ev[1]])
    if ev[0] in ("SIfCurrent", "SIfEnabled"):
        return (ev[0], [retarget(e, S) for e in ev[1]], [retarget(e, S) for e in ev[2]])
    return ev


def collect_unrec(evs):
    out = []
    for e in evs:
        if e[0] == "SUnrecognised":
            out.append(e[1])
        for x in e[1:]:
            if isinstance(x, list):
                out += collect_unrec(x)
    return out


def macro_arm(mac, with_parent, U):
    """the arm of span! that has its own callsite: if <enabled> { Span::child_of / Span::new } else { disabled_span }"""
    blocks = list(find_blocks(mac, r"macro_rules!\s+span\s*\{"))
    if not blocks:
        return [unrec("macro_rules! span")]
    body = blocks[0][1]
    arms = []
    for m in re.finditer(r"=>\s*\{", body):
        ob = m.end() - 1
        cb = match_brace(body, ob)
        arm = body[ob + 1:cb]
        if "static __CALLSITE" in arm:
            pat_start = body.rfind(";", 0, m.start()) + 1
            arms.append((norm(body[pat_start:m.start()]), arm))
    want = [a for p, a in arms if ("parent: $parent:expr" in p) == with_parent]
    if len(want) != 1:
        return [unrec("span! arms with a callsite: %d" % len(want))]
    arm = norm(want[0])
    m = re.search(r"if \$crate::level_enabled!\(\$lvl\) && \{ interest = __CALLSITE\.interest\(\); !interest\.is_never\(\) \} "
                  r"&& __CALLSITE\.is_enabled\(interest\) \{", arm)
    if not m:
        return [unrec("span!: enabled test")]
    th, end = block_of(arm, m.end() - 1)
    rest = arm[end:].strip()
    m2 = re.match(r"^else \{", rest)
    if not m2:
        return [unrec("span!: else")]
    el, end2 = block_of(rest, m2.end() - 1)
    if rest[end2:].strip() not in ("}", ""):
        return [unrec("span!: trailing " + rest[end2:][:40])]

    def branch(text):
        evs = []
        for st in statements(text):
            if st == "let meta = __CALLSITE.metadata()" or log_only(st) or st == "span":
                continue
            if re.match(r"^\$crate::Span::child_of\( \$parent, meta, &\$crate::valueset!\(meta\.fields\(\), \$\(\$fields\)\*\), \)$", st):
                evs.append(("SInvoke", "Span::child_of"))
            elif re.match(r"^\$crate::Span::new\( meta, &\$crate::valueset!\(meta\.fields\(\), \$\(\$fields\)\*\), \)$", st):
                evs.append(("SInvoke", "Span::new"))
            elif st == "let span = __CALLSITE.disabled_span()":
                evs.append(("SInvoke", "MacroCallsite::disabled_span"))
            else:
                evs.append(unrec(st))
        return evs
    return [("SIfEnabled", branch(th), branch(el))]


# ------------------------------------------------------------------------------------------------
# Coq output

def coq_ev(e):
    k = e[0]
    if k == "SCall":
        return "SCall %s %s" % (e[1], e[2])
    if k in ("SIfInner", "SIfFrom", "SIfField", "SIfDisabled", "SWithDefault"):
        return "%s %s" % (k, coq_row(e[1]))
    if k in ("SIfCurrent", "SIfEnabled"):
        return "%s %s %s" % (k, coq_row(e[1]), coq_row(e[2]))
    if k in ("SAttrs", "SInvoke", "SGuard", "STemp", "SMk", "SUnrecognised"):
        return "%s %s" % (k, coq_str(e[1]))
    if k == "SMkSpan":
        return "SMkSpan %s" % e[1]
    return k


def coq_row(evs):
    return "[" + "; ".join(coq_ev(e) for e in evs) + "]"


def main(repo, _unused=None):
    rows, U = analyse(repo)
    lines = ["(** GENERATED by translators/span_shapes.py from tracing/src/{span,instrument,macros,lib}.rs and",
             "    tracing-futures/src/lib.rs — do not edit.  Meaning: SpanApi/ShapeSyntax.v; checked by C03_source_shapes. *)",
             "From Coq Require Import List String.", "From TV Require Import SpanApi.ShapeSyntax.", "Import ListNotations.",
             "Local Open Scope string_scope.", "",
             "Definition src_shapes : table :=\n  [ " + "\n  ; ".join("(%s, %s)" % (coq_str(k), coq_row(evs)) for k, evs in rows) + " ].",
             "", "Definition gen_unrecognised : list string := [%s]." % "; ".join(coq_str(u) for u in U)]
    return "\n".join(lines) + "\n", U


if __name__ == "__main__":
    text, unrec_list = main(sys.argv[1] if len(sys.argv) > 1 else "/repo")
    sys.stdout.write(text)
    if unrec_list:
        sys.stderr.write("unrecognised: %s\n" % unrec_list)
