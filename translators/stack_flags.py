"""C07 translator: which type does `Layered::new` compare with `Registry` to decide `inner_is_registry`?

    let inner_is_registry = TypeId::of::<X>() == TypeId::of::<crate::registry::Registry>();

X = the collector type parameter (`C`, as in the snapshot: finding F81) makes an `and_then` pair that is added
directly to a Registry believe that its inner side is the registry; X = the inner value's type (`B`/`I`, the
repair) does not.  The model's `pick_interest` flag for such pairs (Stack/Model.v, `l_register over_reg`) follows
this file on every run.

Second flag (finding F71): the body of `FilterMap::any_enabled` in filter/subscriber_filters/mod.rs, which is what
`Registry::enabled` / `Registry::event_enabled` answer when per-subscriber filters are in use:
`self.bits != u64::MAX` (the snapshot: an all-ones bitmap - only possible with exactly 64 filters - makes the
Registry veto the emission for the whole stack) or the literal `true` (the repair fixes/F71.patch: the Registry
never vetoes).  The model's `fm_any_enabled` follows it.

Third group (seeded change C07-E): which operands of the filter combinators (combinator.rs: `And`, `Or`, `Not`) are told about a
callsite in `callsite_enabled`.  That call is also how a stateful operand (an EnvFilter with span directives) learns that a
callsite exists, so an early return before an operand was asked changes what the combined filter accepts later.  The model
(Stack/Model.v, `FEnv`) describes the EnvFilter's state as a function of the spans its layer accepted, which is right exactly when
every operand is told: `or_asks_both` (both operands of `Or` are asked before anything is decided), `and_skips_only_after_never`
(`And` asks `a`, and skips `b` only when `a` said `never` - then the conjunction never accepts the callsite anyway), `not_asks`.
Property C07 needs all three; Stack/Main.v proves `operands_told` from the generated values.

Fourth group (seeded change C07-J): `FilterId::new(id: u8)` = `<guard>(id < 64, ..); Self(1 << id as usize)`.  The guard decides what
happens to the 65th per-layer filter registered on one Registry: `assert!` refuses it (panic while the stack is built) in every
profile; `debug_assert!` refuses only where debug assertions are compiled in, and in a release-style build the shift amount wraps
(`1 << 64` = `1 << 0`): filter #64 shares filter #0's bit.  Generated: `gen_filter_id_bound` (the literal compared with),
`gen_filter_id_bound_checked_in_debug`, `gen_filter_id_bound_checked_in_release`.  Both guard kinds are *recognised* (the flags follow
the source); Stack/IdBound.v proves from them that every accepted stack has pairwise disjoint masks.  Also read: that
`Registry::register_filter` is `FilterId::new(self.next_filter_id)` followed by `self.next_filter_id += 1`.  main(repo, None) -> (text of coq/gen/Gen_stack.v, unrecognised list)."""
import os
import re
import sys

sys.path.insert(0, os.path.dirname(os.path.abspath(__file__)))
import rsparse  # noqa: E402


def main(repo, _unused=None):
    path = os.path.join(repo, "tracing-subscriber", "src", "subscribe", "layered.rs")
    unrec = []
    flag = None
    try:
        src = rsparse.strip_comments(open(path, encoding="utf-8").read())
    except OSError as ex:
        src = ""
        unrec.append("cannot read layered.rs: %s" % ex)
    # the generic parameters of the impl block that defines `fn new(subscriber: _, inner: _, ..)`
    m = re.search(r"impl\s*<\s*(\w+)\s*,\s*(\w+)\s*,\s*(\w+)\s*>\s*Layered\s*<\s*\1\s*,\s*\2\s*,\s*\3\s*>\s*where(.*?)\{\s*pub\(super\)\s*fn\s+new\s*\(\s*subscriber\s*:\s*(\w+)\s*,\s*inner\s*:\s*(\w+)\s*,",
                  src, re.S)
    if not m:
        unrec.append("Layered::new: impl header / signature not recognised")
    else:
        inner_ty = m.group(6)
        coll_ty = m.group(3)
        body = src[m.end():m.end() + 1500]
        t = re.findall(r"let\s+inner_is_registry\s*=\s*TypeId::of::<\s*(\w+)\s*>\(\)\s*==\s*TypeId::of::<\s*(?:crate::registry::)?Registry\s*>\(\)\s*;", body)
        if len(t) != 1:
            unrec.append("Layered::new: `let inner_is_registry = TypeId::of::<X>() == TypeId::of::<Registry>()` not recognised")
        elif t[0] == inner_ty and inner_ty != coll_ty:
            flag = False
        elif t[0] == coll_ty:
            flag = True
        else:
            unrec.append("Layered::new: inner_is_registry compares an unexpected type %s" % t[0])
    # ---- FilterMap::any_enabled
    vetoes = None
    fpath = os.path.join(repo, "tracing-subscriber", "src", "filter", "subscriber_filters", "mod.rs")
    try:
        fsrc = rsparse.strip_comments(open(fpath, encoding="utf-8").read())
    except OSError as ex:
        fsrc = ""
        unrec.append("cannot read subscriber_filters/mod.rs: %s" % ex)
    am = re.findall(r"fn\s+any_enabled\s*\(\s*self\s*\)\s*->\s*bool\s*\{(.*?)\}", fsrc, re.S)
    if len(am) != 1:
        unrec.append("FilterMap::any_enabled: definition not recognised")
    else:
        body = re.sub(r"\s+", " ", am[0]).strip()
        if re.fullmatch(r"self\.bits != u64::MAX", body):
            vetoes = True
        elif body == "true":
            vetoes = False
        else:
            unrec.append("FilterMap::any_enabled: unexpected body `%s`" % body[:80])
    # the two places that consult it
    spath = os.path.join(repo, "tracing-subscriber", "src", "registry", "sharded.rs")
    try:
        ssrc = rsparse.strip_comments(open(spath, encoding="utf-8").read())
    except OSError as ex:
        ssrc = ""
        unrec.append("cannot read sharded.rs: %s" % ex)
    uses = re.findall(r"if\s+self\.has_per_subscriber_filters\(\)\s*\{\s*return\s+FilterState::event_enabled\(\)\s*;\s*\}\s*true", ssrc)
    if len(uses) != 2:
        unrec.append("Registry::enabled / event_enabled: `if self.has_per_subscriber_filters() { return FilterState::event_enabled(); } true` expected twice, found %d" % len(uses))
    if not re.search(r"fn\s+event_enabled\s*\(\s*\)\s*->\s*bool\s*\{.*?let\s+enabled\s*=\s*this\.enabled\.get\(\)\.any_enabled\(\)\s*;", fsrc, re.S):
        unrec.append("FilterState::event_enabled: `let enabled = this.enabled.get().any_enabled();` not recognised")
    # ---- FilterId::new: the bound on the number of per-layer filters and the kind of guard that enforces it
    id_bound, chk_debug, chk_release = None, None, None
    fid_blocks = list(rsparse.find_blocks(fsrc, r"impl\s+FilterId\s*"))
    nm = None
    if len(fid_blocks) != 1:
        unrec.append("subscriber_filters/mod.rs: `impl FilterId` found %d times" % len(fid_blocks))
    else:
        nm = re.search(r"fn\s+new\s*\(\s*id\s*:\s*u8\s*\)\s*->\s*Self\s*\{(.*?)\n    \}", fid_blocks[0][1], re.S)
        if not nm:
            unrec.append("FilterId::new(id: u8) -> Self not recognised")
    if nm:
        body = re.sub(r"\s+", " ", nm.group(1)).strip()
        bm = re.fullmatch(r'(assert|debug_assert)!\s*\(\s*id < (\d+)\s*(?:,\s*"[^"]*"\s*)?,?\s*\)\s*; Self\(1 << id as usize\)', body)
        if not bm:
            unrec.append("FilterId::new: unexpected body `%s`" % body[:120])
        else:
            id_bound = int(bm.group(2))
            chk_debug = True
            chk_release = bm.group(1) == "assert"
    if not re.search(r"fn\s+register_filter\s*\(\s*&mut\s+self\s*\)\s*->\s*FilterId\s*\{\s*let\s+id\s*=\s*FilterId::new\(self\.next_filter_id\)\s*;\s*"
                     r"self\.next_filter_id\s*\+=\s*1\s*;\s*id\s*\}", ssrc):
        unrec.append("Registry::register_filter: `let id = FilterId::new(self.next_filter_id); self.next_filter_id += 1; id` not recognised")
    if not re.search(r"next_filter_id\s*:\s*0\s*,", ssrc):
        unrec.append("Registry::default: `next_filter_id: 0` not recognised")
    # ---- combinators: who is asked in callsite_enabled
    cpath = os.path.join(repo, "tracing-subscriber", "src", "filter", "subscriber_filters", "combinator.rs")
    flags = {"or_asks_both": None, "and_skips_only_after_never": None, "not_asks": None}
    try:
        csrc = rsparse.strip_comments(open(cpath, encoding="utf-8").read())
    except OSError as ex:
        csrc = ""
        unrec.append("cannot read combinator.rs: %s" % ex)

    def ce_body(ty):
        blocks = list(rsparse.find_blocks(csrc, r"impl\s*<[^>]*>\s*Filter\s*<\s*\w+\s*>\s*for\s+%s\s*<[^>]*>\s*(?:where[^{]*)?" % ty))
        if len(blocks) != 1:
            unrec.append("combinator.rs: `impl Filter for %s` found %d times" % (ty, len(blocks)))
            return None
        fns = rsparse.fns_in(blocks[0][1])
        if "callsite_enabled" not in fns or fns["callsite_enabled"][1] is None:
            unrec.append("combinator.rs: %s::callsite_enabled not found" % ty)
            return None
        return re.sub(r"\s+", " ", fns["callsite_enabled"][1])

    CALL_A = "self.a.callsite_enabled(meta)"
    CALL_B = "self.b.callsite_enabled(meta)"

    def first_branch(body):
        m = re.search(r"\b(if|return|match)\b|\?", body)
        return m.start() if m else len(body)

    ob = ce_body("Or")
    if ob is not None:
        if ob.count(CALL_A) == 1 and ob.count(CALL_B) == 1:
            fb = first_branch(ob)
            flags["or_asks_both"] = ob.index(CALL_A) < fb and ob.index(CALL_B) < fb
        else:
            unrec.append("Or::callsite_enabled: operands are not asked exactly once each")
    ab = ce_body("And")
    if ab is not None:
        if ab.count(CALL_A) == 1 and ab.count(CALL_B) == 1 and ab.index(CALL_A) < ab.index(CALL_B):
            between = ab[ab.index(CALL_A) + len(CALL_A):ab.index(CALL_B)]
            # nothing between the two calls, or only `if a.is_never() { return a; }`
            t = between.replace(" ", "")
            flags["and_skips_only_after_never"] = t in (";letb=", ";ifa.is_never(){returna;}letb=", ";ifa.is_never(){returnInterest::never();}letb=")
        else:
            unrec.append("And::callsite_enabled: operands are not asked exactly once each, a first")
    nb = ce_body("Not")
    if nb is not None:
        flags["not_asks"] = nb.count(CALL_A) == 1 and nb.index(CALL_A) <= first_branch(nb) + len("match ")
    lines = ["(** GENERATED by translators/stack_flags.py from tracing-subscriber/src/subscribe/layered.rs, filter/subscriber_filters/mod.rs, combinator.rs and registry/sharded.rs - do not edit. *)",
             "From Coq Require Import NArith.",
             "(** [true]: `Layered::new` compares the *collector type parameter* with Registry (finding F81): a pair built by",
             "    `and_then` and added directly to a Registry sets inner_is_registry.  [false]: it compares the inner value's type. *)"]
    lines.append("Definition pair_sees_registry : bool := %s." % ("true" if flag in (True, None) else "false"))
    lines.append("(** [true]: `FilterMap::any_enabled` is `self.bits != u64::MAX`: with all 64 bits set the Registry vetoes the emission (finding F71).")
    lines.append("    [false]: it is the literal `true`: the Registry never vetoes on the bitmap. *)")
    lines.append("Definition registry_vetoes_full : bool := %s." % ("true" if vetoes in (True, None) else "false"))
    lines.append("(** which operands of And / Or / Not are told about a callsite in `callsite_enabled` (see translators/stack_flags.py) *)")
    for k in ("or_asks_both", "and_skips_only_after_never", "not_asks"):
        lines.append("Definition %s : bool := %s." % (k, "true" if flags[k] else "false"))
    lines.append("(** `FilterId::new`: ids below [gen_filter_id_bound] get the mask `1 << id`; is a larger id refused (panic) in a build with debug")
    lines.append("    assertions (debug) / without them (release)?  `assert!`: both; `debug_assert!`: debug only (see translators/stack_flags.py) *)")
    lines.append("Definition gen_filter_id_bound : N := %d%%N." % (id_bound if id_bound is not None else 0))
    lines.append("Definition gen_filter_id_bound_checked_in_debug : bool := %s." % ("true" if chk_debug else "false"))
    lines.append("Definition gen_filter_id_bound_checked_in_release : bool := %s." % ("true" if chk_release else "false"))
    lines.append("Definition gen_stack_unrecognised : list nat := %s." % ("nil" if not unrec else "cons 0 nil"))
    lines.append("Lemma gen_stack_recognised : gen_stack_unrecognised = nil.")
    lines.append("Proof. reflexivity. Qed.")
    return "\n".join(lines) + "\n", unrec


if __name__ == "__main__":
    text, unrec = main(sys.argv[1] if len(sys.argv) > 1 else "/repo")
    sys.stdout.write(text)
    for u in unrec:
        sys.stderr.write("unrecognised: %s\n" % u)
