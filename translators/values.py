#!/usr/bin/env python3
"""tracing-core/src/field.rs + tracing/src/macros.rs (+ span.rs, lib.rs)  ->  coq/gen/Gen_values.v      (C10)

Extracts, as *data*:
  * the `impl_values! { ... }` invocation: which primitive type goes to which `Visit::record_*` method through
    which `as` cast, and (from `impl_one_value!` / `ty_to_nonzero!`) which types also get a NonZero twin;
  * every hand-written `impl Value for X` body (str, [u8], dyn Error (+Send/+Sync), &T, &mut T, Box<T>, String,
    fmt::Arguments, DisplayValue, DebugValue, Empty, Wrapping<T>) and the Debug/Display impls of the two wrappers;
  * the arm tables of `valueset!` and `fieldset!`: per token shape (key form x has-value x sigil x more-follows)
    what is emitted (which wrapper around which source, appended or prepended) and how the recursion continues;
  * the base arms of `event!` / `span!`: the guard, and where `valueset!` is evaluated relative to it; the
    `{ fields }, fmt-args` arms of `event!` (message placed first); the shape of every forwarding arm;
  * `ValueSet::record` (callsite check, `None` skipped), `Span::record` (lookup through `AsField`),
    `FieldSet::field`, the `AsField` impls.
The Coq side (Fields/Model.v) interprets the data; Fields/Proofs.v proves the property over it.
Anything whose shape is not recognised is listed in `gen_unrecognised`, which the theorems require to be
empty (fail closed)."""
import os
import re
import sys

sys.path.insert(0, os.path.dirname(os.path.abspath(__file__)))
from rsparse import strip_comments, find_blocks, fns_in, match_brace, coq_str  # noqa: E402

PRIMS = {"u8": "U8", "u16": "U16", "u32": "U32", "u64": "U64", "u128": "U128", "usize": "Usize",
         "i8": "I8", "i16": "I16", "i32": "I32", "i64": "I64", "i128": "I128", "isize": "Isize",
         "f32": "F32", "f64": "F64", "bool": "PBool"}
METHS = {"record_u64": "MU64", "record_i64": "MI64", "record_u128": "MU128", "record_i128": "MI128", "record_f64": "MF64",
         "record_bool": "MBool", "record_str": "MStr", "record_bytes": "MBytes", "record_error": "MError", "record_debug": "MDebug"}


def ws(s):
    return re.sub(r"\s+", "", s)


def macro_arms(src, name):
    """[(pattern_text, body_text)] of `macro_rules! name { ... }` (first definition not under cfg(feature = "log")),
    or None.  Returns every definition as a list of (attrs_before, arms)."""
    defs = []
    for m in re.finditer(r"macro_rules!\s+%s\s*\{" % re.escape(name), src):
        ob = src.find("{", m.end() - 1)
        cb = match_brace(src, ob)
        body = src[ob + 1:cb]
        # attributes immediately before
        pre = src[max(0, m.start() - 300):m.start()]
        attrs = re.findall(r"#\[[^\]]*\]", pre.split("}")[-1])
        arms = []
        i = 0
        n = len(body)
        ok = True
        while i < n:
            while i < n and body[i] in " \t\r\n;":
                i += 1
            if i >= n:
                break
            if body[i] not in "([{":
                ok = False
                break
            close = {"(": ")", "[": "]", "{": "}"}[body[i]]
            j = match_brace(body, i, body[i], close)
            pat = body[i + 1:j]
            k = j + 1
            while k < n and body[k] in " \t\r\n":
                k += 1
            if not body.startswith("=>", k):
                ok = False
                break
            k += 2
            while k < n and body[k] in " \t\r\n":
                k += 1
            if k >= n or body[k] not in "([{":
                ok = False
                break
            close = {"(": ")", "[": "]", "{": "}"}[body[k]]
            e = match_brace(body, k, body[k], close)
            arms.append((pat, body[k + 1:e]))
            i = e + 1
        defs.append((attrs, arms if ok else None))
    return defs


def pick_def(defs, want_log=False):
    """The definition active with the `log` feature off (or the only one)."""
    if len(defs) == 1:
        return defs[0][1]
    for attrs, arms in defs:
        a = ws("".join(attrs))
        if 'not(feature="log")' in a and not want_log:
            return arms
    return None


# ------------------------------------------------------------------------------------------------

def tr_impl_values(fr, unrec, G):
    # --- the machinery macros, checked against their exact shapes
    d = macro_arms(fr, "impl_values")
    arms = d[0][1] if d else None
    if not arms or [(ws(p), ws(b)) for p, b in arms] != [("$($record:ident($($whatever:tt)+)),+", "$(impl_value!{$record($($whatever)+)})+")]:
        unrec.append("impl_values! definition")
    d = macro_arms(fr, "impl_value")
    arms = d[0][1] if d else None
    want = [("$record:ident($($value_ty:tt),+)", "$(impl_one_value!($value_ty,|this:$value_ty|this,$record);)+"),
            ("$record:ident($($value_ty:tt),+as$as_ty:ty)", "$(impl_one_value!($value_ty,|this:$value_ty|thisas$as_ty,$record);)+")]
    if not arms or [(ws(p), ws(b)) for p, b in arms] != want:
        unrec.append("impl_value! definition")
    # impl_one_value!: which types get only the `normal` impl, which `normal` + `nonzero`
    d = macro_arms(fr, "impl_one_value")
    arms = d[0][1] if d else None
    only_normal = []
    both_seen = False
    normal_ok = nonzero_ok = False
    if arms:
        for p, b in arms:
            wp, wb = ws(p), ws(b)
            m = re.fullmatch(r"(\w+),\$op:expr,\$record:ident", wp)
            if m and m.group(1) not in ("normal", "nonzero"):
                if wb == "impl_one_value!(normal,%s,$op,$record);" % m.group(1):
                    only_normal.append(m.group(1))
                else:
                    unrec.append("impl_one_value! arm for %s" % m.group(1))
            elif wp == "$value_ty:tt,$op:expr,$record:ident":
                if wb == "impl_one_value!(normal,$value_ty,$op,$record);impl_one_value!(nonzero,$value_ty,$op,$record);":
                    both_seen = True
                else:
                    unrec.append("impl_one_value! generic arm")
            elif wp == "normal,$value_ty:tt,$op:expr,$record:ident":
                b2 = re.sub(r"#\[[^\]]*\]", "", b)
                if ws(b2) == ("impl$crate::sealed::Sealedfor$value_ty{}impl$crate::field::Valuefor$value_ty{"
                              "fnrecord(&self,key:&$crate::field::Field,visitor:&mutdyn$crate::field::Visit){visitor.$record(key,$op(*self))}}"):
                    normal_ok = True
            elif wp == "nonzero,$value_ty:tt,$op:expr,$record:ident":
                b2 = re.sub(r"#\[[^\]]*\]", "", b)
                if ws(b2) == ("usenum::*;impl$crate::sealed::Sealedforty_to_nonzero!($value_ty){}impl$crate::field::Valueforty_to_nonzero!($value_ty){"
                              "fnrecord(&self,key:&$crate::field::Field,visitor:&mutdyn$crate::field::Visit){visitor.$record(key,$op(self.get()))}}"):
                    nonzero_ok = True
            else:
                unrec.append("impl_one_value! arm `%s`" % wp[:60])
    if not (arms and both_seen and normal_ok and nonzero_ok):
        unrec.append("impl_one_value! definition (normal: value = $op(*self); nonzero: value = $op(self.get()))")
    # ty_to_nonzero!
    d = macro_arms(fr, "ty_to_nonzero")
    arms = d[0][1] if d else None
    nz = []
    if arms:
        for p, b in arms:
            wp, wb = ws(p), ws(b)
            if wp in PRIMS and re.fullmatch(r"NonZero[UI]\w+", wb):
                nz.append((wp, wb))
            else:
                unrec.append("ty_to_nonzero! arm `%s => %s`" % (wp, wb))
    else:
        unrec.append("ty_to_nonzero! definition")
    # --- the invocation
    rows = []
    m = re.search(r"(?m)^impl_values!\s*\{", fr)
    if not m:
        unrec.append("impl_values! invocation")
    else:
        ob = fr.find("{", m.start())
        inv = fr[ob + 1:match_brace(fr, ob)]
        # split on top-level commas
        depth = 0
        cur = ""
        parts = []
        for ch in inv:
            if ch in "([":
                depth += 1
            elif ch in ")]":
                depth -= 1
            if ch == "," and depth == 0:
                parts.append(cur)
                cur = ""
            else:
                cur += ch
        if cur.strip():
            parts.append(cur)
        for part in parts:
            p = " ".join(part.split())
            mm = re.fullmatch(r"(record_\w+)\(\s*([\w,\s]+?)(?:\s+as\s+(\w+))?\s*\)", p)
            if not mm or mm.group(1) not in METHS:
                unrec.append("impl_values! row `%s`" % p)
                continue
            tys = [x.strip() for x in mm.group(2).split(",")]
            for ty in tys:
                if ty not in PRIMS or (mm.group(3) and mm.group(3) not in PRIMS):
                    unrec.append("impl_values! row `%s`: type `%s`" % (p, ty))
                    continue
                cast = "CastNone" if not mm.group(3) else "(CastAs %s)" % PRIMS[mm.group(3)]
                rows.append("(%s, %s, %s)" % (PRIMS[ty], METHS[mm.group(1)], cast))
    G.append("(* impl_values! { ... }: (value type, Visit method, cast applied to the value) *)")
    G.append("Definition gen_value_rows : list (prim * meth * cast) :=\n  [ " + "\n  ; ".join(rows) + " ].")
    G.append("(* impl_one_value!: types that get ONLY the plain impl (every other type also gets its NonZero twin) *)")
    G.append("Definition gen_only_normal : list prim :=\n  [" + "; ".join(PRIMS[x] for x in only_normal if x in PRIMS) + "].")
    G.append("(* ty_to_nonzero!: (primitive, name of the NonZero type as bytes) *)")
    G.append("Definition gen_nonzero_names : list (prim * string) :=\n  [" + "; ".join("(%s, %s)" % (PRIMS[a], coq_str(b)) for a, b in nz) + "].")


HAND = [
    # (Coq tag, regex on the whitespace-free impl header)
    ("HWrapping", r"impl<T:crate::field::Value>crate::field::ValueforWrapping<T>"),
    ("HStr", r"implValueforstr"),
    ("HBytes", r"implValuefor\[u8\]"),
    ("(HDynError false false)", r"implValuefordynstd::error::Error\+'static"),
    ("(HDynError true false)", r"implValuefordynstd::error::Error\+Send\+'static"),
    ("(HDynError false true)", r"implValuefordynstd::error::Error\+Sync\+'static"),
    ("(HDynError true true)", r"implValuefordynstd::error::Error\+Send\+Sync\+'static"),
    ("HRef", r"impl<'a,T:\?Sized>Valuefor&'aTwhereT:Value\+'a,"),
    ("HRefMut", r"impl<'a,T:\?Sized>Valuefor&'amutTwhereT:Value\+'a,"),
    ("HArguments", r"implValueforfmt::Arguments<'_>"),
    ("HBox", r"impl<T:\?Sized>Valueforalloc::boxed::Box<T>whereT:Value,"),
    ("HString", r"implValueforalloc::string::String"),
    ("HDisplayValue", r"impl<T>ValueforDisplayValue<T>whereT:fmt::Display,"),
    ("HDebugValue", r"impl<T:fmt::Debug>ValueforDebugValue<T>whereT:fmt::Debug,"),
    ("HEmpty", r"implValueforEmpty"),
]
BODIES = {
    "visitor.record_str(key,self)": "(BVisit MStr ASelf)",
    "visitor.record_bytes(key,self)": "(BVisit MBytes ASelf)",
    "visitor.record_error(key,self)": "(BVisit MError ASelf)",
    "visitor.record_debug(key,self)": "(BVisit MDebug ASelf)",
    "visitor.record_debug(key,&self.0)": "(BVisit MDebug ASelfDot0)",
    "visitor.record_str(key,self.as_str())": "(BVisit MStr ASelf)",
    "(selfas&dynstd::error::Error).record(key,visitor)": "(BDelegate DAsDynError)",
    "self.0.record(key,visitor)": "(BDelegate DField0)",
    "(*self).record(key,visitor)": "(BDelegate DDeref)",
    "T::record(self,key,visitor)": "(BDelegate DDeref)",
    "self.as_ref().record(key,visitor)": "(BDelegate DDeref)",
    "": "BNothing",
}


def tr_handwritten(fr, unrec, G):
    rows = []
    seen = set()
    for m in re.finditer(r"\bimpl\b", fr):
        ob = fr.find("{", m.start())
        if ob < 0:
            continue
        header = ws(fr[m.start():ob])
        if "Valuefor" not in header or header.startswith("impl$crate") or "macro" in header:
            continue
        if "$" in header:
            continue  # inside a macro definition (impl_one_value!)
        tag = None
        for t, rx in HAND:
            if re.fullmatch(rx, header):
                tag = t
                break
        if tag is None:
            unrec.append("impl Value header `%s`" % header[:90])
            continue
        body = fr[ob + 1:match_brace(fr, ob)]
        fs = fns_in(body)
        rec = fs.get("record")
        if not rec or rec[1] is None or len(fs) != 1:
            unrec.append("impl Value for %s: fn record" % tag)
            continue
        sig_ok = ws(rec[0]) in ("fnrecord(&self,key:&Field,visitor:&mutdynVisit)", "fnrecord(&self,_:&Field,_:&mutdynVisit)",
                                "fnrecord(&self,key:&crate::field::Field,visitor:&mutdyncrate::field::Visit)")
        b = ws(rec[1])
        if not sig_ok or b not in BODIES:
            unrec.append("impl Value for %s: body `%s`" % (tag, b[:80]))
            continue
        rows.append("(%s, %s)" % (tag, BODIES[b]))
        seen.add(tag)
    for t, _ in HAND:
        if t not in seen:
            unrec.append("impl Value for %s not found" % t)
    G.append("(* hand-written `impl Value for X { fn record }` bodies *)")
    G.append("Definition gen_hand_rows : list (hty * hbody) :=\n  [ " + "\n  ; ".join(rows) + " ].")
    # Debug / Display of the two wrappers and the constructors
    fm = []
    want = [("DisplayValue", "Debug", r"impl<T:fmt::Display>fmt::DebugforDisplayValue<T>", "fmt::Display::fmt(self,f)", "FDisplayOfSelf"),
            ("DisplayValue", "Display", r"impl<T:fmt::Display>fmt::DisplayforDisplayValue<T>", "self.0.fmt(f)", "FInnerDisplay"),
            ("DebugValue", "Debug", r"impl<T:fmt::Debug>fmt::DebugforDebugValue<T>", "self.0.fmt(f)", "FInnerDebug")]
    for wrapper, tr, rx, body, tag in want:
        ok = False
        for m in re.finditer(rx.replace("<", "\\s*<\\s*").replace(":", "\\s*:\\s*").replace("for", "\\s+for\\s+", 1), fr):
            pass
        for m in re.finditer(r"\bimpl\b", fr):
            ob = fr.find("{", m.start())
            if ob < 0:
                continue
            if re.fullmatch(rx, ws(fr[m.start():ob])):
                fs = fns_in(fr[ob + 1:match_brace(fr, ob)])
                f = fs.get("fmt")
                if f and f[1] is not None and ws(f[1]) == body and len(fs) == 1:
                    ok = True
        if ok:
            fm.append("(W%s, T%s, %s)" % (wrapper, tr, tag))
        else:
            unrec.append("impl %s for %s" % (tr, wrapper))
    G.append("(* (wrapper, trait implemented, what its fmt does) *)")
    G.append("Definition gen_wrapper_fmt : list (wrapper * ftrait * fmtimpl) :=\n  [" + "; ".join(fm) + "].")
    for fn, ctor in (("display", "DisplayValue"), ("debug", "DebugValue")):
        mm = re.search(r"pub fn %s<T>\(t: T\) -> %s<T>\s*where\s*T: fmt::\w+,\s*\{\s*%s\(t\)\s*\}" % (fn, ctor, ctor), fr)
        if not mm:
            unrec.append("fn %s(t) -> %s(t)" % (fn, ctor))


KEYS = [("$($k:ident).+", "KPath"), ("$k:literal", "KLit"), ("{$k:expr}", "KConst")]
SIGS = [("", "SNone"), ("?", "SDebug"), ("%", "SDisplay")]


def shape_table():
    """whitespace-free item pattern -> Coq `shape`"""
    t = {}
    for ks, kc in KEYS:
        for ss, sc in SIGS:
            t["%s=%s$val:expr" % (ks, ss)] = "(mk_shape %s true %s)" % (kc, sc)
    for ss, sc in SIGS:
        t["%s$($k:ident).+" % ss] = "(mk_shape KPath false %s)" % sc
    return t


def tr_valueset(mr, unrec, G):
    d = macro_arms(mr, "valueset")
    arms = d[0][1] if d and len(d) == 1 else None
    rows = []
    if not arms:
        unrec.append("valueset! definition")
        arms = []
    shapes = shape_table()
    PFX = "@{$(,)*$($out:expr),*},$next:expr,"
    srcs = {"$val": ("WPlain", "SrcVal"), "debug(&$val)": ("WDebug", "SrcVal"), "display(&$val)": ("WDisplay", "SrcVal"),
            "$($k).+": ("WPlain", "SrcKey"), "debug(&$($k).+)": ("WDebug", "SrcKey"), "display(&$($k).+)": ("WDisplay", "SrcKey")}
    base = entry = entry_empty = False
    for p, b in arms:
        wp, wb = ws(p), ws(b)
        if wp == "@{$(,)*$($val:expr),*$(,)*},$next:expr$(,)*":
            if wb == "&[$($val),*]":
                base = True
            else:
                unrec.append("valueset! base case body")
            continue
        if wp == "$fields:expr,$($kvs:tt)+":
            want = ('{#[allow(unused_imports)]use$crate::field::{debug,display,Value};letmutiter=$fields.iter();$fields.value_set($crate::valueset!('
                    '@{},$crate::__macro_support::Iterator::next(&mutiter).expect("FieldSetcorrupted(thisisabug)"),$($kvs)+))}')
            if wb == want:
                entry = True
            else:
                unrec.append("valueset! entry arm body")
            continue
        if wp == "$fields:expr,":
            if wb == "{$fields.value_set(&[])}":
                entry_empty = True
            else:
                unrec.append("valueset! empty entry arm body")
            continue
        if not wp.startswith(PFX):
            unrec.append("valueset! arm `%s`" % wp[:70])
            continue
        item = wp[len(PFX):]
        if item == "$($rest:tt)+":
            pat = "PRest"
        else:
            more = item.endswith(",$($rest:tt)*")
            core = item[:-len(",$($rest:tt)*")] if more else item
            if core not in shapes:
                unrec.append("valueset! arm pattern `%s`" % item[:70])
                continue
            pat = "(PItem %s %s)" % (shapes[core], "true" if more else "false")
        # body
        m = re.fullmatch(r"\$crate::valueset!\(@\{\$\(\$out\),\*,\(&\$next,(\$crate::__macro_support::Option::Some|Some)\(&(.+)as&dynValue\)\)\},\$next,(\$\(\$rest\)\*)?\)", wb)
        if m and m.group(2) in srcs:
            w, s = srcs[m.group(2)]
            cont = "ContRest" if m.group(3) else "ContNone"
            rows.append("(%s, VAppend %s %s, %s)" % (pat, w, s, cont))
            continue
        m = re.fullmatch(r"\$crate::valueset!\(@\{\(&\$next,(\$crate::__macro_support::Option::Some|Some)\(&\$crate::__macro_support::format_args!\(\$\(\$rest\)\+\)as&dynValue\)\),\$\(\$out\),\*\},\$next,\)", wb)
        if m:
            rows.append("(%s, VPrependFmt, ContNone)" % pat)
            continue
        m = re.fullmatch(r"\$crate::valueset!\(@\{\$\(\$out\),\*,\(&\$next,(\$crate::__macro_support::Option::Some|Some)\(&\$crate::__macro_support::format_args!\(\$\(\$rest\)\+\)as&dynValue\)\)\},\$next,\)", wb)
        if m:
            rows.append("(%s, VAppendFmt, ContNone)" % pat)
            continue
        unrec.append("valueset! arm body for `%s`: `%s`" % (item[:40], wb[:120]))
    if not (base and entry and entry_empty):
        unrec.append("valueset! frame (base case keeps order / entry pairs with FieldSet::iter / empty entry)")
    G.append("(* valueset! arms in source order: (pattern, emission, continuation) *)")
    G.append("Definition gen_valueset_arms : list (armpat * vemit * cont) :=\n  [ " + "\n  ; ".join(rows) + " ].")


def tr_fieldset(mr, unrec, G):
    d = macro_arms(mr, "fieldset")
    arms = d[0][1] if d and len(d) == 1 else None
    rows = []
    if not arms:
        unrec.append("fieldset! definition")
        arms = []
    shapes = shape_table()
    PFX = "@{$(,)*$($out:expr),*}"
    base = entry = False
    for p, b in arms:
        wp, wb = ws(p), ws(b)
        if wp == "@{$(,)*$($out:expr),*$(,)*}$(,)*":
            if wb == "&[$($out),*]":
                base = True
            else:
                unrec.append("fieldset! base case body")
            continue
        if wp == "$($args:tt)*":
            if wb == "$crate::fieldset!(@{}$($args)*,)":
                entry = True
            else:
                unrec.append("fieldset! entry arm body")
            continue
        if not wp.startswith(PFX):
            unrec.append("fieldset! arm `%s`" % wp[:70])
            continue
        item = wp[len(PFX):]
        if item == "$($rest:tt)+":
            pat = "PRest"
        else:
            more = item.endswith(",$($rest:tt)*")
            core = item[:-len(",$($rest:tt)*")] if more else item
            if core not in shapes:
                unrec.append("fieldset! arm pattern `%s`" % item[:70])
                continue
            pat = "(PItem %s %s)" % (shapes[core], "true" if more else "false")
        m = re.fullmatch(r"\$crate::fieldset!\(@\{\$\(\$out\),\*,(.+?)\}(\$\(\$rest\)\*)?\)", wb)
        if m and m.group(1) in ("$crate::__tracing_stringify!($($k).+)", "$k"):
            em = "FAppendStringify" if m.group(1) != "$k" else "FAppendKey"
            rows.append("(%s, %s, %s)" % (pat, em, "ContRest" if m.group(2) else "ContNone"))
            continue
        m = re.fullmatch(r'\$crate::fieldset!\(@\{("[^"]*"),\$\(\$out\),\*,\}\)', wb)
        if m:
            rows.append("(%s, FPrependLit %s, ContNone)" % (pat, m.group(1)))
            continue
        m = re.fullmatch(r'\$crate::fieldset!\(@\{\$\(\$out\),\*,("[^"]*"),?\}\)', wb)
        if m:
            rows.append("(%s, FAppendLit %s, ContNone)" % (pat, m.group(1)))
            continue
        unrec.append("fieldset! arm body for `%s`: `%s`" % (item[:40], wb[:120]))
    if not (base and entry):
        unrec.append("fieldset! frame (base case keeps order / entry appends a comma)")
    d = macro_arms(mr, "__tracing_stringify")
    a = d[0][1] if d and len(d) == 1 else None
    if not a or [(ws(p), ws(b)) for p, b in a] != [("$($t:tt)*", "stringify!($($t)*)")]:
        unrec.append("__tracing_stringify! definition")
    G.append("(* fieldset! arms in source order *)")
    G.append("Definition gen_fieldset_arms : list (armpat * femit * cont) :=\n  [ " + "\n  ; ".join(rows) + " ].")


PREFIX_RX = [("name", "name:$name:expr,"), ("target", "target:$target:expr,"), ("parent", "parent:$parent:expr,")]


def split_prefix(wp):
    pre = []
    rest = wp
    for nm, txt in PREFIX_RX:
        if rest.startswith(txt):
            pre.append(nm)
            rest = rest[len(txt):]
    return pre, rest


GCONJ = {"$lvl<=$crate::level_filters::STATIC_MAX_LEVEL": "GStaticMax",
         "$lvl<=$crate::level_filters::LevelFilter::current()": "GCurrentMax",
         "!interest.is_never()": "GInterestNotNever"}
IS_ENABLED_BODY = "interest.is_always()||crate::dispatch::get_default(|default|default.enabled(self.meta))"


def split_and(s):
    """top-level `&&` split of a whitespace-free expression"""
    out, cur, depth, i = [], "", 0, 0
    while i < len(s):
        ch = s[i]
        if ch in "([{":
            depth += 1
        elif ch in ")]}":
            depth -= 1
        if depth == 0 and s.startswith("&&", i):
            out.append(cur)
            cur = ""
            i += 2
            continue
        cur += ch
        i += 1
    out.append(cur)
    return out


def parse_conjuncts(s, i):
    """Conjuncts of `A && { .. } && B` starting at s[i]; stops at a top-level `;` or at the `{` that follows a
    non-block conjunct (the then-block).  Returns ([conjunct text], index where it stopped)."""
    conj = []
    while True:
        if s[i] == "{":
            j = match_brace(s, i)
            conj.append(s[i:j + 1])
            i = j + 1
        else:
            j, depth = i, 0
            while j < len(s):
                ch = s[j]
                if ch in "([":
                    depth += 1
                elif ch in ")]":
                    depth -= 1
                elif depth == 0 and (s.startswith("&&", j) or ch in "{;"):
                    break
                j += 1
            conj.append(s[i:j])
            i = j
        if s.startswith("&&", i):
            i += 2
            continue
        return conj, i


class GuardInfo:
    """What the guard conjuncts mean, read from `level_enabled!` and `MacroCallsite::is_enabled`."""
    def __init__(self):
        self.level_enabled = None      # list of gconj or None
        self.is_enabled_ok = False

    def conj(self, c, unrec, where):
        """one conjunct text -> list of gconj names (None if not recognised)"""
        if c == "$crate::level_enabled!($lvl)":
            return self.level_enabled
        if c in GCONJ:
            return [GCONJ[c]]
        if c == "__CALLSITE.is_enabled(interest)":
            return ["GAlwaysOrEnabled"] if self.is_enabled_ok else None
        m = re.fullmatch(r"\{(?:let)?interest=__CALLSITE\.interest\(\);(.*)\}", c)
        if m:
            out = []
            for x in split_and(m.group(1)):
                r = self.conj(x, unrec, where)
                if r is None:
                    return None
                out += r
            return out
        return None


def find_guard(wb, kind, ginfo, unrec, where):
    """(guard as list of gconj, index of the `{` opening the then-branch) of a base arm, or (None, -1)."""
    if kind == "event":
        gi = wb.find("letenabled=")
        if gi < 0:
            unrec.append("%s: guard" % where)
            return None, -1
        conj, i = parse_conjuncts(wb, gi + len("letenabled="))
        if not wb.startswith(";ifenabled{", i):
            unrec.append("%s: `if enabled {`" % where)
            return None, -1
        then_open = i + len(";ifenabled{") - 1
    else:
        pre = "letmutinterest=$crate::collect::Interest::never();if"
        gi = wb.find(pre)
        if gi < 0:
            unrec.append("%s: guard" % where)
            return None, -1
        conj, i = parse_conjuncts(wb, gi + len(pre))
        if i >= len(wb) or wb[i] != "{":
            unrec.append("%s: then-branch" % where)
            return None, -1
        then_open = i
    g = []
    for c in conj:
        r = ginfo.conj(c, unrec, where)
        if r is None:
            unrec.append("%s: guard conjunct `%s`" % (where, c[:80]))
            return None, -1
        g += r
    # the interest must be read before it is used
    if "GAlwaysOrEnabled" in g and "GInterestNotNever" in g and g.index("GAlwaysOrEnabled") < g.index("GInterestNotNever"):
        unrec.append("%s: is_enabled(interest) before the interest is read" % where)
        return None, -1
    return g, then_open


def classify_valuesets(body, kind, ginfo, unrec, where):
    """(guard, where every `valueset!(` of a base arm sits: (InThen | InElse | Outside, log_only?))."""
    wb = ws(body)
    g, then_open = find_guard(wb, kind, ginfo, unrec, where)
    if g is None:
        return None, None
    then_close = match_brace(wb, then_open)
    rest = wb[then_close + 1:]
    if not rest.startswith("else{"):
        unrec.append("%s: else branch" % where)
        return None, None
    else_open = then_close + 1 + 4
    else_close = match_brace(wb, else_open)
    # log-only regions: arguments of $crate::__tracing_log!( ... ) and $crate::if_log_enabled!{ ... }
    logregions = []
    for mm in re.finditer(r"\$crate::__tracing_log!\(|\$crate::if_log_enabled!\{", wb):
        o = mm.end() - 1
        c = match_brace(wb, o, wb[o], ")" if wb[o] == "(" else "}")
        if wb[o] == "(":
            # __tracing_log!($lvl, __CALLSITE, <value set>): only the third argument is an expression of ours
            args = wb[o + 1:c]
            if not args.startswith("$lvl,__CALLSITE,"):
                unrec.append("%s: __tracing_log! arguments `%s`" % (where, args[:60]))
            logregions.append((o, c, "InTracingLog"))
        else:
            if not wb[o + 1:c].startswith("$lvl,{"):
                unrec.append("%s: if_log_enabled! arguments" % where)
            logregions.append((o, c, "InIfLog"))
    out = []
    for mm in re.finditer(r"\$crate::valueset!\(", wb):
        i = mm.start()
        if then_open < i < then_close:
            br = "InThen"
        elif else_open < i < else_close:
            br = "InElse"
        else:
            br = "Outside"
        lgs = [k for o, c, k in logregions if o < i < c]
        if len(lgs) > 1:
            unrec.append("%s: nested log-only macros" % where)
        # the field tokens must be passed through unchanged
        o = mm.end() - 1
        c = match_brace(wb, o, "(", ")")
        arg = wb[o + 1:c]
        if arg not in ("meta.fields(),$($fields)*", "__CALLSITE.metadata().fields(),$($fields)*"):
            unrec.append("%s: valueset! arguments `%s`" % (where, arg[:60]))
        out.append("(%s, %s)" % (br, lgs[0] if lgs else "NoLog"))
    return g, out


LOGMODES = {'#[cfg(not(feature="log"))]': ["LogOff"], '#[cfg(feature="log")]': ["LogOn", "LogAlways"],
            '#[cfg(all(feature="log",not(feature="log-always")))]': ["LogOn"],
            '#[cfg(all(feature="log",feature="log-always"))]': ["LogAlways"]}
LOG_LETS = ["use$crate::log;", "letlevel=$crate::level_to_log!($level);",
            "letlog_meta=log::Metadata::builder().level(level).target(__CALLSITE.metadata().target()).build();",
            "letlogger=log::logger();"]
LOG_CONDS = {"$crate::level_to_log!($lvl)<=$crate::log::STATIC_MAX_LEVEL": ("LStaticOk", []),
             "!$crate::dispatch::has_been_set()": ("LNoDispatchEver", []),
             "level<=log::max_level()": ("LMaxLevelOk", [LOG_LETS[1]]),
             "logger.enabled(&log_meta)": ("LLoggerEnabled", [LOG_LETS[1], LOG_LETS[2], LOG_LETS[3]])}


def parse_ifs(s, lets):
    """`[let..;]* if C1 { [let..;]* if C2 { LEAF } [else {E2}] } [else {E1}]`  ->  ([C1, C2], LEAF, [E1, E2]) (None = no else);
    the allowed `let`/`use` statements met on the way are appended to `lets`."""
    again = True
    while again:
        again = False
        for l in LOG_LETS:
            if s.startswith(l):
                lets.append(l)
                s = s[len(l):]
                again = True
    if not s.startswith("if"):
        return [], s, []
    ob, depth = 2, 0
    while ob < len(s) and not (s[ob] == "{" and depth == 0):
        depth += s[ob] in "(["
        depth -= s[ob] in ")]"
        ob += 1
    if ob >= len(s):
        return None
    cb = match_brace(s, ob)
    rest = s[cb + 1:]
    els = None
    if rest.startswith("else{"):
        ecb = match_brace(rest, 4)
        els = rest[5:ecb]
        rest = rest[ecb + 1:]
    if rest:
        return None
    sub = parse_ifs(s[ob + 1:cb], lets)
    if sub is None:
        return None
    return [s[2:ob]] + sub[0], sub[1], [els] + sub[2]


def log_conds(conds, lets, unrec, where):
    out = []
    for c in conds:
        if c not in LOG_CONDS or any(l not in lets for l in LOG_CONDS[c][1]):
            unrec.append("%s: condition `%s`" % (where, c[:70]))
            return None
        out.append(LOG_CONDS[c][0])
    return out


def tr_log_macros(mr, unrec, G):
    """`if_log_enabled!` and `__tracing_log!` under each feature set: when does the log-only code run / evaluate its
    value-set argument?  None = the macro expands to nothing (or to its else block)."""
    iflog, tlog = {}, {}
    for attrs, arms in macro_arms(mr, "if_log_enabled"):
        modes = LOGMODES.get(ws("".join(a for a in attrs if "cfg" in a)))
        if not modes or not arms or len(arms) != 3 or \
                [(ws(p), ws(b)) for p, b in arms[:2]] != [("$lvl:expr,$e:expr;", "$crate::if_log_enabled!{$lvl,$e}"),
                                                          ("$lvl:expr,$if_log:block", "$crate::if_log_enabled!{$lvl,$if_logelse{}}")] or \
                ws(arms[2][0]) != "$lvl:expr,$if_log:blockelse$else_block:block":
            unrec.append("if_log_enabled! definition under %s" % ws("".join(attrs))[:60])
            continue
        body = ws(arms[2][1])
        if body == "$else_block":
            r = None
        else:
            lets = []
            pr = parse_ifs(body, lets)
            r = None
            if pr is None or pr[1] not in ("$if_log", "#[allow(unused_braces)]$if_log") or any(e != "$else_block" for e in pr[2]) or lets:
                unrec.append("if_log_enabled! body under %s" % modes)
                continue
            r = log_conds(pr[0], lets, unrec, "if_log_enabled! %s" % modes)
            if r is None:
                continue
        for m in modes:
            iflog[m] = r
    for attrs, arms in macro_arms(mr, "__tracing_log"):
        modes = LOGMODES.get(ws("".join(a for a in attrs if "cfg" in a)))
        if not modes or not arms or len(arms) != 1 or ws(arms[0][0]) != "$level:expr,$callsite:expr,$value_set:expr":
            unrec.append("__tracing_log! definition under %s" % ws("".join(attrs))[:60])
            continue
        body = ws(arms[0][1])
        if body == "":
            r = None
        else:
            m = re.fullmatch(r"\$crate::if_log_enabled!\{\$level,\{(.*)\}\}", body)
            lets = []
            pr = parse_ifs(m.group(1), lets) if m else None
            # the leaf is a call whose LAST argument is the value set: it is evaluated exactly when the call is reached, i.e.
            # under the conditions met on the way (whatever the callee then tests comes too late for the argument)
            if pr is None or not re.fullmatch(r"\$callsite\.log\((?:[^{};]*,)?\$value_set\)", pr[1]) or any(e is not None for e in pr[2]) \
                    or body.count("$value_set") != 1:
                unrec.append("__tracing_log! body under %s" % modes)
                continue
            r = log_conds(pr[0], lets, unrec, "__tracing_log! %s" % modes)
            if r is None:
                continue
        for m in modes:
            tlog[m] = r
    for name, tbl in (("if_log_enabled!", iflog), ("__tracing_log!", tlog)):
        if set(tbl) != {"LogOff", "LogOn", "LogAlways"}:
            unrec.append("%s: definitions for %s only" % (name, sorted(tbl)))
        elif tbl["LogOff"] is not None:
            unrec.append("%s is not empty with the `log` feature off" % name)

    def row(tbl):
        return "[" + "; ".join("(%s, %s)" % (m, "None" if tbl.get(m) is None else "Some [%s]" % "; ".join(tbl[m]))
                               for m in ("LogOff", "LogOn", "LogAlways") if m in tbl) + "]"
    G.append("(* if_log_enabled! { lvl, block }: conditions under which the block runs, per feature set (None: never) *)")
    G.append("Definition gen_if_log : list (logmode * option (list lcond)) := %s." % row(iflog))
    G.append("(* __tracing_log!(lvl, callsite, value_set): further conditions (inside if_log_enabled!) under which `value_set` is evaluated *)")
    G.append("Definition gen_tracing_log_arg : list (logmode * option (list lcond)) := %s." % row(tlog))


def tr_bodies(mr, lib, unrec, G):
    rows = []
    brace = []
    fwd_total = fwd_ok = 0
    # --- level_enabled!, is_enabled, the no-log stubs
    ginfo = GuardInfo()
    d = macro_arms(mr, "level_enabled")
    a = d[0][1] if d and len(d) == 1 else None
    if a and len(a) == 1 and ws(a[0][0]) == "$lvl:expr":
        cs = [GCONJ.get(c) for c in split_and(ws(a[0][1]))]
        if all(c in ("GStaticMax", "GCurrentMax") for c in cs):
            ginfo.level_enabled = cs
    if ginfo.level_enabled is None:
        unrec.append("level_enabled! definition")
    m = re.search(r"pub fn is_enabled\(&self, interest: Interest\) -> bool \{", lib)
    if m:
        ob = lib.find("{", m.end() - 1)
        ginfo.is_enabled_ok = ws(lib[ob + 1:match_brace(lib, ob)]) == IS_ENABLED_BODY
    if not ginfo.is_enabled_ok:
        unrec.append("MacroCallsite::is_enabled body")
    guards = []       # (where, guard) of every base arm
    tr_log_macros(mr, unrec, G)
    fwdmap = {}       # (mkind, input prefix set) -> set of output prefix sets of its forwarding arms

    def strip_frag(s):
        return re.sub(r":(?:expr|tt|ident|literal|ty|block)\b", "", s)

    def forwarder(macro, pre, rest, wb, level_txt, callees=None):
        """Is `wb` a single call of event!/span!/itself that passes the field tokens `rest` through in order?
        Returns the prefix set of the call ("name,target,parent" subset) or None."""
        m = re.fullmatch(r"\$crate::(\w+)!\((.*)\)", wb)
        if not m:
            return None
        callee, args = m.group(1), m.group(2)
        if callee not in (callees or (macro,)):
            return None
        r2 = strip_frag(rest)
        # output prefixes: same names in the same order; a missing target becomes module_path!()
        outs = []
        a = args
        for nm in ("name", "target", "parent"):
            mm = re.match(r"%s:(\$%s|module_path!\(\)),?" % (nm, nm), a)
            if mm:
                outs.append((nm, mm.group(1)))
                a = a[mm.end():]
        for nm in pre:
            if (nm, "$" + nm) not in outs:
                return None
        for nm, v in outs:
            if v.startswith("$") and nm not in pre:
                return None
        # level
        if level_txt is not None:
            if not a.startswith(level_txt + ","):
                return None
            a = a[len(level_txt) + 1:]
        cands = {"{" + r2 + "}", "{}," + r2, r2, r2 + ",", "{" + r2 + ",}"}
        if r2.startswith("$lvl,"):
            r3 = r2[5:]
            cands |= {"$lvl,{" + r3 + "}", "$lvl," + r3, "$lvl," + r3 + ",", "$lvl,{" + r3 + ",}"}
        if r2.startswith("$lvl,$name,") or r2.startswith("$name,"):
            cands |= {r2, r2 + ","}
        if r2 in ("$lvl,$name", "$name"):
            cands |= {r2 + ","}
        return ",".join(nm for nm, _ in outs) if a in cands else None

    # --- event!
    d = macro_arms(mr, "event")
    arms = d[0][1] if d and len(d) == 1 else None
    if not arms:
        unrec.append("event! definition")
        arms = []
    for p, b in arms:
        wp, wb = ws(p), ws(b)
        pre, rest = split_prefix(wp)
        ptxt = ",".join(pre)
        if rest == "$lvl:expr,{$($fields:tt)*}":
            g, vs = classify_valuesets(b, "event", ginfo, unrec, "event!(%s) base arm" % ptxt)
            if g is not None:
                guards.append(("event!(%s)" % ptxt, g))
            want_cs = ("static__CALLSITE:$crate::__macro_support::MacroCallsite=$crate::callsite2!{name:")
            if want_cs not in wb or "fields:$($fields)*};" not in wb:
                unrec.append("event!(%s): callsite2! field tokens" % ptxt)
            disp = "DEventChildOf" if "parent" in pre else "DEventDispatch"
            if ("$crate::Event::child_of($parent,meta,&value_set);" in wb) != ("parent" in pre) or \
               ("$crate::Event::dispatch(meta,&value_set);" in wb) == ("parent" in pre):
                unrec.append("event!(%s): dispatch call" % ptxt)
            if "(|value_set:$crate::field::ValueSet|{" not in wb:
                unrec.append("event!(%s): value_set closure" % ptxt)
            if vs is not None:
                rows.append("(MEvent, %s, [%s], %s)" % (coq_str(ptxt), "; ".join(vs), disp))
            continue
        if rest == "$lvl:expr,{$($fields:tt)*},$($arg:tt)+":
            m = re.fullmatch(r"\$crate::event!\((.*)\$lvl,\{(.*)\}\)", wb)
            ok_pre = False
            if m:
                outs = m.group(1)
                exp = "".join("%s:$%s," % (nm, nm) for nm in pre)
                if "target" not in pre:
                    exp = exp.replace("parent:$parent,", "target:module_path!(),parent:$parent,") if "parent" in pre else exp + "target:module_path!(),"
                    if "name" in pre:
                        exp = "".join("%s:$%s," % (nm, nm) for nm in pre)   # name-only arms keep their shape
                ok_pre = outs in (exp, "".join("%s:$%s," % (nm, nm) for nm in pre))
            if m and ok_pre and m.group(2) == "message=$crate::__macro_support::format_args!($($arg)+),$($fields)*":
                brace.append("(%s, MsgFirst)" % coq_str(ptxt))
            elif m and ok_pre and m.group(2) in ("$($fields)*,message=$crate::__macro_support::format_args!($($arg)+)",
                                                 "$($fields)*message=$crate::__macro_support::format_args!($($arg)+)"):
                brace.append("(%s, MsgLast)" % coq_str(ptxt))
            else:
                unrec.append("event!(%s): `{ fields }, fmt-args` arm body `%s`" % (ptxt, wb[:120]))
            continue
        fwd_total += 1
        o = forwarder("event", pre, rest, wb, None)
        if o is not None:
            fwd_ok += 1
            if o != ptxt:
                fwdmap.setdefault(("MEvent", ptxt), set()).add(o)
        else:
            unrec.append("event!(%s) forwarding arm `%s` => `%s`" % (ptxt, rest[:50], wb[:100]))
    # --- span!
    d = macro_arms(mr, "span")
    arms = d[0][1] if d and len(d) == 1 else None
    if not arms:
        unrec.append("span! definition")
        arms = []
    seen_base = set()
    for p, b in arms:
        wp, wb = ws(p), ws(b)
        pre, rest = split_prefix(wp)
        ptxt = ",".join(pre)
        if rest == "$lvl:expr,$name:expr,$($fields:tt)*" and "__CALLSITE" in wb:
            g, vs = classify_valuesets(b, "span", ginfo, unrec, "span!(%s) base arm" % ptxt)
            if g is not None:
                guards.append(("span!(%s)" % ptxt, g))
            if "fields:$($fields)*};" not in wb:
                unrec.append("span!(%s): callsite2! field tokens" % ptxt)
            if "parent" in pre:
                ok = "$crate::Span::child_of($parent,meta,&$crate::valueset!(meta.fields(),$($fields)*),)" in wb
                disp = "DSpanChildOf"
            else:
                ok = "$crate::Span::new(meta,&$crate::valueset!(meta.fields(),$($fields)*),)" in wb
                disp = "DSpanNew"
            if not ok:
                unrec.append("span!(%s): constructor call" % ptxt)
            if "letspan=__CALLSITE.disabled_span();" not in wb:
                unrec.append("span!(%s): disabled branch" % ptxt)
            if vs is not None and ptxt not in seen_base:
                rows.append("(MSpan, %s, [%s], %s)" % (coq_str(ptxt), "; ".join(vs), disp))
                seen_base.add(ptxt)
            continue
        fwd_total += 1
        o = forwarder("span", pre, rest, wb, None)
        if o is not None:
            fwd_ok += 1
            if o != ptxt:
                fwdmap.setdefault(("MSpan", ptxt), set()).add(o)
        else:
            unrec.append("span!(%s) forwarding arm `%s` => `%s`" % (ptxt, rest[:50], wb[:100]))
    # --- the level shorthands: every arm is a forwarder into event!/span! with the macro's own level
    for macro, lvl in (("trace", "TRACE"), ("debug", "DEBUG"), ("info", "INFO"), ("warn", "WARN"), ("error", "ERROR")):
        for suffix, callee in (("", "event"), ("_span", "span")):
            name = macro + suffix
            d = macro_arms(mr, name)
            arms = d[0][1] if d and len(d) == 1 else None
            if not arms:
                unrec.append("%s! definition" % name)
                continue
            for p, b in arms:
                wp, wb = ws(p), ws(b)
                pre, rest = split_prefix(wp)
                fwd_total += 1
                m = re.fullmatch(r"\$crate::(\w+)!\((.*)\)", wb)
                ok = False
                if m and m.group(1) == name:
                    ok = forwarder(name, pre, rest, wb, None) is not None       # `($name:expr) => trace_span!($name,)`
                elif m and m.group(1) == callee:
                    if callee == "event":
                        ok = forwarder(name, pre, rest, wb, "$crate::Level::%s" % lvl, callees=("event",)) is not None
                    else:
                        # span!(prefixes, Level, $name, fields)
                        r2 = strip_frag(rest)
                        a = m.group(2)
                        exp_pre = "".join("%s:$%s," % (nm, nm) for nm in pre)
                        alt_pre = ("target:module_path!()," if "target" not in pre else "") + exp_pre
                        if "target" not in pre and "parent" in pre:
                            alt_pre = "target:module_path!(),parent:$parent,"
                        for pp in (exp_pre, alt_pre):
                            if a == pp + "$crate::Level::%s," % lvl + r2:
                                ok = True
                if ok:
                    fwd_ok += 1
                else:
                    unrec.append("%s! arm `%s` => `%s`" % (name, wp[:60], wb[:100]))
    # --- enabled!: only fieldset! (through callsite2!), no valueset! anywhere
    d = macro_arms(mr, "enabled")
    arms = d[0][1] if d and len(d) == 1 else None
    en_ok = False
    if arms:
        for p, b in arms:
            wp, wb = ws(p), ws(b)
            if wp == "kind:$kind:expr,target:$target:expr,$lvl:expr,{$($fields:tt)*}":
                en_ok = ("valueset!" not in wb and "fields:$($fields)*};" in wb and wb.startswith("{if$crate::level_enabled!($lvl){")
                         and "letinterest=__CALLSITE.interest();if!interest.is_never()&&__CALLSITE.is_enabled(interest){letmeta=__CALLSITE.metadata();"
                             "$crate::dispatch::get_default(|current|current.enabled(meta))}else{false}}else{false}" in wb)
            elif "valueset!" in wb:
                unrec.append("enabled! arm uses valueset!")
    if not en_ok:
        unrec.append("enabled! base arm")
    # callsite2! hands the field tokens to fieldset! unchanged
    d = macro_arms(mr, "callsite2")
    arms = d[0][1] if d and len(d) == 1 else None
    cs_ok = False
    if arms:
        for p, b in arms:
            if ws(p) == "name:$name:expr,kind:$kind:expr,target:$target:expr,level:$lvl:expr,fields:$($fields:tt)*":
                cs_ok = "fields:$crate::fieldset!($($fields)*)," in ws(b)
    if not cs_ok:
        unrec.append("callsite2!: fields: $crate::fieldset!( $($fields)* )")
    # record_all!
    d = macro_arms(mr, "record_all")
    arms = d[0][1] if d and len(d) == 1 else None
    if not arms or [(ws(p), ws(b)) for p, b in arms] != [("$span:expr,$($fields:tt)*", "ifletSome(meta)=$span.metadata(){$span.record_all(&$crate::valueset!(meta.fields(),$($fields)*));}")]:
        unrec.append("record_all! definition")
    # the guard: every base arm must have the same one
    gl = sorted(set(tuple(g) for _, g in guards))
    if len(gl) != 1:
        unrec.append("base arms do not share one guard: %s" % "; ".join("%s: %s" % (w, "&&".join(g)) for w, g in guards)[:300])
    G.append("(* guard shared by every base arm, as the conjunction read from the arm, `level_enabled!` and MacroCallsite::is_enabled *)")
    G.append("Definition gen_guard : list gconj := [%s]." % "; ".join(guards[0][1] if guards else []))
    # prefix sets that are only forwarded (no base arm of their own): where they go
    frows = []
    for (k, pin), outs in sorted(fwdmap.items()):
        if len(outs) != 1:
            unrec.append("%s(%s) arms forward to different prefix sets: %s" % (k, pin, sorted(outs)))
        for o in sorted(outs):
            frows.append("(%s, %s, %s)" % (k, coq_str(pin), coq_str(o)))
    G.append("(* forwarding arms that change the prefix set: (macro, written prefixes, prefixes of the arm they call) *)")
    G.append("Definition gen_prefix_forward : list (mkind * string * string) :=\n  [ " + "\n  ; ".join(frows) + " ].")
    G.append("(* base arms: (macro, prefixes, where each valueset! sits = (branch, inside which log-only macro), how it dispatches) *)")
    G.append("Definition gen_bodies : list (mkind * string * list (branch * logwrap) * dispatch) :=\n  [ " + "\n  ; ".join(rows) + " ].")
    G.append("(* event!(.., { fields }, fmt-args) arms: where the message field is put *)")
    G.append("Definition gen_brace_fmt : list (string * msgpos) :=\n  [ " + "\n  ; ".join(brace) + " ].")
    G.append("(* arms that only pass their tokens on (event!/span! non-base arms and the ten level shorthands): recognised / total *)")
    G.append("Definition gen_forwarders : N * N := (%d, %d)." % (fwd_ok, fwd_total))


def tr_record(fr, sp, tf, unrec, G):
    # ValueSet::record
    checks = skips = False
    for mt, body, _, _ in find_blocks(fr, r"impl ValueSet<'_>\s*\{"):
        f = fns_in(body).get("record")
        if f and f[1] is not None:
            b = ws(f[1])
            if b == ("letmy_callsite=self.callsite();for(field,value)inself.values{iffield.callsite()!=my_callsite{continue;}"
                     "ifletSome(value)=value{value.record(field,visitor);}}"):
                checks = skips = True
            elif b == "for(field,value)inself.values{ifletSome(value)=value{value.record(field,visitor);}}" or \
                    b == "letmy_callsite=self.callsite();for(field,value)inself.values{ifletSome(value)=value{value.record(field,visitor);}}":
                skips = True
            else:
                unrec.append("ValueSet::record body")
    G.append("(* ValueSet::record: skips fields of another callsite? skips None values? *)")
    G.append("Definition gen_vs_record_checks_callsite : bool := %s." % ("true" if checks else "false"))
    G.append("Definition gen_vs_record_skips_none : bool := %s." % ("true" if skips else "false"))
    if not skips:
        unrec.append("ValueSet::record: `if let Some(value) = value`")
    # FieldSet::field
    ok = False
    for mt, body, _, _ in find_blocks(fr, r"impl FieldSet\s*\{"):
        f = fns_in(body).get("field")
        if f and f[1] is not None and ws(f[1]) == ("letname=&name.borrow();self.names.iter().position(|f|f==name).map(|i|Field{i,fields:FieldSet{"
                                                   "names:self.names,callsite:self.callsite(),},})"):
            ok = True
    if not ok:
        unrec.append("FieldSet::field body (first position whose name equals)")
    # Span::record
    ok = False
    m = re.search(r"pub fn record<Q, V>\(&self, field: &Q, value: V\) -> &Self", sp)
    if m:
        ob = sp.find("{", m.end())
        b = ws(sp[ob + 1:match_brace(sp, ob)])
        if b == ("ifletSome(meta)=self.meta{ifletSome(field)=field.as_field(meta){self.record_all(&meta.fields()"
                 ".value_set(&[(&field,Some(&valueas&dynfield::Value))]),);}}self"):
            ok = True
    if not ok:
        unrec.append("Span::record body")
    G.append("(* Span::record goes through AsField::as_field and records only when it answers Some *)")
    G.append("Definition gen_span_record_uses_as_field : bool := %s." % ("true" if ok else "false"))
    # AsField impls
    rows = []
    for hdr, tag, want, res in ((r"impl AsField for Field\s*\{", "AFField", "ifself.callsite()==metadata.callsite(){Some(self.clone())}else{None}", "AFSameCallsite"),
                                (r"impl AsField for &Field\s*\{", "AFFieldRef", "ifself.callsite()==metadata.callsite(){Some((*self).clone())}else{None}", "AFSameCallsite"),
                                (r"impl AsField for str\s*\{", "AFStr", "metadata.fields().field(&self)", "AFLookupName")):
        got = False
        for mt, body, _, _ in find_blocks(tf, hdr):
            f = fns_in(body).get("as_field")
            if f and f[1] is not None and ws(f[1]) == want:
                got = True
        if got:
            rows.append("(%s, %s)" % (tag, res))
        else:
            unrec.append("%s::as_field body" % hdr[:24])
    G.append("Definition gen_as_field : list (asfield_impl * asfield_how) :=\n  [" + "; ".join(rows) + "].")


HOOK_RX = re.compile(r"#\[cfg\((?:all\()?tracing_verif\b[^\]]*\]\s*[^;{}]*;")


def load(repo, rel):
    """Source text without comments and without verification hooks: those are add-only *statements* under
    `#[cfg(tracing_verif)]` / `#[cfg(all(tracing_verif, ..))]` (absent from a normal build; yield points that do
    nothing unless a callback is installed, which the C10 harness never does)."""
    return HOOK_RX.sub(" ", strip_comments(open(os.path.join(repo, rel)).read()))


def main(repo, out):
    unrec = []
    fr = load(repo, "tracing-core/src/field.rs")
    cut = fr.find("#[cfg(test)]\nmod test")
    if cut > 0:
        fr = fr[:cut]
    mr = load(repo, "tracing/src/macros.rs")
    sp = load(repo, "tracing/src/span.rs")
    lib = load(repo, "tracing/src/lib.rs")
    tf = load(repo, "tracing/src/field.rs")
    G = []
    G.append("(* GENERATED by translators/values.py from tracing-core/src/field.rs, tracing/src/{macros,span,lib,field}.rs.")
    G.append("   Rewritten on every run; do not edit. *)")
    G.append("From TV Require Import Fields.Syntax.")
    G.append("Local Open Scope string_scope.")
    G.append("Local Open Scope N_scope.")
    G.append("")
    for f, args in ((tr_impl_values, (fr,)), (tr_handwritten, (fr,)), (tr_valueset, (mr,)), (tr_fieldset, (mr,)),
                    (tr_bodies, (mr, lib)), (tr_record, (fr, sp, tf))):
        try:
            f(*args, unrec, G)
        except Exception as ex:  # a parse failure is an unrecognised shape, never a crash that hides the problem
            unrec.append("%s: exception %s" % (f.__name__, str(ex)[:120]))
    # every definition must exist even when a section failed
    text = "\n".join(G) + "\n"
    for name, ty, dflt in (("gen_value_rows", "list (prim * meth * cast)", "[]"), ("gen_only_normal", "list prim", "[]"),
                           ("gen_nonzero_names", "list (prim * string)", "[]"), ("gen_hand_rows", "list (hty * hbody)", "[]"),
                           ("gen_wrapper_fmt", "list (wrapper * ftrait * fmtimpl)", "[]"),
                           ("gen_valueset_arms", "list (armpat * vemit * cont)", "[]"), ("gen_fieldset_arms", "list (armpat * femit * cont)", "[]"),
                           ("gen_guard", "list gconj", "[]"), ("gen_prefix_forward", "list (mkind * string * string)", "[]"), ("gen_bodies", "list (mkind * string * list (branch * logwrap) * dispatch)", "[]"),
                           ("gen_if_log", "list (logmode * option (list lcond))", "[]"), ("gen_tracing_log_arg", "list (logmode * option (list lcond))", "[]"),
                           ("gen_brace_fmt", "list (string * msgpos)", "[]"), ("gen_forwarders", "N * N", "(0, 1)"),
                           ("gen_vs_record_checks_callsite", "bool", "false"), ("gen_vs_record_skips_none", "bool", "false"),
                           ("gen_span_record_uses_as_field", "bool", "false"), ("gen_as_field", "list (asfield_impl * asfield_how)", "[]")):
        if "Definition %s " % name not in text:
            text += "Definition %s : %s := %s.\n" % (name, ty, dflt)
    text += "Definition gen_unrecognised : list string :=\n  [" + "; ".join(coq_str(u) for u in unrec) + "].\n"
    return text, unrec


if __name__ == "__main__":
    repo = sys.argv[1] if len(sys.argv) > 1 else "/repo"
    text, unrec = main(repo, None)
    sys.stdout.write(text)
    if unrec:
        sys.stderr.write("UNRECOGNISED:\n  " + "\n  ".join(unrec) + "\n")
