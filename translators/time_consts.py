#!/usr/bin/env python3
"""translators/time_consts.py — the named constants of tracing-subscriber/src/fmt/time/datetime.rs
(`impl From<SystemTime> for DateTime`) as Coq definitions: coq/gen/Gen_time_consts.v.

Extracted (and nothing else): `const LEAPOCH`, `const DAYS_PER_400Y`, `const DAYS_PER_100Y`, `const DAYS_PER_4Y`
with their declared integer types, and the `static DAYS_IN_MONTH: [i8; 12]` table.  The initialisers are
constant expressions over integer literals, `+ - * /` and parentheses; they are evaluated here with Rust's
semantics (truncating division) by a tiny recursive-descent evaluator (no `eval`).

Fails closed: anything not of that exact shape is reported in the returned `unrecognised` list *and* in
`gen_time_unrecognised` of the generated file, and the constant is emitted as 0 / the table as [] so that
the theorems over Time/Musl.v (which takes its constants from here) no longer go through.

main(repo, out) -> (text, unrecognised)."""
import os
import re
import sys

HERE = os.path.dirname(os.path.abspath(__file__))
sys.path.insert(0, HERE)
from rsparse import strip_comments  # noqa: E402

SRC = "tracing-subscriber/src/fmt/time/datetime.rs"
CONSTS = ["LEAPOCH", "DAYS_PER_400Y", "DAYS_PER_100Y", "DAYS_PER_4Y"]
INT_TYPES = {"i8": "I8", "u8": "U8", "i32": "I32", "u32": "U32", "i64": "I64", "u64": "U64", "usize": "USIZE"}


class Unrec(Exception):
    pass


def const_eval(expr):
    """Integer constant expression: literals (with `_` separators and optional type suffix), + - * /,
    unary minus, parentheses.  Division truncates toward zero (Rust)."""
    toks = re.findall(r"\s*(\d[\d_]*(?:[iu](?:8|16|32|64|128|size))?|[-+*/()]|\S)", expr)
    pos = [0]

    def peek():
        return toks[pos[0]] if pos[0] < len(toks) else None

    def take():
        t = peek()
        pos[0] += 1
        return t

    def atom():
        t = take()
        if t is None:
            raise Unrec("unexpected end of `%s`" % expr)
        if t == "(":
            v = add()
            if take() != ")":
                raise Unrec("expected `)` in `%s`" % expr)
            return v
        if t == "-":
            return -atom()
        m = re.fullmatch(r"(\d[\d_]*?)(?:[iu](?:8|16|32|64|128|size))?", t)
        if not m:
            raise Unrec("token `%s` in `%s`" % (t, expr))
        return int(m.group(1).replace("_", ""))

    def mul():
        v = atom()
        while peek() in ("*", "/"):
            op = take()
            w = atom()
            if op == "*":
                v = v * w
            else:
                if w == 0:
                    raise Unrec("division by zero in `%s`" % expr)
                q = abs(v) // abs(w)
                v = q if (v >= 0) == (w >= 0) else -q
        return v

    def add():
        v = mul()
        while peek() in ("+", "-"):
            op = take()
            w = mul()
            v = v + w if op == "+" else v - w
        return v

    v = add()
    if peek() is not None:
        raise Unrec("trailing `%s` in `%s`" % (peek(), expr))
    return v


def extract(src):
    """-> (consts: {name: (type, value, text)}, table: (type, [values]) | None, unrecognised)."""
    unrec = []
    consts = {}
    # restrict to the body of `impl From<std::time::SystemTime> for DateTime`
    m = re.search(r"impl\s+From<\s*(?:std::time::)?SystemTime\s*>\s+for\s+DateTime\s*\{", src)
    if not m:
        unrec.append("impl From<SystemTime> for DateTime not found")
        body = src
    else:
        cut = src.find("#[cfg(test)]", m.end())
        body = src[m.end(): cut if cut > 0 else len(src)]
    for name in CONSTS:
        ms = list(re.finditer(r"\b(?:const|static)\s+%s\s*:\s*([a-z0-9]+)\s*=\s*([^;]+);" % name, body))
        if len(ms) != 1:
            unrec.append("%s: %d definitions found" % (name, len(ms)))
            continue
        ty, text = ms[0].group(1), " ".join(ms[0].group(2).split())
        if ty not in INT_TYPES:
            unrec.append("%s: type `%s`" % (name, ty))
            continue
        try:
            consts[name] = (ty, const_eval(text), text)
        except Unrec as ex:
            unrec.append("%s: %s" % (name, ex))
    table = None
    ms = list(re.finditer(r"\b(?:const|static)\s+DAYS_IN_MONTH\s*:\s*\[\s*([a-z0-9]+)\s*;\s*([^\]]+)\]\s*=\s*\[([^\]]*)\]\s*;", body))
    if len(ms) != 1:
        unrec.append("DAYS_IN_MONTH: %d definitions found" % len(ms))
    else:
        ty, n_text, items = ms[0].groups()
        try:
            if ty not in INT_TYPES:
                raise Unrec("element type `%s`" % ty)
            vals = [const_eval(x) for x in items.split(",") if x.strip()]
            n = const_eval(n_text)
            if n != len(vals):
                raise Unrec("declared length %d, %d initialisers" % (n, len(vals)))
            table = (ty, vals)
        except Unrec as ex:
            unrec.append("DAYS_IN_MONTH: %s" % ex)
    return consts, table, unrec


def main(repo, out=None):
    path = os.path.join(repo, SRC)
    try:
        src = strip_comments(open(path, encoding="utf-8").read())
        consts, table, unrec = extract(src)
    except OSError as ex:
        consts, table, unrec = {}, None, ["cannot read %s: %s" % (SRC, ex)]
    G = ["(* GENERATED by translators/time_consts.py from %s.  Rewritten on every run; do not edit. *)" % SRC,
         "From Coq Require Import ZArith List String.", "From TV Require Import Time.Ints.", "Import ListNotations.",
         "Local Open Scope Z_scope.", ""]
    for name in CONSTS:
        ty, val, text = consts.get(name, ("i64", 0, "<unrecognised>"))
        G.append("(* const %s: %s = %s; *)" % (name, ty, text))
        G.append("Definition %s : Z := %s." % (name, "(%d)" % val if val < 0 else "%d" % val))
        G.append("Definition %s_ty : ity := %s." % (name, INT_TYPES.get(ty, "I64")))
    ty, vals = table if table else ("i8", [])
    G.append("(* static DAYS_IN_MONTH: [%s; %d] *)" % (ty, len(vals)))
    G.append("Definition DAYS_IN_MONTH : list Z := [%s]." % "; ".join("(%d)" % v if v < 0 else "%d" % v for v in vals))
    G.append("Definition DAYS_IN_MONTH_ty : ity := %s." % INT_TYPES.get(ty, "I8"))
    G.append("")
    G.append("Definition gen_time_unrecognised : list string := [%s]."
             % "; ".join('"%s"%%string' % u.replace('"', "'") for u in unrec))
    text = "\n".join(G) + "\n"
    if out:
        with open(out, "w") as f:
            f.write(text)
    return text, unrec


if __name__ == "__main__":
    t, u = main(sys.argv[1] if len(sys.argv) > 1 else "/repo", sys.argv[2] if len(sys.argv) > 2 else None)
    if len(sys.argv) <= 2:
        sys.stdout.write(t)
    if u:
        print("UNRECOGNISED:", u, file=sys.stderr)
        sys.exit(2)
