#!/usr/bin/env python3
"""dispatch.rs, callsite.rs, collect.rs (tracing-core) + lib.rs, macros.rs, level_filters.rs (tracing)
       ->  coq/gen/Gen_dispatch.v                                                       (C01, C02)

Reads, as *data*, the shapes Dispatch/Model.v mirrors by hand (coq/theories/Dispatch/Shape.v gives the data its
meaning, Dispatch/Proofs_Shape.v proves the meaning equal to the hand-written model):

  C02  * what get_default_slow / Entered::current do when the thread-local default is None, what State::set_default
         keeps as the guard's prior, what Drop for DefaultGuard restores            -> the model's variant switch fx
         (all four repaired -> true, all four as before fix aa353f7 -> false, any mixture / anything else -> Unknown)
       * get_default's fast path, the SCOPED_COUNT bookkeeping, the GLOBAL_INIT constants, the compare-exchange /
         store / publish shape of set_global_default, get_global's test, with_default = guard, get_current
  C01  * level_enabled! (relations and operands), the guards of every callsite-declaring arm of event! / span! /
         enabled!, the interest byte constants and the arms of MacroCallsite::interest / register / set_interest /
         is_enabled, Interest::and, InterestKind discriminants, callsite::register / register_dispatch /
         rebuild_interest_cache / rebuild_callsite_interest / rebuild_interest, the STATIC_MAX_LEVEL feature table

Not a Rust parser: comments and `#[cfg(tracing_verif)] …yield_point(n);` hook statements are removed, whitespace is
squashed, and each function body must match the one or two shapes known here.  Everything else is `…Unknown` in the
generated file plus an entry in the returned `unrecognised` list (fail closed: the pinned theorems then fail).

main(repo, None) -> (text of coq/gen/Gen_dispatch.v, unrecognised list);  shapes(repo) -> the readings as Python data."""
import os
import re
import sys

sys.path.insert(0, os.path.dirname(os.path.abspath(__file__)))
import rsparse  # noqa: E402

HOOK_RE = re.compile(r"#\[cfg\((?:all\(\s*)?tracing_verif[^\]]*\]\s*(?:crate|tracing_core)::__verif::yield_point\(\s*\d+\s*\)\s*;")
ORD = r"Ordering::\w+"
LEVEL_RANK = {"OFF": 0, "ERROR": 1, "WARN": 2, "INFO": 3, "DEBUG": 4, "TRACE": 5}
REL = {"<": "RLt", "<=": "RLe", ">": "RGt", ">=": "RGe"}


def squash(s):
    return re.sub(r"\s+", "", HOOK_RE.sub("", s))


def read_src(repo, rel, unrec):
    try:
        return rsparse.strip_comments(open(os.path.join(repo, rel), encoding="utf-8").read())
    except OSError as ex:
        unrec.append("cannot read %s: %s" % (rel, ex))
        return ""


def all_fns(src):
    """[(name, signature, body)] for every fn item with a body, outermost only (nested fns stay inside their parent)."""
    out = []
    pos = 0
    while True:
        m = rsparse.FN_RE.search(src, pos)
        if not m:
            break
        try:
            op = src.find("(", m.end() - 1)
            cp = rsparse.match_brace(src, op, "(", ")")
            j = cp + 1
            while j < len(src) and src[j] not in "{;":
                j += 1
            if j >= len(src):
                break
            if src[j] == ";":
                pos = j + 1
                continue
            cb = rsparse.match_brace(src, j)
        except (ValueError, AssertionError):
            pos = m.end()
            continue
        out.append((m.group(1), src[m.start():j], src[j + 1:cb]))
        pos = cb + 1
    return out


def fn_bodies(src, name):
    return [b for (n, _, b) in all_fns(src) if n == name]


def block_after(src, header_re):
    """Body of the first `header {…}` block, or None."""
    for _, body, _, _ in rsparse.find_blocks(src, header_re):
        return body
    return None


def const_usize(src, name, unrec, where, ty=r"\w+"):
    m = re.findall(r"\bconst\s+%s\s*:\s*%s\s*=\s*(0x[0-9a-fA-F]+|\d+)\s*;" % (re.escape(name), ty), src)
    if len(m) != 1:
        unrec.append("%s: const %s not found exactly once" % (where, name))
        return None
    return int(m[0], 0)


# ------------------------------------------------------------------------------------------------
# tracing-core/src/dispatch.rs

def read_dispatch(repo, unrec):
    W = "dispatch.rs"
    src = read_src(repo, "tracing-core/src/dispatch.rs", unrec)
    d = {"slow": "NoneUnknown", "current": "NoneUnknown", "prior": "PriorUnknown", "restore": "RestoreUnknown",
         "fast": "FastUnknown", "incr": False, "decr": False, "consts": (0, 0, 0), "setg": "CasUnknown",
         "needs": "None", "withdef": False, "getcur": False, "slow_guard": "GuardUnknown", "current_guard": "GuardUnknown", "sd_enters": False,
         "open_dead": False, "close_dead": False}

    def one(name, pred=None):
        bs = [b for b in fn_bodies(src, name) if pred is None or pred(b)]
        if len(bs) != 1:
            unrec.append("%s: fn %s: expected exactly one definition%s, found %d" % (W, name, " of the std variant" if pred else "", len(bs)))
            return None
        return squash(bs[0])

    # get_default (std variant: the one that mentions SCOPED_COUNT or get_default_slow)
    b = one("get_default", lambda x: "SCOPED_COUNT" in x or "get_default_slow" in x)
    if b is not None:
        if re.fullmatch(r"ifSCOPED_COUNT\.load\(%s\)==0\{returnf\(get_global\(\)\);\}get_default_slow\(f\)" % ORD, b):
            d["fast"] = "FastWhenNoScope"
        else:
            unrec.append("%s: get_default: fast-path shape not recognised" % W)
    # get_default_slow: the None case (variant switch) and how the re-entrancy flag `can_enter` is set back
    b = one("get_default_slow")
    if b is not None:
        CORE_NEW = "Some(default)=>f(default),None=>f(get_global()),"
        TAIL = r"\}f\(&Dispatch::none\(\)\)\}\)\.unwrap_or_else\(\|_\|f\(&Dispatch::none\(\)\)\)"
        m = re.fullmatch(r"structEntered<'a>\(&'aCell<bool>\);implDropforEntered<'_>\{(?:#\[inline\])?fndrop\(&mutself\)\{self\.0\.set\(true\);\}\}"
                         r"CURRENT_STATE\.try_with\(\|state\|\{ifstate\.can_enter\.replace\(false\)\{let_guard=Entered\(&state\.can_enter\);(.*)" + TAIL, b)
        m2 = re.fullmatch(r"CURRENT_STATE\.try_with\(\|state\|\{ifstate\.can_enter\.replace\(false\)\{letresult=match&\*state\.default\.borrow\(\)\{(.*)\};"
                          r"state\.can_enter\.set\(true\);returnresult;" + TAIL, b)
        if m:
            core = m.group(1)
            d["slow_guard"] = "GuardRaiiDrop"
            if core == "letdefault=state.default.borrow();returnmatch&*default{" + CORE_NEW + "};":
                d["slow"] = "NoneUsesGlobal"
            elif core == "letmutdefault=state.default.borrow_mut();letdefault=default.get_or_insert_with(||get_global().clone());returnf(&*default);":
                d["slow"] = "NoneCachesGlobal"
            else:
                unrec.append("%s: get_default_slow: shape not recognised" % W)
        elif m2 and m2.group(1) == CORE_NEW:
            # recognised, and read as what it is: the flag is set back by a plain statement, i.e. not when the callback unwinds
            d["slow"] = "NoneUsesGlobal"
            d["slow_guard"] = "GuardResetOnReturn"
            unrec.append("%s: get_default_slow: `can_enter` is set back by a plain statement after the callback, not by a guard's Drop (not restored on unwind)" % W)
        else:
            unrec.append("%s: get_default_slow: shape not recognised" % W)
    # Entered::current
    imp = block_after(src, r"impl\s*<\s*'a\s*>\s*Entered\s*<\s*'a\s*>\s*")
    cur = [squash(x) for x in fn_bodies(imp or "", "current")]
    if len(cur) != 1:
        unrec.append("%s: impl Entered: fn current not found exactly once" % W)
    elif cur[0] == "letdefault=self.0.default.borrow();Ref::map(default,|default|matchdefault{Some(default)=>default,None=>get_global(),})":
        d["current"] = "NoneUsesGlobal"
    elif cur[0] == "letdefault=self.0.default.borrow_mut();RefMut::map(default,|default|{default.get_or_insert_with(||get_global().clone())})":
        d["current"] = "NoneCachesGlobal"
    else:
        unrec.append("%s: Entered::current: shape not recognised" % W)
    # State::set_default
    imp = block_after(src, r"impl\s+State\s*")
    sd = [squash(x) for x in fn_bodies(imp or "", "set_default")]
    if len(sd) != 1:
        unrec.append("%s: impl State: fn set_default not found exactly once" % W)
    else:
        m = re.fullmatch(r"letprior=CURRENT_STATE\.try_with\(\|state\|\{state\.can_enter\.set\(true\);state\.default\.replace\(Some\(new_dispatch\)\)"
                         r"(\.unwrap_or_else\(\|\|get_global\(\)\.clone\(\)\))?\}\)\.ok\(\)(\.flatten\(\))?;"
                         r"EXISTS\.store\(true,%s\);(SCOPED_COUNT\.fetch_add\(1,%s\);)?DefaultGuard\(prior\)" % (ORD, ORD), sd[0])
        # the same with the bookkeeping INSIDE the try_with closure: not executed when the thread-local is already destroyed
        m_in = re.fullmatch(r"letprior=CURRENT_STATE\.try_with\(\|state\|\{state\.can_enter\.set\(true\);letprior=state\.default\.replace\(Some\(new_dispatch\)\);"
                            r"EXISTS\.store\(true,%s\);SCOPED_COUNT\.fetch_add\(1,%s\);prior\}\)\.ok\(\)\.flatten\(\);DefaultGuard\(prior\)" % (ORD, ORD), sd[0])
        if m_in:
            d["prior"] = "PriorIsOption"
            d["incr"] = True
            d["open_dead"] = False
            unrec.append("%s: State::set_default increments SCOPED_COUNT inside the try_with closure: a scope opened while the thread-local is destroyed is not counted (its guard's drop still decrements)" % W)
        elif not m:
            unrec.append("%s: State::set_default: shape not recognised" % W)
        else:
            d["open_dead"] = True
            if m.group(1) is None and m.group(2) is not None:
                d["prior"] = "PriorIsOption"
            elif m.group(1) is not None and m.group(2) is None:
                d["prior"] = "PriorOrGlobalClone"
            else:
                unrec.append("%s: State::set_default: prior is neither the plain option nor the cloned global" % W)
            d["incr"] = m.group(3) is not None
            if not d["incr"]:
                unrec.append("%s: State::set_default does not increment SCOPED_COUNT" % W)
    # Drop for DefaultGuard
    imp = block_after(src, r"impl\s+Drop\s+for\s+DefaultGuard\s*")
    dr = [squash(x) for x in fn_bodies(imp or "", "drop")]
    if len(dr) != 1:
        unrec.append("%s: impl Drop for DefaultGuard: fn drop not found exactly once" % W)
    else:
        m = re.fullmatch(r"(SCOPED_COUNT\.fetch_sub\(1,%s\);)?(.*)" % ORD, dr[0])
        rest = m.group(2)
        d["decr"] = m.group(1) is not None
        d["close_dead"] = d["decr"]        # the recognised shapes decrement before (outside) the try_with
        if not d["decr"]:
            unrec.append("%s: DefaultGuard::drop does not decrement SCOPED_COUNT" % W)
        if rest == "letprev=CURRENT_STATE.try_with(|state|state.default.replace(self.0.take()));drop(prev)":
            d["restore"] = "RestoreAlways"
        elif rest == "ifletSome(dispatch)=self.0.take(){letprev=CURRENT_STATE.try_with(|state|state.default.replace(Some(dispatch)));drop(prev)}":
            d["restore"] = "RestoreIfSome"
        else:
            unrec.append("%s: DefaultGuard::drop: restore shape not recognised" % W)
    # constants, set_global_default, get_global
    cs = {n: const_usize(src, n, unrec, W, "usize") for n in ("UNINITIALIZED", "INITIALIZING", "INITIALIZED")}
    if None not in cs.values():
        d["consts"] = (cs["UNINITIALIZED"], cs["INITIALIZING"], cs["INITIALIZED"])
    if not re.search(r"static\s+GLOBAL_INIT\s*:\s*AtomicUsize\s*=\s*AtomicUsize::new\(\s*UNINITIALIZED\s*\)\s*;", src):
        unrec.append("%s: GLOBAL_INIT is not initialised with UNINITIALIZED" % W)
        d["consts"] = (0, 0, 0)
    if not re.search(r"static\s+SCOPED_COUNT\s*:\s*AtomicUsize\s*=\s*AtomicUsize::new\(\s*0\s*\)\s*;", src):
        unrec.append("%s: SCOPED_COUNT is not initialised with 0" % W)
        d["fast"] = "FastUnknown"
    # H3 call sites inside set_global_default (hooks/H3_dispatch_global.patch): Python-side only, enables the forced-schedule leg
    # of C02.  Read from the untouched file text (rsparse.strip_comments removes verification hooks before recognition).
    d["hooks_setglobal"] = []
    try:
        rawtxt = open(os.path.join(repo, "tracing-core/src/dispatch.rs"), encoding="utf-8").read()
        m = re.search(r"pub fn set_global_default\b.*?\n\}\n", rawtxt, re.S)
        if m:
            d["hooks_setglobal"] = [int(x) for x in re.findall(r"__verif::yield_point\(\s*(\d+)\s*\)", m.group(0))]
    except OSError:
        pass
    b = one("set_global_default")
    if b is not None:
        m = re.fullmatch(r"ifGLOBAL_INIT\.compare_exchange\((\w+),(\w+),%s,%s,?\)\.is_ok\(\)\{(.*)unsafe\{GLOBAL_DISPATCH=Dispatch\{collector\};\}"
                         r"GLOBAL_INIT\.store\((\w+),%s\);EXISTS\.store\(true,%s\);Ok\(\(\)\)\}else\{Err\(SetGlobalDefaultError\{_no_construct:\(\)\}\)\}"
                         % (ORD, ORD, ORD, ORD), b)
        if m and not re.search(r"GLOBAL_INIT|GLOBAL_DISPATCH|return|\?;", m.group(3)) and all(x in cs and cs[x] is not None for x in (m.group(1), m.group(2), m.group(4))):
            d["setg"] = "CasStorePublish %d %d %d" % (cs[m.group(1)], cs[m.group(2)], cs[m.group(4)])
        else:
            unrec.append("%s: set_global_default: compare-exchange / store / publish shape not recognised" % W)
    b = one("get_global")
    if b is not None:
        m = re.fullmatch(r"ifGLOBAL_INIT\.load\(%s\)!=(\w+)\{return&NONE;\}unsafe\{(?:#\[allow\(static_mut_refs\)\])?&GLOBAL_DISPATCH\}" % ORD, b)
        if m and cs.get(m.group(1)) is not None:
            d["needs"] = "(Some %d)" % cs[m.group(1)]
        else:
            unrec.append("%s: get_global: shape not recognised" % W)
    b1, b2 = one("with_default"), None
    pub_sd = [squash(x) for (n, sig, x) in all_fns(src) if n == "set_default" and re.search(r"\(\s*dispatcher\s*:\s*&Dispatch\s*\)", sig)]
    if b1 == "let_guard=set_default(dispatcher);f()" and pub_sd == ["State::set_default(dispatcher.clone())"]:
        d["withdef"] = True
    else:
        unrec.append("%s: with_default / set_default: not `let _guard = set_default(d); f()` over State::set_default(d.clone())" % W)
    gc = [squash(x) for x in fn_bodies(src, "get_current") if "CURRENT_STATE" in x]
    ent = [squash(x) for x in fn_bodies(imp_state(src), "enter")]
    if gc == ["CURRENT_STATE.try_with(|state|{letentered=state.enter()?;Some(f(&entered.current()))}).ok()?"] and \
            ent == ["ifself.can_enter.replace(false){Some(Entered(self))}else{None}"]:
        d["getcur"] = True
        # the module-level guard of get_current: `impl Drop for Entered<'_> { fn drop(&mut self) { self.0.can_enter.set(true); } }`
        drops = [[squash(x) for x in fn_bodies(body, "drop")] for _, body, _, _ in rsparse.find_blocks(src, r"impl\s+Drop\s+for\s+Entered\s*<\s*'_\s*>\s*")]
        if ["self.0.can_enter.set(true);"] in drops:
            d["current_guard"] = "GuardRaiiDrop"
        else:
            unrec.append("%s: Drop for Entered: does not set can_enter back" % W)
    else:
        unrec.append("%s: get_current / State::enter: shape not recognised" % W)
    # CURRENT_STATE's destruction must only drop the default: no `impl Drop for State` (the guards do all the SCOPED_COUNT bookkeeping)
    if re.search(r"impl\s+Drop\s+for\s+State\b", src):
        unrec.append("%s: State has a Drop impl: the model assumes that destroying the thread-local only drops the installed default" % W)
        d["close_dead"] = False
    d["sd_enters"] = d["prior"] != "PriorUnknown"     # the recognised shapes of State::set_default begin with `state.can_enter.set(true);`
    return d


def imp_state(src):
    return block_after(src, r"impl\s+State\s*") or ""


# ------------------------------------------------------------------------------------------------
# tracing/src/macros.rs

GUARD_EVENT = r"letenabled=\$crate::level_enabled!\(\$lvl\)&&\{letinterest=__CALLSITE\.interest\(\);!interest\.is_never\(\)&&__CALLSITE\.is_enabled\(interest\)\};ifenabled\{"
GUARD_SPAN = (r"letmutinterest=\$crate::collect::Interest::never\(\);if\$crate::level_enabled!\(\$lvl\)&&\{interest=__CALLSITE\.interest\(\);!interest\.is_never\(\)\}"
              r"&&__CALLSITE\.is_enabled\(interest\)\{")
GUARD_ENABLED = r"letinterest=__CALLSITE\.interest\(\);if!interest\.is_never\(\)&&__CALLSITE\.is_enabled\(interest\)\{"


def macro_body(src, name):
    return block_after(src, r"macro_rules!\s*%s\s*" % re.escape(name))


def callsite_segments(body):
    """Squashed text from each `static __CALLSITE … = $crate::callsite2! {…};` (exclusive) to the next one / the end."""
    sq = squash(body)
    starts = [m.start() for m in re.finditer(r"static__CALLSITE:", sq)]
    segs = []
    for i, st in enumerate(starts):
        end = starts[i + 1] if i + 1 < len(starts) else len(sq)
        seg = sq[st:end]
        ob = seg.find("callsite2!{")
        if ob < 0:
            segs.append((sq[:st], None))
            continue
        try:
            cb = rsparse.match_brace(seg, ob + len("callsite2!"))
        except (ValueError, AssertionError):
            segs.append((sq[:st], None))
            continue
        after = seg[cb + 1:]
        segs.append((sq[:st], after[1:] if after.startswith(";") else None))
    return segs


def guarded_block(seg, guard_re):
    """If seg starts with the guard, return (text of the guarded `{…}` block, text after it)."""
    m = re.match(guard_re, seg)
    if not m:
        return None
    ob = m.end() - 1
    try:
        cb = rsparse.match_brace(seg, ob)
    except (ValueError, AssertionError):
        return None
    return seg[ob + 1:cb], seg[cb + 1:]


def read_macros(repo, unrec):
    W = "macros.rs"
    src = read_src(repo, "tracing/src/macros.rs", unrec)
    g = {"level": None, "event": (0, 0), "span": (0, 0), "enabled": (0, 0)}
    # level_enabled!
    body = macro_body(src, "level_enabled")
    conj = None
    if body is not None:
        m = re.fullmatch(r"\(\$lvl:expr\)=>\{(.*)\};?", squash(body))
        if m:
            conj = []
            for c in m.group(1).split("&&"):
                mm = re.fullmatch(r"\$lvl(<=|<|>=|>)\$crate::level_filters::(STATIC_MAX_LEVEL|LevelFilter::current\(\))", c)
                if not mm:
                    conj = None
                    break
                conj.append((REL[mm.group(1)], "OpStaticMax" if mm.group(2) == "STATIC_MAX_LEVEL" else "OpCurrentMax"))
    if conj is None:
        unrec.append("%s: level_enabled!: not a conjunction of `$lvl REL STATIC_MAX_LEVEL | LevelFilter::current()`" % W)
    g["level"] = conj
    # event!
    body = macro_body(src, "event")
    n = ok = 0
    for _, seg in callsite_segments(body or ""):
        n += 1
        r = guarded_block(seg, GUARD_EVENT) if seg else None
        if r is None:
            continue
        inside, after = r
        # exactly one dispatch, inside the guarded block; the else branch only logs
        if len(re.findall(r"\$crate::Event::(?:dispatch|child_of)\(", inside)) == 1 and "Event::" not in after and after.startswith("else{"):
            ok += 1
    g["event"] = (n, ok)
    if n == 0 or n != ok:
        unrec.append("%s: event!: %d callsite-declaring arms, %d with the recognised guard" % (W, n, ok))
    # span!
    body = macro_body(src, "span")
    n = ok = 0
    for _, seg in callsite_segments(body or ""):
        n += 1
        r = guarded_block(seg, GUARD_SPAN) if seg else None
        if r is None:
            continue
        inside, after = r
        if len(re.findall(r"\$crate::Span::(?:new|child_of)\(", inside)) == 1 and "Span::new(" not in after and "Span::child_of(" not in after \
                and after.startswith("else{letspan=__CALLSITE.disabled_span();"):
            ok += 1
    g["span"] = (n, ok)
    if n == 0 or n != ok:
        unrec.append("%s: span!: %d callsite-declaring arms, %d with the recognised guard" % (W, n, ok))
    # enabled!
    body = macro_body(src, "enabled")
    n = ok = 0
    for before, seg in callsite_segments(body or ""):
        n += 1
        r = guarded_block(seg, GUARD_ENABLED) if seg else None
        if r is None:
            continue
        inside, after = r
        if inside == "letmeta=__CALLSITE.metadata();$crate::dispatch::get_default(|current|current.enabled(meta))" \
                and after.startswith("else{false}}else{false}") \
                and re.search(r"if\$crate::level_enabled!\(\$lvl\)\{use\$crate::__macro_support::Callsiteas_;$", before):
            ok += 1
    g["enabled"] = (n, ok)
    if n == 0 or n != ok:
        unrec.append("%s: enabled!: %d callsite-declaring arms, %d with the recognised guard" % (W, n, ok))
    return g


# ------------------------------------------------------------------------------------------------
# tracing/src/lib.rs (MacroCallsite), tracing-core/src/collect.rs (Interest), callsite.rs, level_filters.rs

INTEREST_CTOR = {"Interest::never()": "never", "Interest::sometimes()": "sometimes", "Interest::always()": "always"}


def read_lib(repo, unrec):
    W = "lib.rs"
    src = read_src(repo, "tracing/src/lib.rs", unrec)
    g = {"bytes": (0, 0, 0, 0), "iarms": [], "idef": "BRegister", "rarms": [], "rdef": "sometimes", "set": (0, 0, 0), "isen": "IsEnabledUnknown"}
    names = ("INTEREST_NEVER", "INTEREST_SOMETIMES", "INTEREST_ALWAYS", "INTEREST_EMPTY")
    cs = {n: const_usize(src, n, unrec, W, "u8") for n in names}
    good_consts = None not in cs.values()
    if good_consts:
        g["bytes"] = tuple(cs[n] for n in names)
    if not re.search(r"interest\s*:\s*AtomicU8::new\(\s*Self::INTEREST_EMPTY\s*\)", src):
        unrec.append("%s: MacroCallsite::new does not start the interest byte at INTEREST_EMPTY" % W)
        good_consts = False
    imp = block_after(src, r"impl\s+MacroCallsite\s*<\s*&'static\s+dyn\s+Callsite\s*>\s*") or ""

    def arms_of(text, what, allow):
        m = re.fullmatch(r"matchself\.interest\.load\(%s\)\{(.*)\}" % ORD, text)
        if not m or not good_consts:
            unrec.append("%s: %s: not a match on the interest byte" % (W, what))
            return None
        arms, dflt = [], None
        for p, e in rsparse.match_arms(m.group(1)):
            e = e.strip()
            if e not in allow:
                unrec.append("%s: %s: arm `%s => %s` not recognised" % (W, what, p, e))
                return None
            if p == "_":
                dflt = allow[e]
            else:
                mm = re.fullmatch(r"Self::(INTEREST_\w+)", p)
                if not mm or mm.group(1) not in cs:
                    unrec.append("%s: %s: pattern `%s` not recognised" % (W, what, p))
                    return None
                arms.append((cs[mm.group(1)], allow[e]))
        if dflt is None:
            unrec.append("%s: %s: no wildcard arm" % (W, what))
            return None
        return arms, dflt

    b = [squash(x) for x in fn_bodies(imp, "interest")]
    if len(b) != 1:
        unrec.append("%s: MacroCallsite::interest not found exactly once" % W)
    else:
        allow = {k: "(BCached %s)" % v for k, v in INTEREST_CTOR.items()}
        allow["self.register()"] = "BRegister"
        r = arms_of(b[0], "MacroCallsite::interest", allow)
        if r:
            g["iarms"], g["idef"] = r
    b = [squash(x) for x in fn_bodies(imp, "register")]
    if len(b) != 1:
        unrec.append("%s: MacroCallsite::register not found exactly once" % W)
    else:
        m = re.fullmatch(r"matchself\.register\.compare_exchange\(Self::UNREGISTERED,Self::REGISTERING,%s,%s,?\)\{"
                         r"Ok\(_\)=>\{crate::callsite::register\(self\.registration\);self\.register\.store\(Self::REGISTERED,%s\);\}"
                         r"Err\(Self::REGISTERED\)=>\{\}Err\(_state\)=>\{debug_assert_eq!\(.*?\);returnInterest::sometimes\(\);\}\}(match.*)" % (ORD, ORD, ORD), b[0])
        if not m:
            unrec.append("%s: MacroCallsite::register: registration prelude not recognised" % W)
        else:
            r = arms_of(m.group(1), "MacroCallsite::register", dict(INTEREST_CTOR))
            if r:
                g["rarms"], g["rdef"] = r
    b = [squash(x) for x in fn_bodies(imp, "is_enabled")]
    if b == ["interest.is_always()||crate::dispatch::get_default(|default|default.enabled(self.meta))"]:
        g["isen"] = "IsAlwaysOrDefaultEnabled"
    else:
        unrec.append("%s: MacroCallsite::is_enabled: not `interest.is_always() || get_default(|d| d.enabled(meta))`" % W)
    imp2 = block_after(src, r"impl\s+Callsite\s+for\s+MacroCallsite\s*") or ""
    b = [squash(x) for x in fn_bodies(imp2, "set_interest")]
    m = re.fullmatch(r"letinterest=match\(\)\{_ifinterest\.is_never\(\)=>(\d+),_ifinterest\.is_always\(\)=>(\d+),_=>(\d+),\};"
                     r"self\.interest\.store\(interest,%s\);" % ORD, b[0]) if len(b) == 1 else None
    if m:
        g["set"] = (int(m.group(1)), int(m.group(3)), int(m.group(2)))     # never, otherwise, always
    else:
        unrec.append("%s: Callsite::set_interest for MacroCallsite: shape not recognised" % W)
    return g


def read_collect(repo, unrec):
    W = "collect.rs"
    src = read_src(repo, "tracing-core/src/collect.rs", unrec)
    g = {"iand": "IandUnknown", "kinds": (0, 0, 0)}
    body = block_after(src, r"enum\s+InterestKind\s*")
    m = re.fullmatch(r"Never=(\d+),Sometimes=(\d+),Always=(\d+),?", squash(body or ""))
    if m:
        g["kinds"] = tuple(int(x) for x in m.groups())
    else:
        unrec.append("%s: enum InterestKind: discriminants not recognised" % W)
    imp = block_after(src, r"impl\s+Interest\s*") or ""
    b = [squash(x) for x in fn_bodies(imp, "and")]
    ctors = all([squash(x) for x in fn_bodies(imp, n)] == ["Interest(InterestKind::%s)" % k] for n, k in (("never", "Never"), ("sometimes", "Sometimes"), ("always", "Always")))
    preds = all([squash(x) for x in fn_bodies(imp, "is_" + n)] == ["matches!(self.0,InterestKind::%s)" % k] for n, k in (("never", "Never"), ("sometimes", "Sometimes"), ("always", "Always")))
    if b == ["ifself.0==rhs.0{self}else{Interest::sometimes()}"] and ctors and preds:
        g["iand"] = "IandSelfIfEqualElseSometimes"
    else:
        unrec.append("%s: Interest::and / constructors / is_* predicates: shape not recognised" % W)
    return g


def read_callsite(repo, unrec):
    W = "callsite.rs"
    src = read_src(repo, "tracing-core/src/callsite.rs", unrec)
    g = {"reg": "RegUnknown", "regdisp": "RegDispUnknown", "cache": "CacheRebuildUnknown", "fold": "FoldUnknown", "rebuild": "RebuildUnknown"}
    inner = block_after(src, r"#\[cfg\(feature\s*=\s*\"std\"\)\]\s*mod\s+inner\s*")
    if inner is None:
        unrec.append("%s: `#[cfg(feature = \"std\")] mod inner` not found" % W)
        return g

    def one(name):
        bs = [squash(x) for x in fn_bodies(inner, name)]
        if len(bs) != 1:
            unrec.append("%s: fn %s not found exactly once in the std `mod inner`" % (W, name))
            return None
        return bs[0]

    if one("register") == "letdispatchers=REGISTRY.dispatchers.read().unwrap();rebuild_callsite_interest(&dispatchers,registration.callsite);REGISTRY.callsites.push(registration);":
        g["reg"] = "RegComputeStoreThenPush"
    else:
        unrec.append("%s: register: not `read lock; rebuild_callsite_interest; push`" % W)
    if one("register_dispatch") == ("letmutdispatchers=REGISTRY.dispatchers.write().unwrap();letcallsites=&REGISTRY.callsites;"
                                    "dispatch.collector().on_register_dispatch(dispatch);dispatchers.push(dispatch.registrar());rebuild_interest(callsites,&mutdispatchers);"):
        g["regdisp"] = "RegDispPushThenRebuild"
    else:
        unrec.append("%s: register_dispatch: not `write lock; on_register_dispatch; push; rebuild_interest`" % W)
    if one("rebuild_interest_cache") == "letmutdispatchers=REGISTRY.dispatchers.write().unwrap();letcallsites=&REGISTRY.callsites;rebuild_interest(callsites,&mutdispatchers);":
        g["cache"] = "CacheRebuildIsRebuild"
    else:
        unrec.append("%s: rebuild_interest_cache: not `write lock; rebuild_interest`" % W)
    if one("rebuild_callsite_interest") == ("letmeta=callsite.metadata();letmutinterests=dispatchers.iter().filter_map(|registrar|{registrar.upgrade().map(|dispatch|dispatch.register_callsite(meta))});"
                                            "letinterest=ifletSome(interest)=interests.next(){interests.fold(interest,Interest::and)}else{Interest::never()};callsite.set_interest(interest)"):
        g["fold"] = "FoldUpgradedFirstThenAndElseNever"
    else:
        unrec.append("%s: rebuild_callsite_interest: fold shape not recognised" % W)
    b = one("rebuild_interest")
    m = re.fullmatch(r"letmutmax_level=LevelFilter::OFF;dispatchers\.retain\(\|registrar\|\{ifletSome\(dispatch\)=registrar\.upgrade\(\)\{"
                     r"letlevel_hint=dispatch\.max_level_hint\(\)\.unwrap_or\(LevelFilter::(\w+)\);iflevel_hint(<=|<|>=|>)max_level\{max_level=level_hint;\}true\}else\{false\}\}\);"
                     r"callsites\.for_each\(\|reg\|rebuild_callsite_interest\(dispatchers,reg\.callsite\)\);LevelFilter::set_max\(max_level\);", b or "")
    if m and m.group(1) in LEVEL_RANK:
        g["rebuild"] = "RebuildRetainMaxForeachSetmax %s %d" % (REL[m.group(2)], LEVEL_RANK[m.group(1)])
    else:
        unrec.append("%s: rebuild_interest: retain / max / for_each / set_max shape not recognised" % W)
    # Dispatch::new must go through register_dispatch (dispatch.rs)
    dsrc = read_src(repo, "tracing-core/src/dispatch.rs", unrec)
    news = [squash(x) for (n, sig, x) in all_fns(dsrc) if n == "new" and "Dispatch" not in sig and "collector" in sig]
    if not any(re.search(r"crate::callsite::register_dispatch\(&me\);me$", x) for x in news):
        unrec.append("dispatch.rs: Dispatch::new does not end with `register_dispatch(&me); me`")
        g["regdisp"] = "RegDispUnknown"
    # the registrar is a *weak* reference (liveness = some strong reference elsewhere), upgraded per use
    regs = [squash(x) for x in fn_bodies(dsrc, "registrar")]
    imp = block_after(dsrc, r"impl\s+Registrar\s*") or ""
    ups = [squash(x) for x in fn_bodies(imp, "upgrade")]
    if regs != ["Registrar(matchself.collector{Kind::Scoped(refs)=>Kind::Scoped(Arc::downgrade(s)),Kind::Global(s)=>Kind::Global(s),})"] or \
            ups != ["matchself.0{Kind::Global(s)=>Some(Dispatch{collector:Kind::Global(s),}),Kind::Scoped(refs)=>s.upgrade().map(|s|Dispatch{collector:Kind::Scoped(s),}),}"]:
        unrec.append("dispatch.rs: Dispatch::registrar / Registrar::upgrade: not a Weak that is upgraded per use")
        g["fold"] = "FoldUnknown"
    return g


def read_static_max(repo, unrec):
    """level_filters.rs get_max_level_inner -> (rows [(feature, consulted only without debug assertions?, level rank)] in source order,
    does a build without debug assertions that matches no release row FALL THROUGH to the max_level_* rows?,
    does the LAST enabled row of a family win instead of the first?).  A build that matches no row at all gets TRACE.
    Three shapes are read: the nested if-chain with a final `else { TRACE }` in the release half; a release half made of early
    `return`s followed by the max_level_* chain (fall through); and two `(cfg!(feature), level)` tables handed to a
    `select_max_level` loop that starts from TRACE and overwrites on every enabled entry (last wins)."""
    W = "level_filters.rs"
    src = read_src(repo, "tracing/src/level_filters.rs", unrec)
    bs = [squash(x) for x in fn_bodies(src, "get_max_level_inner")]
    if len(bs) != 1 or not re.search(r"pub\s+const\s+STATIC_MAX_LEVEL\s*:\s*LevelFilter\s*=\s*get_max_level_inner\(\)\s*;", src):
        unrec.append("%s: STATIC_MAX_LEVEL = get_max_level_inner() not recognised" % W)
        return [], False, False
    chain = r"((?:ifcfg!\(feature=\"\w+\"\)\{LevelFilter::\w+\}else)+)\{LevelFilter::TRACE\}"
    rchain = r"((?:ifcfg!\(feature=\"\w+\"\)\{returnLevelFilter::\w+;\}(?:else)?)+)"
    table = r"select_max_level\(\[((?:\(cfg!\(feature=\"\w+\"\),LevelFilter::\w+\),?)+)\]\)"
    m = re.fullmatch(r"ifcfg!\(not\(debug_assertions\)\)\{%s\}else%s" % (chain, chain), bs[0])
    m2 = re.fullmatch(r"ifcfg!\(not\(debug_assertions\)\)\{%s\}%s" % (rchain, chain), bs[0])
    m3 = re.fullmatch(r"ifcfg!\(not\(debug_assertions\)\)\{%s\}else\{%s\}" % (table, table), bs[0])
    ft = last = False
    if m:
        groups = ((m.group(1), True), (m.group(2), False))
    elif m2:
        groups, ft = ((m2.group(1), True), (m2.group(2), False)), True
    elif m3:
        sel = [squash(x) for x in fn_bodies(src, "select_max_level")]
        if sel != ["letmutmax_level=LevelFilter::TRACE;letmuti=0;whilei<features.len(){let(enabled,level)=features[i];ifenabled{max_level=level;}i+=1;}max_level"]:
            unrec.append("%s: select_max_level: loop not recognised" % W)
            return [], False, False
        groups, last = ((m3.group(1), True), (m3.group(2), False)), True
    else:
        unrec.append("%s: get_max_level_inner: if-chain not recognised" % W)
        return [], False, False
    tbl = []
    for grp, rel_only in groups:
        for f, lv in re.findall(r"cfg!\(feature=\"(\w+)\"\)[,{)]*(?:return)?LevelFilter::(\w+)", grp):
            if lv not in LEVEL_RANK:
                unrec.append("%s: unknown level %s" % (W, lv))
                return [], False, False
            tbl.append((f, rel_only, LEVEL_RANK[lv]))
    return tbl, ft, last


def read_try_init(repo):
    """tracing-subscriber/src/util.rs SubscriberInitExt::try_init: the first thing it does must be
    `dispatch::set_global_default(self.into()).map_err(TryInitError::new)?;` (then, with `tracing-log`, the LogTracer; then Ok).
    Python-side only (C02's `tryinit` op).  Returns a list of unrecognised items."""
    unrec = []
    src = read_src(repo, "tracing-subscriber/src/util.rs", unrec)
    bs = [squash(x) for x in fn_bodies(src, "try_init")]
    if len(bs) != 1 or not re.fullmatch(r"dispatch::set_global_default\(self\.into\(\)\)\.map_err\(TryInitError::new\)\?;"
                                        r"(#\[cfg\(feature=\"tracing-log\"\)\]tracing_log::LogTracer::builder\(\).*?\.init\(\)\.map_err\(TryInitError::new\)\?;)?Ok\(\(\)\)", bs[0] if bs else ""):
        unrec.append("util.rs: SubscriberInitExt::try_init is not `set_global_default(self.into())?; [LogTracer]; Ok(())`")
    return unrec


# ------------------------------------------------------------------------------------------------

def pair(p):
    return "(%s)" % ", ".join(str(x) for x in p)


def coq_list(items):
    return "[" + "; ".join(items) + "]"


def shapes(repo):
    """All readings as Python data (used by the drivers too):
    (dispatch dict, guard dict, unrecognised in dispatch.rs's default machinery [C02, C01], unrecognised elsewhere [C01])."""
    unrec_d, unrec_g = [], []
    d = read_dispatch(repo, unrec_d)
    g = read_macros(repo, unrec_g)
    g.update(read_lib(repo, unrec_g))
    g.update(read_collect(repo, unrec_g))
    g.update(read_callsite(repo, unrec_g))
    g["static"], g["static_ft"], g["static_last"] = read_static_max(repo, unrec_g)
    fx = None
    quad = (d["slow"], d["current"], d["prior"], d["restore"])
    if quad == ("NoneUsesGlobal", "NoneUsesGlobal", "PriorIsOption", "RestoreAlways"):
        fx = True
    elif quad == ("NoneCachesGlobal", "NoneCachesGlobal", "PriorOrGlobalClone", "RestoreIfSome"):
        fx = False
    else:
        unrec_d.append("dispatch.rs: the four thread-local sites are neither all repaired nor all as before the F1 fix: %s" % (quad,))
    d["fx"] = fx
    return d, g, unrec_d, unrec_g


def main(repo, _unused=None):
    d, g, unrec_d, unrec_g = shapes(repo)
    unrec = unrec_d + unrec_g
    b = lambda x: "true" if x else "false"  # noqa: E731
    L = ["(** GENERATED by translators/dispatch_shape.py from tracing-core/src/{dispatch,callsite,collect}.rs and",
         "    tracing/src/{lib,macros,level_filters}.rs.  Rewritten on every run; do not edit.  Meaning: Dispatch/Shape.v. *)",
         "From Coq Require Import NArith List String.",
         "From TV Require Import Dispatch.Model Dispatch.Shape.",
         "Import ListNotations.",
         "Local Open Scope string_scope.",
         "Local Open Scope N_scope.",
         "",
         "Definition gen_dispatch : dispatch_shape := {|",
         "  d_slow_none := %s;" % d["slow"],
         "  d_current_none := %s;" % d["current"],
         "  d_prior := %s;" % d["prior"],
         "  d_restore := %s;" % d["restore"],
         "  d_fast := %s;" % d["fast"],
         "  d_open_incr := %s;" % b(d["incr"]),
         "  d_close_decr := %s;" % b(d["decr"]),
         "  d_consts := %s;" % pair(d["consts"]),
         "  d_set_global := %s;" % d["setg"],
         "  d_get_global_needs := %s;" % d["needs"].strip("()"),
         "  d_with_default_is_guard := %s;" % b(d["withdef"]),
         "  d_get_current_is_entered_current := %s;" % b(d["getcur"]),
         "  d_slow_guard := %s;" % d["slow_guard"],
         "  d_current_guard := %s;" % d["current_guard"],
         "  d_set_default_enters := %s;" % b(d["sd_enters"]),
         "  d_open_counts_when_dead := %s;" % b(d["open_dead"]),
         "  d_close_counts_when_dead := %s |}." % b(d["close_dead"]),
         "",
         "Definition gen_guard : guard_shape := {|",
         "  g_level_enabled := %s;" % coq_list("(%s, %s)" % x for x in (g["level"] or [])),
         "  g_event_arms := %s;" % pair(g["event"]),
         "  g_span_arms := %s;" % pair(g["span"]),
         "  g_enabled_arms := %s;" % pair(g["enabled"]),
         "  g_bytes := %s;" % pair(g["bytes"]),
         "  g_interest_arms := %s;" % coq_list("(%d, %s)" % x for x in g["iarms"]),
         "  g_interest_default := %s;" % g["idef"].strip("()"),
         "  g_register_arms := %s;" % coq_list("(%d, %s)" % x for x in g["rarms"]),
         "  g_register_default := %s;" % g["rdef"],
         "  g_set_interest := %s;" % pair(g["set"]),
         "  g_is_enabled := %s;" % g["isen"],
         "  g_iand := %s;" % g["iand"],
         "  g_kind_consts := %s;" % pair(g["kinds"]),
         "  g_register := %s;" % g["reg"],
         "  g_register_dispatch := %s;" % g["regdisp"],
         "  g_cache_rebuild := %s;" % g["cache"],
         "  g_fold := %s;" % g["fold"],
         "  g_rebuild := %s;" % g["rebuild"],
         "  g_static_max := %s;" % coq_list("(\"%s\", %s, %d)" % (f, b(r), l) for f, r, l in g["static"]),
         "  g_static_release_falls_through := %s;" % b(g["static_ft"]),
         "  g_static_last_wins := %s |}." % b(g["static_last"]),
         "",
         "(* shapes the translator could not recognise on this run (the pinned theorems need these lists empty):",
         "   dispatch.rs's default machinery (C02, and C01 through get_default), and everything else (C01) *)",
         "Definition gen_dispatch_unrecognised : list string := %s." % coq_list('"%s"' % u.replace('"', "'") for u in unrec_d),
         "Definition gen_guard_unrecognised : list string := %s." % coq_list('"%s"' % u.replace('"', "'") for u in unrec_g),
         ""]
    return "\n".join(L), unrec


if __name__ == "__main__":
    text, unrec = main(sys.argv[1] if len(sys.argv) > 1 else "/repo")
    sys.stdout.write(text)
    for u in unrec:
        sys.stderr.write("unrecognised: %s\n" % u)
