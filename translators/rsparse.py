"""Tiny helpers for reading specific items out of Rust source (not a Rust parser; see DESIGN 5.1).

Everything here fails closed: a caller that does not find the exact shape it expects must emit an
`unrecognised` marker into the generated Coq file, which makes the corresponding obligation fail."""
import re


# A verification yield hook is exactly: `#[cfg(<expr mentioning tracing_verif>)]` followed by ONE statement
# `[crate::|tracing_core::|...]__verif::yield_point(<digits>);`.  The models mirror the code with the guard OFF, so these
# add-only, behaviour-free scheduling points are removed from what every translator sees (newlines preserved).
# Nothing else guarded by tracing_verif is hidden: any other shape stays visible and must be recognised or fail closed.
_VERIF_YIELD = re.compile(r"#\[cfg\((?:[^\[\]]*\b)?tracing_verif\b[^\[\]]*\)\]\s*(?:[A-Za-z_][A-Za-z_0-9]*::)*__verif::yield_point\(\s*\d+\s*\);")


def strip_verif_hooks(src):
    return _VERIF_YIELD.sub(lambda m: "\n" * m.group(0).count("\n"), src)


def strip_comments(src):
    """Remove // and /* */ comments and keep string literals intact.  Newlines are preserved.
    Verification yield hooks (see strip_verif_hooks) are removed afterwards."""
    return strip_verif_hooks(_strip_comments(src))


def _strip_comments(src):
    out = []
    i = 0
    n = len(src)
    while i < n:
        c = src[i]
        if src.startswith("//", i):
            j = src.find("\n", i)
            if j < 0:
                break
            i = j
            continue
        if src.startswith("/*", i):
            depth = 1
            i += 2
            while i < n and depth:
                if src.startswith("/*", i):
                    depth += 1
                    i += 2
                elif src.startswith("*/", i):
                    depth -= 1
                    i += 2
                else:
                    if src[i] == "\n":
                        out.append("\n")
                    i += 1
            continue
        if c == '"':
            j = i + 1
            while j < n and src[j] != '"':
                if src[j] == "\\":
                    j += 1
                j += 1
            out.append(src[i:j + 1])
            i = j + 1
            continue
        if c == "r" and re.match(r'r#*"', src[i:i + 8]) and (i == 0 or not (src[i - 1].isalnum() or src[i - 1] == "_")):
            m = re.match(r'r(#*)"', src[i:])
            hashes = m.group(1)
            end = src.find('"' + hashes, i + len(m.group(0)))
            if end < 0:
                end = n
            out.append(src[i:end + 1 + len(hashes)])
            i = end + 1 + len(hashes)
            continue
        if c == "'":
            # char literal or lifetime
            m = re.match(r"'(\\.|[^\\'])'", src[i:i + 4]) or re.match(r"'\\u\{[0-9a-fA-F]+\}'", src[i:i + 12])
            if m:
                out.append(m.group(0))
                i += len(m.group(0))
                continue
        out.append(c)
        i += 1
    return "".join(out)


def match_brace(src, open_idx, open_ch="{", close_ch="}"):
    """Index of the bracket closing the one at open_idx (string/char literals skipped)."""
    assert src[open_idx] == open_ch
    depth = 0
    i = open_idx
    n = len(src)
    while i < n:
        c = src[i]
        if c == '"':
            j = i + 1
            while j < n and src[j] != '"':
                if src[j] == "\\":
                    j += 1
                j += 1
            i = j + 1
            continue
        if c == "'":
            m = re.match(r"'(\\.|[^\\'])'", src[i:i + 4])
            if m:
                i += len(m.group(0))
                continue
        if c == open_ch:
            depth += 1
        elif c == close_ch:
            depth -= 1
            if depth == 0:
                return i
        i += 1
    raise ValueError("unbalanced bracket at %d" % open_idx)


def find_blocks(src, header_re):
    """Yield (match, body_text, start, end) for every `header {` ... `}` whose header matches."""
    for m in re.finditer(header_re, src):
        ob = src.find("{", m.end() - 1)
        if ob < 0:
            continue
        cb = match_brace(src, ob)
        yield m, src[ob + 1:cb], ob + 1, cb


FN_RE = re.compile(r"\bfn\s+([A-Za-z_][A-Za-z0-9_]*)\s*(<[^>{;]*>)?\s*\(")


def fns_in(body):
    """{name: (signature_text, body_text or None)} for the fn items directly or indirectly in `body`."""
    res = {}
    pos = 0
    while True:
        m = FN_RE.search(body, pos)
        if not m:
            break
        op = body.find("(", m.end() - 1)
        cp = match_brace(body, op, "(", ")")
        # find '{' or ';' after the signature
        j = cp + 1
        while j < len(body) and body[j] not in "{;":
            j += 1
        if j >= len(body):
            break
        if body[j] == ";":
            res[m.group(1)] = (body[m.start():j].strip(), None)
            pos = j + 1
            continue
        cb = match_brace(body, j)
        res[m.group(1)] = (body[m.start():j].strip(), body[j + 1:cb].strip())
        pos = cb + 1
    return res


def norm(s):
    return " ".join(s.split())


def match_arms(body):
    """Split the body of a `match x { ... }` into [(pattern, expr)] at top level (commas)."""
    arms = []
    i = 0
    n = len(body)
    cur = []
    depth = 0
    items = []
    while i < n:
        c = body[i]
        if c in "([{":
            depth += 1
        elif c in ")]}":
            depth -= 1
        if c == '"':
            j = i + 1
            while j < n and body[j] != '"':
                if body[j] == "\\":
                    j += 1
                j += 1
            cur.append(body[i:j + 1])
            i = j + 1
            continue
        if c == "," and depth == 0:
            items.append("".join(cur))
            cur = []
        else:
            cur.append(c)
            if c == "}" and depth == 0:
                # block-bodied arm without trailing comma
                items.append("".join(cur))
                cur = []
        i += 1
    if "".join(cur).strip():
        items.append("".join(cur))
    for it in items:
        if "=>" not in it:
            continue
        p, e = it.split("=>", 1)
        p = re.sub(r"#\[[^\]]*\]", "", p)
        arms.append((norm(p), norm(e)))
    return arms


def coq_bytes(s):
    return "[" + "; ".join("%d%%N" % b for b in s.encode("utf-8")) + "]"


def coq_str(s):
    return '"' + s.replace('"', '""') + '"'
