"""C15 translator: the shapes of tracing-appender's non-blocking writer that the Coq model mirrors.

Reads tracing-appender/src/worker.rs and non_blocking.rs and emits coq/gen/Gen_nonblocking.v:

  gen_worker_variant : variant        FlushErrLosesState   `self.writer.flush()?; Ok(worker_state)` at the end of
                                                           Worker::work (finding F11: a flush error discards the
                                                           Shutdown / Disconnected state computed just before)
                                      FlushErrKeepsTerminal the repaired shape (the flush result is only propagated
                                                           when the state is not terminal)
  gen_send_timeout_ms, gen_rdv_timeout_ms : N   the two `Duration::from_millis(..)` of `Drop for WorkerGuard`
  gen_nb_unrecognised : list nat      [] iff every function the model mirrors has exactly the shape the model was
                                      written against (bodies compared token-for-token after removing comments and
                                      white space).  Anything else fails closed: the tie is reported broken.
  gen_default_cap, gen_default_lossy  NonBlockingBuilder::default() (DEFAULT_BUFFERED_LINES_LIMIT, is_lossy)

main(repo, None) -> (text, unrecognised list)."""
import os
import re
import sys

sys.path.insert(0, os.path.dirname(os.path.abspath(__file__)))
import rsparse  # noqa: E402


def _body_after(src, start):
    """Text between the first `{` at or after `start` and its matching `}` (exclusive)."""
    i = src.find("{", start)
    if i < 0:
        return None
    depth = 0
    j = i
    n = len(src)
    instr = False
    while j < n:
        ch = src[j]
        if instr:
            if ch == "\\":
                j += 1
            elif ch == '"':
                instr = False
        elif ch == '"':
            instr = True
        elif ch == "{":
            depth += 1
        elif ch == "}":
            depth -= 1
            if depth == 0:
                return src[i + 1:j]
        j += 1
    return None


def fn_body(src, name, after=None):
    pos = 0
    if after is not None:
        pos = src.find(after)
        if pos < 0:
            return None
    m = re.compile(r"\bfn\s+%s\b" % re.escape(name)).search(src, pos)
    if not m:
        return None
    return _body_after(src, m.end())


def squash(s):
    return re.sub(r"\s+", "", s)


# ---- the shapes the model (Appender/NonBlockingModel.v) mirrors ------------------------------------------------

HANDLE_RECV = """
match result {
    Ok(Msg::Line(msg)) => { self.writer.write_all(msg)?; Ok(WorkerState::Continue) }
    Ok(Msg::Shutdown) => Ok(WorkerState::Shutdown),
    Err(_) => Ok(WorkerState::Disconnected),
}"""

HANDLE_TRY_RECV = """
match result {
    Ok(Msg::Line(msg)) => { self.writer.write_all(msg)?; Ok(WorkerState::Continue) }
    Ok(Msg::Shutdown) => Ok(WorkerState::Shutdown),
    Err(TryRecvError::Empty) => Ok(WorkerState::Empty),
    Err(TryRecvError::Disconnected) => Ok(WorkerState::Disconnected),
}"""

WORK_HEAD = """
let mut worker_state = self.handle_recv(&self.receiver.recv())?;
while worker_state == WorkerState::Continue {
    let try_recv_result = self.receiver.try_recv();
    let handle_result = self.handle_try_recv(&try_recv_result);
    worker_state = handle_result?;
}"""

WORK_TAILS = {
    # the snapshot: F11
    "FlushErrLosesState": ["self.writer.flush()?; Ok(worker_state)"],
    # fixes/F11.patch (and an equivalent spelling)
    "FlushErrKeepsTerminal": [
        """let flushed = self.writer.flush();
           match worker_state {
               WorkerState::Shutdown | WorkerState::Disconnected => Ok(worker_state),
               _ => flushed.map(|()| worker_state),
           }""",
        """let flushed = self.writer.flush();
           match worker_state {
               WorkerState::Shutdown | WorkerState::Disconnected => Ok(worker_state),
               _ => flushed.map(|_| worker_state),
           }""",
    ],
}

WORKER_THREAD = """
thread::Builder::new()
    .name(name)
    .spawn(move || {
        loop {
            match self.work() {
                Ok(WorkerState::Continue) | Ok(WorkerState::Empty) => {}
                Ok(WorkerState::Shutdown) | Ok(WorkerState::Disconnected) => {
                    drop(self.writer);
                    let _ = self.shutdown.recv();
                    return;
                }
                Err(_) => {}
            }
        }
    })
    .expect("failed to spawn `tracing-appender` non-blocking worker thread")"""

CREATE = """
let (sender, receiver) = bounded(buffered_lines_limit);
let (shutdown_sender, shutdown_receiver) = bounded(0);
let worker = Worker::new(receiver, writer, shutdown_receiver);
let worker_guard = WorkerGuard::new(worker.worker_thread(thread_name), sender.clone(), shutdown_sender,);
( Self { channel: sender, error_counter: ErrorCounter(Arc::new(AtomicUsize::new(0))), is_lossy, }, worker_guard, )"""

WRITE = """
let buf_size = buf.len();
if self.is_lossy {
    if self.channel.try_send(Msg::Line(buf.to_vec())).is_err() {
        self.error_counter.incr_saturating();
    }
} else {
    return match self.channel.send(Msg::Line(buf.to_vec())) {
        Ok(_) => Ok(buf_size),
        Err(_) => Err(io::Error::from(io::ErrorKind::Other)),
    };
}
Ok(buf_size)"""

WRITE_ALL = "self.write(buf).map(|_| ())"

GUARD_DROP = """
let timeout = Duration::from_millis(@A@);
match self.sender.send_timeout(Msg::Shutdown, timeout) {
    Ok(_) => {
        let timeout = Duration::from_millis(@B@);
        match self.shutdown.send_timeout((), timeout) {
            Err(SendTimeoutError::Timeout(_)) => {
                eprintln!("Shutting down logging worker timed out after {:?}.", timeout);
            }
            _ => {
                if let Some(handle) = self.handle.take() {
                    if handle.join().is_err() {
                        eprintln!("Logging worker thread panicked");
                    }
                };
            }
        }
    }
    Err(SendTimeoutError::Disconnected(_)) => (),
    Err(SendTimeoutError::Timeout(_)) => eprintln!("Sending shutdown signal to logging worker timed out after {:?}", timeout),
}"""

INCR_SAT = """
let mut curr = self.0.load(Ordering::Acquire);
if curr == usize::MAX { return; }
loop {
    let val = curr.saturating_add(1);
    match self.0.compare_exchange(curr, val, Ordering::AcqRel, Ordering::Acquire) {
        Ok(_) => return,
        Err(actual) => curr = actual,
    }
}"""

DROPPED_LINES = "self.0.load(Ordering::Acquire)"

MSG_ENUM = "Line(Vec<u8>), Shutdown,"

# configuration plumbing: builder -> create, the defaults, the convenience constructors, MakeWriter
NEW = "NonBlockingBuilder::default().finish(writer)"
FINISH = "NonBlocking::create(writer, self.buffered_lines_limit, self.is_lossy, self.thread_name,)"
SET_LIMIT = "self.buffered_lines_limit = buffered_lines_limit; self"
SET_LOSSY = "self.is_lossy = is_lossy; self"
DEFAULT = """NonBlockingBuilder { buffered_lines_limit: DEFAULT_BUFFERED_LINES_LIMIT, is_lossy: @L@, thread_name: "tracing-appender".to_string(), }"""
MAKE_WRITER = "self.clone()"
LIB_NON_BLOCKING = "NonBlocking::new(writer)"


def _cmp(unrec, what, got, want):
    if got is None:
        unrec.append("%s: not found" % what)
        return False
    if squash(got) != squash(want):
        unrec.append("%s: body differs from the shape the model mirrors" % what)
        return False
    return True


def main(repo, _unused=None):
    unrec = []
    base = os.path.join(repo, "tracing-appender", "src")

    def load(name):
        try:
            return rsparse.strip_comments(open(os.path.join(base, name), encoding="utf-8").read())
        except OSError as ex:
            unrec.append("cannot read %s: %s" % (name, ex))
            return ""

    worker = load("worker.rs")
    nb = load("non_blocking.rs")
    lib = load("lib.rs")
    # the test module of non_blocking.rs is not part of what the model mirrors
    cut = nb.find("#[cfg(test)]")
    if cut >= 0:
        nb = nb[:cut]

    _cmp(unrec, "worker.rs handle_recv", fn_body(worker, "handle_recv"), HANDLE_RECV)
    _cmp(unrec, "worker.rs handle_try_recv", fn_body(worker, "handle_try_recv"), HANDLE_TRY_RECV)
    _cmp(unrec, "worker.rs worker_thread", fn_body(worker, "worker_thread"), WORKER_THREAD)

    variant = None
    work = fn_body(worker, "work")
    if work is None:
        unrec.append("worker.rs work: not found")
    else:
        w = squash(work)
        head = squash(WORK_HEAD)
        if not w.startswith(head):
            unrec.append("worker.rs work: recv / try_recv loop differs from the shape the model mirrors")
        else:
            tail = w[len(head):]
            for v, tails in WORK_TAILS.items():
                if any(tail == squash(t) for t in tails):
                    variant = v
            if variant is None:
                unrec.append("worker.rs work: the flush / return at the end of work() has an unrecognised shape")

    _cmp(unrec, "non_blocking.rs NonBlocking::create", fn_body(nb, "create"), CREATE)
    _cmp(unrec, "non_blocking.rs Write::write", fn_body(nb, "write", after="impl std::io::Write for NonBlocking"), WRITE)
    _cmp(unrec, "non_blocking.rs Write::write_all", fn_body(nb, "write_all", after="impl std::io::Write for NonBlocking"), WRITE_ALL)
    _cmp(unrec, "non_blocking.rs ErrorCounter::incr_saturating", fn_body(nb, "incr_saturating"), INCR_SAT)
    _cmp(unrec, "non_blocking.rs ErrorCounter::dropped_lines", fn_body(nb, "dropped_lines"), DROPPED_LINES)

    ta, tb = 100, 1000
    drop_body = fn_body(nb, "drop", after="impl Drop for WorkerGuard")
    if drop_body is None:
        unrec.append("non_blocking.rs Drop for WorkerGuard: not found")
    else:
        ms = re.findall(r"Duration::from_millis\(\s*([0-9_]+)\s*\)", drop_body)
        if len(ms) != 2:
            unrec.append("non_blocking.rs Drop for WorkerGuard: expected two Duration::from_millis literals")
        else:
            ta, tb = int(ms[0].replace("_", "")), int(ms[1].replace("_", ""))
            want = GUARD_DROP.replace("@A@", ms[0]).replace("@B@", ms[1])
            _cmp(unrec, "non_blocking.rs Drop for WorkerGuard", drop_body, want)

    _cmp(unrec, "non_blocking.rs NonBlocking::new", fn_body(nb, "new", after="impl NonBlocking"), NEW)
    _cmp(unrec, "non_blocking.rs NonBlockingBuilder::finish", fn_body(nb, "finish"), FINISH)
    _cmp(unrec, "non_blocking.rs NonBlockingBuilder::buffered_lines_limit", fn_body(nb, "buffered_lines_limit", after="impl NonBlockingBuilder"), SET_LIMIT)
    _cmp(unrec, "non_blocking.rs NonBlockingBuilder::lossy", fn_body(nb, "lossy", after="impl NonBlockingBuilder"), SET_LOSSY)
    _cmp(unrec, "non_blocking.rs MakeWriter::make_writer", fn_body(nb, "make_writer"), MAKE_WRITER)
    _cmp(unrec, "lib.rs non_blocking", fn_body(lib, "non_blocking"), LIB_NON_BLOCKING)
    dcap, dlossy = 128000, True
    mc = re.search(r"pub\s+const\s+DEFAULT_BUFFERED_LINES_LIMIT\s*:\s*usize\s*=\s*([0-9_]+)\s*;", nb)
    if not mc:
        unrec.append("non_blocking.rs DEFAULT_BUFFERED_LINES_LIMIT: not found")
    else:
        dcap = int(mc.group(1).replace("_", ""))
    dbody = fn_body(nb, "default", after="impl Default for NonBlockingBuilder")
    ml = re.search(r"is_lossy\s*:\s*(true|false)", dbody or "")
    if not ml:
        unrec.append("non_blocking.rs Default for NonBlockingBuilder: is_lossy literal not found")
    else:
        dlossy = ml.group(1) == "true"
        _cmp(unrec, "non_blocking.rs Default for NonBlockingBuilder", dbody, DEFAULT.replace("@L@", ml.group(1)))

    m = re.search(r"pub\(crate\)\s+enum\s+Msg\b", lib)
    if not m:
        unrec.append("lib.rs enum Msg: not found")
    else:
        _cmp(unrec, "lib.rs enum Msg", _body_after(lib, m.end()), MSG_ENUM)

    G = ["(** GENERATED by translators/nonblocking.py from tracing-appender/src/{worker,non_blocking,lib}.rs - do not edit. *)",
         "From Coq Require Import List NArith.",
         "From TV Require Import Appender.NonBlockingModel.",
         "Import ListNotations.",
         "(** How Worker::work ends: FlushErrLosesState = `self.writer.flush()?; Ok(worker_state)` (finding F11);",
         "    FlushErrKeepsTerminal = a terminal state is returned whatever the flush said. *)",
         "Definition gen_worker_variant : variant := %s." % (variant or "FlushErrLosesState"),
         "Definition gen_send_timeout_ms : N := %d%%N." % ta,
         "Definition gen_rdv_timeout_ms : N := %d%%N." % tb,
         "(** NonBlockingBuilder::default(): what `NonBlocking::new` / `tracing_appender::non_blocking` configure *)",
         "Definition gen_default_cap : N := %d%%N." % dcap,
         "Definition gen_default_lossy : bool := %s." % ("true" if dlossy else "false"),
         "Definition gen_nb_unrecognised : list nat := %s." % ("[]" if not unrec else "[0]"),
         "Lemma gen_nb_recognised : gen_nb_unrecognised = [].",
         "Proof. reflexivity. Qed."]
    return "\n".join(G) + "\n", unrec


if __name__ == "__main__":
    text, unrec = main(sys.argv[1] if len(sys.argv) > 1 else "/repo")
    sys.stdout.write(text)
    for u in unrec:
        sys.stderr.write("unrecognised: %s\n" % u)
