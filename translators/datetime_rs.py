#!/usr/bin/env python3
"""translators/datetime_rs.py — the *statements* of tracing-subscriber/src/fmt/time/datetime.rs as Coq definitions:
coq/gen/Gen_datetime.v.  (translators/time_consts.py reads the named constants; this one reads the code.)

What is read, on every run, from the source text:
  * `struct DateTime { year: i64, month: u8, .. nanos: u32 }`                      (field names, order, types)
  * `impl From<SystemTime> for DateTime { fn from(timestamp) -> DateTime { .. } }`  every statement of the body
  * `impl fmt::Display for DateTime { fn fmt(&self, f) -> fmt::Result { .. } }`      every statement of the body,
    including the format strings of the `write!` calls (literal text, `{}` and `{:0w}` placeholders, argument order);
  * fmt/time/mod.rs: `impl FormatTime for SystemTime { fn format_time(..) { write!(w, "{}", datetime::DateTime::from(
    std::time::SystemTime::now())) } }` and the verification hook `__verif_format_system_time(t, w)`: the two must be the
    same expression up to the instant (`SystemTime::now()` / the caller-supplied `t`); it becomes [format_system_time].

How it is translated (vocabulary: coq/theories/Time/MuslBase.v): one monadic step per Rust operation, in evaluation
order, at the operand type Rust infers —
    a + b, a - b, a * b, -a   ->  add/sub/mul/neg md TY a b      (overflow: panic in debug, wrap in release)
    a / b, a % b              ->  div/rem TY a b                 (truncating; panic on 0 and MIN / -1)
    e as T, T::from(e)        ->  m_cast md T e
    a.wrapping_neg()          ->  wrapping_neg md TY a
    TABLE[i]                  ->  nth_Z TABLE i                  (out of bounds: panic)
    debug_assert!(c)          ->  m_dassert md c
    let / let mut / x op= e   ->  a (re)binding of v_x
    if c { .. } [else ..]     ->  the variables assigned inside are re-bound from an `if .. then .. else ..`
    while c { .. }            ->  a Fixpoint over the variables assigned inside; the fuel is one more than the
                                  length of the table the condition indexes with a counter the body increments by one
                                  (the index runs off the table, a panic, before the fuel can run out)
    match timestamp.duration_since(UNIX_EPOCH) { Ok(d) => .., Err(e) => .. }   ->  match std_duration_since_epoch ..
    write!(f, "..{}..{:0w}..", a, b)   ->  the text written so far ++ literal bytes ++ fmt_int 0 a ++ fmt_int w b ..
The statement list of `from` is cut (only for the benefit of the proofs; the composition [from_parts] is generated
too, in source order, with the live variables computed here) at the declarations of `days`, `qc_cycles`, `c_cycles`,
`years`, `months` and after the `while` loop:  split, day_split, cycle_split, in_cycle, years_of, months_of, finish.

Fails closed: any token, statement, expression, type or format specification outside this subset is reported in the
returned `unrecognised` list and in `gen_datetime_unrecognised` of the generated file, and every generated function is
then the constant [None], so no theorem over Time/Musl.v goes through and the model disagrees with the code everywhere.

main(repo, out) -> (text, unrecognised)."""
import os
import re
import sys

HERE = os.path.dirname(os.path.abspath(__file__))
sys.path.insert(0, HERE)
from rsparse import strip_comments  # noqa: E402
import time_consts as tc  # noqa: E402

SRC = "tracing-subscriber/src/fmt/time/datetime.rs"
SRC_MOD = "tracing-subscriber/src/fmt/time/mod.rs"
ITY = {"i8": "I8", "u8": "U8", "i32": "I32", "u32": "U32", "i64": "I64", "u64": "U64", "usize": "USIZE"}
TY_MIN = {"i8": -128, "i32": -2 ** 31, "i64": -2 ** 63, "u8": 0, "u32": 0, "u64": 0, "usize": 0}
TY_MAX = {"i8": 127, "i32": 2 ** 31 - 1, "i64": 2 ** 63 - 1, "u8": 255, "u32": 2 ** 32 - 1, "u64": 2 ** 64 - 1, "usize": 2 ** 64 - 1}
FIELDS = ["year", "month", "day", "hour", "minute", "second", "nanos"]           # the constructor DT of MuslBase.v
BLOCK_MARKS = [("day_split", "days"), ("cycle_split", "qc_cycles"), ("in_cycle", "c_cycles"), ("years_of", "years"),
               ("months_of", "months")]
DEFS = ["split", "day_split", "cycle_split", "in_cycle", "years_of", "month_loop", "months_of", "finish", "from_parts",
        "from_systemtime", "display"]


class Unrec(Exception):
    pass


# ------------------------------------------------------------------------------------------------------------------
# tokens

TOK = re.compile(r'''(?P<str>"(?:\\.|[^"\\])*")
 |(?P<num>\d[\d_]*(?:[iu](?:8|16|32|64|128|size))?)
 |(?P<id>[A-Za-z_][A-Za-z0-9_]*)
 |(?P<life>'[A-Za-z_]+)
 |(?P<op>::|->|=>|==|!=|<=|>=|\+=|-=|\*=|/=|%=|&&|\|\||[-+*/%=<>!&?.,;:(){}\[\]])''', re.X)


def tokenize(text, base=0):
    toks = []
    i, n = 0, len(text)
    while i < n:
        if text[i].isspace():
            i += 1
            continue
        m = TOK.match(text, i)
        if not m:
            raise Unrec("token at `%s`" % text[i:i + 20].split("\n")[0])
        toks.append((m.lastgroup, m.group(0), base + m.start(), base + m.end()))
        i = m.end()
    return toks


# ------------------------------------------------------------------------------------------------------------------
# parser (the subset of Rust that datetime.rs is written in)

class Parser:
    def __init__(self, text):
        self.text = text
        self.toks = tokenize(text)
        self.p = 0

    def peek(self, k=0):
        return self.toks[self.p + k][1] if self.p + k < len(self.toks) else None

    def kind(self, k=0):
        return self.toks[self.p + k][0] if self.p + k < len(self.toks) else None

    def take(self, want=None):
        if self.p >= len(self.toks):
            raise Unrec("unexpected end of input" + (", expected `%s`" % want if want else ""))
        t = self.toks[self.p]
        if want is not None and t[1] != want:
            raise Unrec("expected `%s`, found `%s` at `%s`" % (want, t[1], self.text[t[2]:t[2] + 30].split("\n")[0]))
        self.p += 1
        return t[1]

    def pos(self):
        return self.toks[self.p][2] if self.p < len(self.toks) else len(self.text)

    def prev_end(self):
        return self.toks[self.p - 1][3]

    # ---- types / patterns
    def ty(self):
        segs = [self.take()]
        while self.peek() == "::":
            self.take()
            segs.append(self.take())
        return segs[-1] if len(segs) == 1 else "::".join(segs)

    def pat(self):
        if self.peek() == "(":
            self.take()
            ps = []
            while self.peek() != ")":
                ps.append(self.pat())
                if self.peek() == ",":
                    self.take()
            self.take(")")
            return ("ptuple", ps)
        mut = False
        if self.peek() == "mut":
            self.take()
            mut = True
        if self.kind() != "id":
            raise Unrec("pattern `%s`" % self.peek())
        return ("pvar", self.take(), mut)

    # ---- blocks and statements
    def block(self):
        """`{ stmt* tail? }` -> ('block', [(stmt, source_text)], tail_expr | None)"""
        self.take("{")
        stmts, tail, tail_src = [], None, ""
        while self.peek() != "}":
            start = self.pos()
            t = self.peek()
            if t == "let":
                self.take()
                p = self.pat()
                ty = None
                if self.peek() == ":":
                    self.take()
                    ty = self.ty()
                self.take("=")
                e = self.expr()
                self.take(";")
                st = ("let", p, ty, e)
            elif t in ("const", "static"):
                depth = 0                          # the named constants are time_consts.py's business
                while depth > 0 or self.peek() != ";":
                    t2 = self.take()
                    depth += (t2 in "([{") - (t2 in ")]}")
                self.take(";")
                continue
            elif t == "while":
                self.take()
                c = self.expr()
                b = self.block()
                if self.peek() == ";":
                    self.take()
                st = ("while", c, b)
            else:
                e = self.expr()
                if self.peek() in ("=", "+=", "-=", "*=", "/=", "%="):
                    op = self.take()
                    if e[0] != "var":
                        raise Unrec("assignment to `%s`" % (e,))
                    rhs = self.expr()
                    st = ("assign", e[1], op, rhs)
                    if self.peek() == ";":
                        self.take()
                    elif self.peek() != "}":
                        raise Unrec("expected `;` after assignment, found `%s`" % self.peek())
                elif self.peek() == ";":
                    self.take()
                    st = ("expr", e)
                elif self.peek() == "}":
                    if e[0] == "if" and e[3] is None:
                        st = ("expr", e)            # `if c { .. }` of type () in tail position
                    else:
                        tail = e
                        tail_src = " ".join(self.text[start:self.prev_end()].split())
                        break
                elif e[0] in ("if", "match"):
                    st = ("expr", e)                # block-like expression statement, no `;` needed
                else:
                    raise Unrec("expected `;`, found `%s`" % self.peek())
            stmts.append((st, " ".join(self.text[start:self.prev_end()].split())))
        self.take("}")
        return ("block", stmts, tail, tail_src)

    # ---- expressions (Rust precedence: unary, `as`, * / %, + -, comparison)
    def expr(self):
        l = self.additive()
        if self.peek() in ("==", "!=", "<", "<=", ">", ">="):
            op = self.take()
            r = self.additive()
            return ("cmp", op, l, r)
        if self.peek() in ("&&", "||"):
            raise Unrec("operator `%s`" % self.peek())
        return l

    def additive(self):
        l = self.multiplicative()
        while self.peek() in ("+", "-"):
            op = self.take()
            l = ("bin", op, l, self.multiplicative())
        return l

    def multiplicative(self):
        l = self.castexpr()
        while self.peek() in ("*", "/", "%"):
            op = self.take()
            l = ("bin", op, l, self.castexpr())
        return l

    def castexpr(self):
        e = self.unary()
        while self.peek() == "as":
            self.take()
            e = ("cast", e, self.ty())
        return e

    def unary(self):
        if self.peek() == "-":
            self.take()
            return ("neg", self.unary())
        if self.peek() in ("!", "&", "*"):
            raise Unrec("unary `%s`" % self.peek())
        return self.postfix()

    def args(self):
        self.take("(")
        a = []
        while self.peek() != ")":
            a.append(self.expr())
            if self.peek() == ",":
                self.take()
            elif self.peek() != ")":
                raise Unrec("expected `,` or `)` in arguments, found `%s`" % self.peek())
        self.take(")")
        return a

    def postfix(self):
        e = self.primary()
        while True:
            t = self.peek()
            if t == ".":
                self.take()
                name = self.take()
                if self.peek() == "(":
                    e = ("mcall", e, name, self.args())
                else:
                    e = ("field", e, name)
            elif t == "[":
                self.take()
                i = self.expr()
                self.take("]")
                e = ("index", e, i)
            elif t == "?":
                self.take()
                e = ("try", e)
            else:
                return e

    def primary(self):
        k, t = self.kind(), self.peek()
        if k == "num":
            self.take()
            m = re.fullmatch(r"(\d[\d_]*?)((?:[iu](?:8|16|32|64|128|size))?)", t)
            return ("num", int(m.group(1).replace("_", "")), m.group(2) or None)
        if t == "(":
            self.take()
            es = []
            trailing = False
            while self.peek() != ")":
                es.append(self.expr())
                trailing = False
                if self.peek() == ",":
                    self.take()
                    trailing = True
            self.take(")")
            if len(es) == 1 and not trailing:
                return es[0]
            return ("tuple", es)
        if t == "if":
            self.take()
            c = self.expr()
            th = self.block()
            el = None
            if self.peek() == "else":
                self.take()
                if self.peek() == "if":
                    el = ("elseif", self.primary())
                else:
                    el = self.block()
            return ("if", c, th, el)
        if t == "match":
            self.take()
            scrut = self.expr()
            self.take("{")
            arms = []
            while self.peek() != "}":
                ctor = self.take()
                self.take("(")
                binder = self.take()
                self.take(")")
                self.take("=>")
                body = self.block() if self.peek() == "{" else ("block", [], self.expr(), "")
                if self.peek() == ",":
                    self.take()
                arms.append((ctor, binder, body))
            self.take("}")
            return ("match", scrut, arms)
        if t == "{":
            raise Unrec("block expression")
        if k == "id":
            segs = [self.take()]
            while self.peek() == "::":
                self.take()
                segs.append(self.take())
            if self.peek() == "!":
                self.take()
                name = segs[-1]
                self.take("(")
                if name == "write":
                    dest = self.expr()
                    self.take(",")
                    if self.kind() != "str":
                        raise Unrec("write! without a literal format string")
                    fmt = self.take()
                    a = []
                    while self.peek() == ",":
                        self.take()
                        if self.peek() == ")":
                            break
                        a.append(self.expr())
                    self.take(")")
                    return ("write", dest, fmt, a)
                if name == "debug_assert":
                    c = self.expr()
                    if self.peek() == ",":
                        raise Unrec("debug_assert! with a message")
                    self.take(")")
                    return ("dassert", c)
                raise Unrec("macro `%s!`" % name)
            if self.peek() == "(":
                return ("call", segs, self.args())
            if self.peek() == "{" and segs == ["DateTime"]:
                self.take()
                fs = []
                while self.peek() != "}":
                    name = self.take()
                    if self.peek() == ":":
                        self.take()
                        fs.append((name, self.expr()))
                    else:
                        fs.append((name, ("var", name)))
                    if self.peek() == ",":
                        self.take()
                self.take("}")
                return ("struct", "DateTime", fs)
            if len(segs) == 1:
                return ("var", segs[0])
            return ("path", segs)
        raise Unrec("expression at `%s`" % t)


# ------------------------------------------------------------------------------------------------------------------
# variable analysis (for `if` merges, loops and the cut into blocks)

def expr_reads(e, acc):
    """names read by expression e, in order of first occurrence (also inside nested blocks)"""
    k = e[0]
    if k == "var":
        if e[1] not in acc:
            acc.append(e[1])
    elif k in ("num", "path"):
        pass
    elif k in ("field", "cast", "neg", "try"):
        expr_reads(e[1], acc)
    elif k == "mcall":
        expr_reads(e[1], acc)
        for a in e[3]:
            expr_reads(a, acc)
    elif k == "call":
        for a in e[2]:
            expr_reads(a, acc)
    elif k == "index":
        expr_reads(e[1], acc)
        expr_reads(e[2], acc)
    elif k in ("bin", "cmp"):
        expr_reads(e[2], acc)
        expr_reads(e[3], acc)
    elif k == "tuple":
        for a in e[1]:
            expr_reads(a, acc)
    elif k == "struct":
        for _, a in e[2]:
            expr_reads(a, acc)
    elif k == "dassert":
        expr_reads(e[1], acc)
    elif k == "write":
        expr_reads(e[1], acc)
        for a in e[3]:
            expr_reads(a, acc)
    elif k == "if":
        for n in free_vars_expr(e):
            if n not in acc:
                acc.append(n)
    elif k == "elseif":
        expr_reads(e[1], acc)
    elif k == "match":
        for n in free_vars_expr(e):
            if n not in acc:
                acc.append(n)
    else:
        raise Unrec("expression kind %s" % k)


def pat_vars(p):
    return [p[1]] if p[0] == "pvar" else [v for q in p[1] for v in pat_vars(q)]


def block_info(stmts, tail):
    """-> (free, declared, assigned): names read before being declared here (first-use order), names declared at this
    level, names assigned (here or in nested blocks) that are not declared here (i.e. belong to an enclosing scope)."""
    free, declared, assigned = [], [], []

    def read(n):
        if n not in declared and n not in free:
            free.append(n)

    def wrote(n):
        if n not in declared and n not in assigned:
            assigned.append(n)

    def sub(fr, asg):
        for n in fr:
            read(n)
        for n in asg:
            wrote(n)

    def do_expr(e):
        if e[0] == "if":
            do_expr(e[1])
            sub(*block_info(e[2][1], e[2][2])[::2])
            if e[3] is not None:
                if e[3][0] == "elseif":
                    do_expr(e[3][1])
                else:
                    sub(*block_info(e[3][1], e[3][2])[::2])
        elif e[0] == "match":
            do_expr(e[1])
            for _, binder, b in e[2]:
                fr, _, asg = block_info(b[1], b[2])
                sub([n for n in fr if n != binder], asg)
        elif e[0] == "try":
            do_expr(e[1])
        elif e[0] == "write":
            acc = []
            expr_reads(e, acc)
            for n in acc:
                read(n)
            if e[1][0] == "var":
                wrote(e[1][1])
        else:
            acc = []
            expr_reads(e, acc)
            for n in acc:
                read(n)

    for st, _ in stmts:
        if st[0] == "let":
            do_expr(st[3])
            for v in pat_vars(st[1]):
                if v not in declared:
                    declared.append(v)
        elif st[0] == "assign":
            do_expr(st[3])
            if st[2] != "=":
                read(st[1])
            wrote(st[1])
        elif st[0] == "expr":
            do_expr(st[1])
        elif st[0] == "while":
            do_expr(st[1])
            sub(*block_info(st[2][1], st[2][2])[::2])
    if tail is not None:
        do_expr(tail)
    return free, declared, assigned


def free_vars_expr(e):
    fr, _, _ = block_info([(("expr", e), "")], None)
    return fr


# ------------------------------------------------------------------------------------------------------------------
# code generation

def zlit(n):
    return "(%d)" % n if n < 0 else "%d" % n


def coq_tuple(names):
    return names[0] if len(names) == 1 else "(" + ", ".join(names) + ")"


def coq_pat(names):
    if not names:
        return "_"
    return names[0] if len(names) == 1 else "'(" + ", ".join(names) + ")"


def coq_prod(n):
    return "unit" if n == 0 else " * ".join(["Z"] * n)


def comment(s):
    return "(* " + s.replace("(*", "( *").replace("*)", "* )") + " *)"


class Gen:
    def __init__(self, consts, table, fields):
        self.consts = consts          # name -> rust type
        self.tables = table           # name -> element type
        self.fields = fields          # DateTime field -> rust type
        self.n = 0
        self.hoisted = []
        self.loop_names = []

    def fresh(self):
        self.n += 1
        return "t%d" % self.n

    # ---- types
    def ty_of(self, e, env, hint=None):
        k = e[0]
        if k == "num":
            return e[2] or hint
        if k == "var":
            if e[1] in env and env[e[1]][0] == "int":
                return env[e[1]][2]
            if e[1] in self.consts:
                return self.consts[e[1]]
            raise Unrec("variable `%s`" % e[1])
        if k == "path":
            if len(e[1]) == 2 and e[1][0] in ITY and e[1][1] in ("MAX", "MIN"):
                return e[1][0]
            raise Unrec("path `%s`" % "::".join(e[1]))
        if k == "field":
            if e[1] == ("var", "self") and e[2] in self.fields:
                return self.fields[e[2]]
            raise Unrec("field access `.%s`" % e[2])
        if k == "mcall":
            if e[2] == "as_secs":
                return "u64"
            if e[2] == "subsec_nanos":
                return "u32"
            if e[2] == "wrapping_neg":
                return self.ty_of(e[1], env, hint)
            raise Unrec("method `.%s()`" % e[2])
        if k == "call":
            if len(e[1]) == 2 and e[1][0] in ITY and e[1][1] == "from":
                return e[1][0]
            raise Unrec("call `%s`" % "::".join(e[1]))
        if k == "index":
            if e[1][0] == "var" and e[1][1] in self.tables:
                return self.tables[e[1][1]]
            raise Unrec("indexing of `%s`" % (e[1],))
        if k == "cast":
            if e[2] not in ITY:
                raise Unrec("cast to `%s`" % e[2])
            return e[2]
        if k == "neg":
            return self.ty_of(e[1], env, hint)
        if k == "bin":
            return self.ty_of(e[2], env, None) or self.ty_of(e[3], env, None) or hint
        raise Unrec("no integer type for expression kind %s" % k)

    def ity(self, ty, what):
        if ty not in ITY:
            raise Unrec("type `%s` of %s" % (ty, what))
        return ITY[ty]

    # ---- integer expressions; k(atom, rust_type) -> text of the continuation
    def bind(self, term, k, ty, target=None):
        t = target or self.fresh()
        return "%s <- %s ;;\n%s" % (t, term, k(t, ty))

    def expr(self, e, env, hint, k, target=None):
        kind = e[0]
        if kind == "num":
            ty = e[2] or hint
            if ty is not None and not (TY_MIN[ty] <= e[1] <= TY_MAX[ty]):
                raise Unrec("literal %d out of range of %s" % (e[1], ty))
            return k(zlit(e[1]), ty)
        if kind == "var":
            if e[1] in env and env[e[1]][0] == "int":
                return k(env[e[1]][1], env[e[1]][2])
            if e[1] in self.consts:
                return k(e[1], self.consts[e[1]])
            raise Unrec("variable `%s`" % e[1])
        if kind == "path":
            ty = self.ty_of(e, env)
            return k(zlit(TY_MAX[ty] if e[1][1] == "MAX" else TY_MIN[ty]), ty)
        if kind == "field":
            ty = self.ty_of(e, env)
            return k("(%s dt)" % e[2], ty)
        if kind == "mcall":
            recv = e[1]
            if e[2] in ("as_secs", "subsec_nanos"):
                if e[3] or recv[0] != "var" or recv[1] not in env or env[recv[1]][0] != "dur":
                    raise Unrec("`.%s()` on something that is not a Duration" % e[2])
                return k(env[recv[1]][1 if e[2] == "as_secs" else 2], self.ty_of(e, env))
            if e[2] == "wrapping_neg" and not e[3]:
                ty = self.ty_of(recv, env, hint)
                if ty is None or not ty.startswith("i"):
                    raise Unrec("wrapping_neg at type %s" % ty)
                return self.expr(recv, env, ty,
                                 lambda a, _: self.bind("wrapping_neg md %s %s" % (self.ity(ty, "wrapping_neg"), a), k, ty, target))
            raise Unrec("method `.%s()`" % e[2])
        if kind == "call":
            ty = self.ty_of(e, env)
            if len(e[2]) != 1:
                raise Unrec("`%s::from` with %d arguments" % (ty, len(e[2])))
            src_ty = self.ty_of(e[2][0], env)
            if src_ty is None or not (TY_MIN[ty] <= TY_MIN[src_ty] and TY_MAX[src_ty] <= TY_MAX[ty]):
                raise Unrec("`%s::from(%s)` is not a lossless conversion" % (ty, src_ty))
            return self.expr(e[2][0], env, None, lambda a, _: self.bind("m_cast md %s %s" % (ITY[ty], a), k, ty, target))
        if kind == "index":
            ty = self.ty_of(e, env)
            return self.expr(e[2], env, "usize", lambda a, _: self.bind("nth_Z %s %s" % (e[1][1], a), k, ty, target))
        if kind == "cast":
            ty = self.ty_of(e, env)
            return self.expr(e[1], env, None, lambda a, _: self.bind("m_cast md %s %s" % (ITY[ty], a), k, ty, target))
        if kind == "neg":
            if e[1][0] == "num":
                ty = e[1][2] or hint
                return k(zlit(-e[1][1]), ty)
            ty = self.ty_of(e, env, hint)
            return self.expr(e[1], env, ty, lambda a, _: self.bind("neg md %s %s" % (self.ity(ty, "unary minus"), a), k, ty, target))
        if kind == "bin":
            ty = self.ty_of(e, env, hint)
            if ty is None:
                raise Unrec("no type for `%s` expression" % e[1])
            T = self.ity(ty, "`%s`" % e[1])
            op = {"+": "add md %s" % T, "-": "sub md %s" % T, "*": "mul md %s" % T, "/": "div %s" % T, "%": "rem %s" % T}[e[1]]
            return self.expr(e[2], env, ty, lambda a, _: self.expr(e[3], env, ty, lambda b, _2: self.bind("%s %s %s" % (op, a, b), k, ty, target)))
        raise Unrec("integer expression of kind %s" % kind)

    def cond(self, e, env, k):
        if e[0] != "cmp":
            raise Unrec("condition that is not a comparison")
        ty = self.ty_of(e[2], env, None) or self.ty_of(e[3], env, None)
        if ty is None:
            raise Unrec("comparison of two untyped literals")
        op = e[1]

        def fin(a, b):
            return {"<": "(%s <? %s)" % (a, b), "<=": "(%s <=? %s)" % (a, b), ">": "(%s <? %s)" % (b, a),
                    ">=": "(%s <=? %s)" % (b, a), "==": "(%s =? %s)" % (a, b), "!=": "(negb (%s =? %s))" % (a, b)}[op]
        return self.expr(e[2], env, ty, lambda a, _: self.expr(e[3], env, ty, lambda b, _2: k(fin(a, b))))

    # ---- statements; k(env) -> text
    def merge(self, names, env):
        """after an `if` / loop the variables `names` are re-bound under their own names"""
        env2 = dict(env)
        for n in names:
            env2[n] = (env[n][0], "v_" + n, env[n][2]) if env[n][0] in ("int", "out") else env[n]
        return env2

    def atoms(self, names, env):
        return [env[n][1] for n in names]

    def stmts(self, lst, env, k):
        if not lst:
            return k(env)
        (st, _src), rest = lst[0], lst[1:]
        cont = lambda env2: self.stmts(rest, env2, k)   # noqa: E731
        return self.stmt(st, env, cont)

    def stmt(self, st, env, cont):
        kind = st[0]
        if kind == "let":
            pat, ty, e = st[1], st[2], st[3]
            if pat[0] == "pvar":
                name = pat[1]
                if e[0] == "mcall" and e[2] == "duration" and e[1][0] == "var" and env.get(e[1][1], (None,))[0] == "err":
                    env2 = dict(env)
                    env2[name] = ("dur",) + env[e[1][1]][1:]
                    return cont(env2)
                if ty is not None and ty not in ITY:
                    raise Unrec("let with type `%s`" % ty)

                def after(a, t2):
                    t3 = ty or t2
                    if t3 is None:
                        raise Unrec("no type for `let %s`" % name)
                    env2 = dict(env)
                    env2[name] = ("int", a, t3)
                    return cont(env2)
                return self.expr(e, env, ty, after, target="v_" + name)
            # tuple pattern
            names = pat_vars(pat)
            if any(p[0] != "pvar" for p in pat[1]) or ty is not None:
                raise Unrec("nested tuple pattern / typed tuple pattern")
            if e[0] == "tuple":
                if len(e[1]) != len(names):
                    raise Unrec("tuple arity")

                def go(i, env2):
                    if i == len(names):
                        return cont(env2)

                    def after(a, t2):
                        if t2 is None:
                            raise Unrec("no type for `%s`" % names[i])
                        env3 = dict(env2)
                        env3[names[i]] = ("int", a, t2)
                        return go(i + 1, env3)
                    return self.expr(e[1][i], env, None, after, target="v_" + names[i])
                return go(0, env)
            if e[0] in ("if", "match"):
                types = [None] * len(names)
                body = self.valued(e, env, len(names), types)
                if any(t is None for t in types):
                    raise Unrec("no type for a component of `let (%s)`" % ", ".join(names))
                env2 = dict(env)
                for n, t in zip(names, types):
                    env2[n] = ("int", "v_" + n, t)
                return "%s <- (%s) ;;\n%s" % (coq_pat(["v_" + n for n in names]), body, cont(env2))
            raise Unrec("let (..) = expression of kind %s" % e[0])
        if kind == "assign":
            name, op, rhs = st[1], st[2], st[3]
            if name not in env or env[name][0] != "int":
                raise Unrec("assignment to `%s`" % name)
            ty = env[name][2]
            e = rhs if op == "=" else ("bin", op[0], ("var", name), rhs)

            def after(a, _):
                env2 = dict(env)
                env2[name] = ("int", a, ty)
                return cont(env2)
            return self.expr(e, env, ty, after, target="v_" + name)
        if kind == "while":
            return self.while_loop(st[1], st[2], env, cont)
        if kind == "expr":
            e = st[1]
            if e[0] == "dassert":
                self.no_panic_inside(e[1])
                return self.cond(e[1], env, lambda c: "_ <- m_dassert md %s ;;\n%s" % (c, cont(env)))
            if e[0] == "try" and e[1][0] == "write":
                return self.write(e[1], env, cont)
            if e[0] == "if":
                return self.if_stmt(e, env, cont)
            raise Unrec("expression statement of kind %s" % e[0])
        raise Unrec("statement kind %s" % kind)

    def no_panic_inside(self, e):
        """release builds do not evaluate a debug_assert!'s argument: it must not contain anything that can panic there"""
        if e[0] in ("index",) or (e[0] == "bin" and e[1] in "/%"):
            raise Unrec("division / indexing inside debug_assert!")
        for x in e[1:]:
            if isinstance(x, tuple):
                self.no_panic_inside(x)
            elif isinstance(x, list):
                for y in x:
                    if isinstance(y, tuple):
                        self.no_panic_inside(y)

    def if_stmt(self, e, env, cont):
        _, _, assigned = block_info([(("expr", e), "")], None)
        names = [n for n in env if n in assigned]            # declaration order
        for n in names:
            if env[n][0] not in ("int", "out"):
                raise Unrec("assignment to `%s` inside if" % n)
        env_after = self.merge(names, env)

        def branch(b, env_b):
            if b is None:
                return "Some %s" % coq_tuple(self.atoms(names, env_b) or ["tt"])
            if b[0] == "elseif":
                return self.if_stmt(b[1], env_b, lambda env2: "Some %s" % coq_tuple(self.atoms(names, env2) or ["tt"]))
            if b[2] is not None:
                raise Unrec("value of an `if` statement's block is not ()")
            return self.stmts(b[1], env_b, lambda env2: "Some %s" % coq_tuple(self.atoms(names, env2) or ["tt"]))

        def after_cond(c):
            return "%s <- (if %s then\n%s\nelse\n%s) ;;\n%s" % (
                coq_pat(["v_" + n for n in names]), c, indent(branch(e[2], env)), indent(branch(e[3], env)), cont(env_after))
        return self.cond(e[1], env, after_cond)

    def valued(self, e, env, n, types):
        """an `if` / `match` / block-with-tail whose value is an n-tuple of integers -> Coq term of type option (Z * .. * Z)"""
        def tail_value(t, env_t):
            if t is None:
                raise Unrec("branch without a value")
            if t[0] in ("if", "match"):
                return self.valued(t, env_t, n, types)
            comps = t[1] if t[0] == "tuple" else [t]
            if len(comps) != n:
                raise Unrec("branch value has %d components, expected %d" % (len(comps), n))

            def go(i, acc):
                if i == n:
                    return "Some %s" % coq_tuple(acc)

                def after(a, ty):
                    if types[i] is None:
                        types[i] = ty
                    elif ty is not None and ty != types[i]:
                        raise Unrec("branches disagree on the type of component %d (%s / %s)" % (i, types[i], ty))
                    return go(i + 1, acc + [a])
                return self.expr(comps[i], env_t, types[i], after)
            return go(0, [])

        def blk(b, env_b):
            if b[0] == "elseif":
                return self.valued(b[1], env_b, n, types)
            return self.stmts(b[1], env_b, lambda env2: tail_value(b[2], env2))

        if e[0] == "if":
            if e[3] is None:
                raise Unrec("valued `if` without else")
            # types of the else branch may be needed by literals of the then branch: pre-compute them (pure)
            self.pre_types(e, env, n, types)
            return self.cond(e[1], env, lambda c: "if %s then\n%s\nelse\n%s" % (c, indent(blk(e[2], env)), indent(blk(e[3], env))))
        if e[0] == "match":
            scrut = e[1]
            ok = (scrut[0] == "mcall" and scrut[2] == "duration_since" and scrut[1][0] == "var"
                  and env.get(scrut[1][1], (None,))[0] == "systime" and len(scrut[3]) == 1
                  and scrut[3][0][0] in ("path", "var") and (scrut[3][0][1][-1] if scrut[3][0][0] == "path" else scrut[3][0][1]) == "UNIX_EPOCH")
            if not ok:
                raise Unrec("match on something other than `timestamp.duration_since(UNIX_EPOCH)`")
            arms = {a[0]: a for a in e[2]}
            if sorted(arms) != ["Err", "Ok"] or len(e[2]) != 2:
                raise Unrec("match arms %s" % [a[0] for a in e[2]])
            _, tvs, tvn = env[scrut[1][1]]
            out = ["match std_duration_since_epoch %s %s with" % (tvs, tvn)]
            for ctor, coqc, kind in (("Ok", "DOk", "dur"), ("Err", "DErr", "err")):
                _, binder, body = arms[ctor]
                env_b = dict(env)
                env_b[binder] = (kind, "d_secs", "d_nanos")
                out.append("| %s d_secs d_nanos =>\n%s" % (coqc, indent(blk(body, env_b))))
            out.append("end")
            return "\n".join(out)
        raise Unrec("valued expression of kind %s" % e[0])

    def pre_types(self, e, env, n, types):
        """best-effort: fill `types` from tuple tails whose components have a type without generating code"""
        def from_block(b):
            if b is None:
                return
            if b[0] == "elseif":
                self.pre_types(b[1], env, n, types)
                return
            t = b[2]
            if t is None or b[1]:
                return            # tails that depend on local lets are typed during generation
            if t[0] == "if":
                self.pre_types(t, env, n, types)
                return
            comps = t[1] if t[0] == "tuple" else [t]
            for i, c in enumerate(comps[:n]):
                if types[i] is None:
                    try:
                        types[i] = self.ty_of(c, env, None)
                    except Unrec:
                        pass
        from_block(e[2])
        from_block(e[3])

    def while_loop(self, c, body, env, cont):
        free, declared, assigned = block_info([(("while", c, body), "")], None)
        carried = [n for n in env if n in assigned]
        params = [n for n in free if n not in carried and n in env]
        for n in carried + params:
            if env[n][0] != "int":
                raise Unrec("loop over a non-integer variable `%s`" % n)
        # fuel: the condition indexes a table with `<counter> as usize`, and the body increments the counter by one
        table, counter = None, None

        def find_index(e):
            nonlocal table, counter
            if isinstance(e, tuple):
                if e and e[0] == "index" and e[1][0] == "var" and e[1][1] in self.tables:
                    i = e[2]
                    if i[0] == "cast" and i[1][0] == "var":
                        table, counter = e[1][1], i[1][1]
                for x in e[1:]:
                    find_index(x)
            elif isinstance(e, list):
                for x in e:
                    find_index(x)
        find_index(c)
        incs = [st for st, _ in body[1] if st[0] == "assign" and st[1] == counter and st[2] == "+=" and st[3] == ("num", 1, None)]
        others = [st for st, _ in body[1] if st[0] == "assign" and st[1] == counter and st not in incs]
        if table is None or len(incs) != 1 or others or body[2] is not None or any(st[0] not in ("assign",) for st, _ in body[1]):
            raise Unrec("while loop whose bound is not `TABLE[counter as usize]` with `counter += 1` in a straight-line body")
        name = "month_loop" if table == "DAYS_IN_MONTH" and "month_loop" not in self.loop_names else "while_loop_%d" % (len(self.loop_names) + 1)
        self.loop_names.append(name)
        env_in = dict(env)
        for n in carried + params:
            env_in[n] = ("int", "v_" + n, env[n][2])
        args = " ".join("v_" + n for n in carried + params)
        rec = lambda env2: "%s md fuel' %s" % (name, " ".join(self.atoms(carried + params, env2)))   # noqa: E731
        inner = self.cond(c, env_in, lambda ctext: "if %s then\n%s\nelse Some %s" % (
            ctext, indent(self.stmts(body[1], env_in, rec)), coq_tuple(["v_" + n for n in carried])))
        self.hoisted.append((name, "Fixpoint %s (md : mode) (fuel : nat) (%s : Z) : option (%s) :=\n  match fuel with\n  | O => None\n  | S fuel' =>\n%s\n  end."
                             % (name, args, coq_prod(len(carried)), indent(inner, 6))))
        env_after = self.merge(carried, env)
        return "%s <- %s md (S (List.length %s)) %s ;;\n%s" % (
            coq_pat(["v_" + n for n in carried]), name, table, " ".join(self.atoms(carried + params, env)), cont(env_after))

    # ---- Display
    def write(self, e, env, cont, final=False):
        dest = e[1]
        if dest[0] != "var" or env.get(dest[1], (None,))[0] != "out":
            raise Unrec("write! to something other than the formatter")
        pieces = parse_format(e[2])
        nph = sum(1 for p in pieces if p[0] == "int")
        if nph != len(e[3]):
            raise Unrec("format string has %d placeholders for %d arguments" % (nph, len(e[3])))
        cur = env[dest[1]][1]
        widths = [p[1] for p in pieces if p[0] == "int"]

        def fmt(vals):
            """all arguments are evaluated (format_args!) before anything is written"""
            lines, acc, vi = [], [], 0
            for p in pieces:
                if p[0] == "lit":
                    acc.append("[" + "; ".join(str(b) for b in p[1]) + "]")
                else:
                    t = self.fresh().replace("t", "p", 1)
                    lines.append("%s <- fmt_int %d %s ;;\n" % (t, p[1], vals[vi]))
                    acc.append(t)
                    vi += 1
            parts = ([cur] if cur != "[]" else []) + acc
            term = "(" + " ++ ".join(parts) + ")" if len(parts) > 1 else (parts[0] if parts else "[]")
            if final:
                return "".join(lines) + "Some %s" % term
            env2 = dict(env)
            env2[dest[1]] = ("out", term, None)
            return "".join(lines) + cont(env2)

        def go(argi, vals):
            if argi == len(widths):
                return fmt(vals)

            def after(a, ty):
                if ty is None:
                    raise Unrec("format argument %d has no integer type" % argi)
                return go(argi + 1, vals + [a])
            return self.expr(e[3][argi], env, None, after)
        return go(0, [])


def parse_format(lit):
    """Rust format string literal -> [('lit', [bytes]) | ('int', zero_pad_width)]   (`{}` -> width 0, `{:0w}` -> w)"""
    s = lit[1:-1]
    if "\\" in s:
        raise Unrec("escape in format string")
    out, buf, i = [], [], 0

    def flush():
        if buf:
            out.append(("lit", list(buf)))
            del buf[:]
    while i < len(s):
        c = s[i]
        if c == "{":
            if s.startswith("{{", i):
                buf.append(ord("{"))
                i += 2
                continue
            j = s.find("}", i)
            if j < 0:
                raise Unrec("unclosed `{` in format string")
            spec = s[i + 1:j]
            if spec == "":
                w = 0
            else:
                m = re.fullmatch(r":0(\d+)", spec)
                if not m:
                    raise Unrec("format specification `{%s}`" % spec)
                w = int(m.group(1))
            flush()
            out.append(("int", w))
            i = j + 1
        elif c == "}":
            if s.startswith("}}", i):
                buf.append(ord("}"))
                i += 2
                continue
            raise Unrec("stray `}` in format string")
        else:
            if ord(c) > 126 or ord(c) < 32:
                raise Unrec("non-ASCII byte in format string")
            buf.append(ord(c))
            i += 1
    flush()
    return out


def indent(s, n=2):
    pad = " " * n
    return "\n".join(pad + l if l else l for l in s.split("\n"))


# ------------------------------------------------------------------------------------------------------------------
# the two functions

def find_fn_body(src, impl_re, fn_name):
    m = re.search(impl_re, src)
    if not m:
        raise Unrec("`%s` not found" % impl_re)
    depth, i = 0, m.end() - 1
    start = i
    while i < len(src):
        if src[i] == "{":
            depth += 1
        elif src[i] == "}":
            depth -= 1
            if depth == 0:
                break
        i += 1
    body = src[start + 1:i]
    fns = list(re.finditer(r"\bfn\s+([A-Za-z_][A-Za-z0-9_]*)\s*\(", body))
    if [f.group(1) for f in fns] != [fn_name]:
        raise Unrec("impl has fns %s, expected exactly [%s]" % ([f.group(1) for f in fns], fn_name))
    sig_end = body.find("{", fns[0].end())
    sig = " ".join(body[fns[0].start():sig_end].split())
    return sig, body[sig_end:]


def read_struct(src):
    m = re.search(r"\bstruct\s+DateTime\s*\{([^}]*)\}", src)
    if not m:
        raise Unrec("struct DateTime not found")
    fields = []
    for part in m.group(1).split(","):
        part = part.strip()
        if not part:
            continue
        fm = re.fullmatch(r"(?:pub(?:\([a-z]+\))?\s+)?([a-z_][a-z0-9_]*)\s*:\s*([a-z0-9]+)", part)
        if not fm:
            raise Unrec("struct field `%s`" % part)
        fields.append((fm.group(1), fm.group(2)))
    if [f for f, _ in fields] != FIELDS:
        raise Unrec("DateTime fields are %s, the model's record has %s" % ([f for f, _ in fields], FIELDS))
    for f, t in fields:
        if t not in ITY:
            raise Unrec("field %s has type %s" % (f, t))
    return dict(fields)


def gen_from(g, sig, body_text, out):
    if not re.fullmatch(r"fn from\(\s*([a-z_]+)\s*:\s*(?:std::time::)?SystemTime\s*\)\s*->\s*(?:DateTime|Self)", sig):
        raise Unrec("signature `%s`" % sig)
    param = re.search(r"\(\s*([a-z_]+)", sig).group(1)
    P = Parser(body_text)
    blk = P.block()
    if P.p != len(P.toks):
        raise Unrec("trailing tokens after the body of from")
    stmts, tail = blk[1], blk[2]
    if tail is None or tail[0] != "struct":
        raise Unrec("body of from does not end in a `DateTime { .. }` literal")
    # -- statement 0: let (t, nanos) = match ..
    st0, src0 = stmts[0]
    if not (st0[0] == "let" and st0[1][0] == "ptuple" and st0[3][0] == "match"):
        raise Unrec("first statement of from is not `let (..) = match ..`")
    names0 = pat_vars(st0[1])
    env0 = {param: ("systime", "tv_sec", "tv_nsec")}
    types0 = [None] * len(names0)
    body0 = g.valued(st0[3], env0, len(names0), types0)
    if any(t is None for t in types0):
        raise Unrec("untyped component in the first statement")
    out.append(comment(src0))
    out.append("Definition split (md : mode) (tv_sec tv_nsec : Z) : option (%s) :=\n%s.\n" % (coq_prod(len(names0)), indent(body0)))
    types = dict(zip(names0, types0))
    # -- cut the rest into blocks
    rest = stmts[1:]
    decl_at = {}
    for i, (st, _) in enumerate(rest):
        if st[0] == "let":
            for v in pat_vars(st[1]):
                decl_at.setdefault(v, i)
    cuts = []
    for name, var in BLOCK_MARKS:
        if var not in decl_at:
            raise Unrec("no `let %s` in from (needed to cut the body into blocks)" % var)
        cuts.append((name, decl_at[var]))
    wh = [i for i, (st, _) in enumerate(rest) if st[0] == "while"]
    if len(wh) != 1 or wh[0] <= cuts[-1][1]:
        raise Unrec("expected exactly one while loop, after `let months`")
    cuts.append(("finish", wh[0] + 1))
    if [c for _, c in cuts] != sorted(c for _, c in cuts) or cuts[0][1] != 0 or len(set(c for _, c in cuts)) != len(cuts):
        raise Unrec("block marks out of order: %s" % cuts)
    bounds = [c for _, c in cuts] + [len(rest)]
    calls = []
    for bi, (name, lo) in enumerate(cuts):
        hi = bounds[bi + 1]
        seg = rest[lo:hi]
        last = name == "finish"
        free, declared, assigned = block_info(seg, tail if last else None)
        later_free, _, _ = block_info(rest[hi:], tail)
        ins = [v for v in free if v in types]
        unknown = [v for v in free if v not in types and v not in g.consts and v not in g.tables]
        if unknown:
            raise Unrec("block %s reads undeclared %s" % (name, unknown))
        outs = [v for v in declared if v in later_free] + [v for v in assigned if v in later_free]
        env = {v: ("int", "v_" + v, types[v]) for v in ins}
        for st, s in seg:
            out.append(comment(s))
        if last:
            out.append(comment(blk[3]))
            if [f for f, _ in tail[2]] != FIELDS and sorted(f for f, _ in tail[2]) != sorted(FIELDS):
                raise Unrec("struct literal fields %s" % [f for f, _ in tail[2]])
            by = dict(tail[2])

            def fin(env2):
                def go(i, acc):
                    if i == len(FIELDS):
                        return "Some (DT %s)" % " ".join(acc)
                    fty = g.fields[FIELDS[i]]

                    def after(a, ty):
                        if ty != fty:
                            raise Unrec("field %s: expression of type %s, declared %s" % (FIELDS[i], ty, fty))
                        return go(i + 1, acc + [a])
                    return g.expr(by[FIELDS[i]], env2, fty, after)
                # Rust evaluates the field expressions in the order they are written
                if [f for f, _ in tail[2]] != FIELDS:
                    raise Unrec("struct literal fields are not in declaration order")
                return go(0, [])
            code = g.stmts(seg, env, fin)
            rty = "datetime"
        else:
            final_env = {}

            def fin(env2):
                final_env.update(env2)
                return "Some %s" % coq_tuple([env2[v][1] for v in outs])
            code = g.stmts(seg, env, fin)
            for v in outs:
                types[v] = final_env[v][2]
            rty = coq_prod(len(outs))
        for hname, htext in g.hoisted:
            out.append(htext + "\n")
        g.hoisted = []
        out.append("Definition %s (md : mode) (%s : Z) : option (%s) :=\n%s.\n"
                   % (name, " ".join("v_" + v for v in ins), rty, indent(code)))
        calls.append((name, ins, outs, last))
    if "month_loop" not in g.loop_names:
        raise Unrec("no month loop recognised")
    lines = []
    for name, ins, outs, last in calls:
        call = "%s md %s" % (name, " ".join("v_" + v for v in ins))
        lines.append(call if last else "%s <- %s ;;" % (coq_pat(["v_" + v for v in outs]), call))
    out.append("(* the blocks in source order *)")
    out.append("Definition from_parts (md : mode) (%s : Z) : option datetime :=\n%s.\n"
               % (" ".join("v_" + v for v in names0), indent("\n".join(lines))))
    out.append("Definition from_systemtime (md : mode) (tv_sec tv_nsec : Z) : option datetime :=\n  %s <- split md tv_sec tv_nsec ;;\n  from_parts md %s.\n"
               % (coq_pat(["v_" + v for v in names0]), " ".join("v_" + v for v in names0)))
    shape = [(name, ["v_" + v for v in ins], ["v_" + v for v in outs]) for name, ins, outs, _ in calls]
    return shape


def gen_display(g, sig, body_text, out):
    m = re.fullmatch(r"fn fmt\(\s*&self\s*,\s*([a-z_]+)\s*:\s*&mut\s+(?:(?:std::)?fmt::)?Formatter(?:<'_>)?\s*\)\s*->\s*(?:(?:std::)?fmt::)?Result", sig)
    if not m:
        raise Unrec("signature `%s`" % sig)
    f = m.group(1)
    P = Parser(body_text)
    blk = P.block()
    if P.p != len(P.toks):
        raise Unrec("trailing tokens after the body of fmt")
    stmts, tail = blk[1], blk[2]
    if tail is None or tail[0] != "write":
        raise Unrec("body of fmt does not end in `write!(..)`")
    env = {f: ("out", "[]", None), "self": ("self",)}
    for st, s in stmts:
        out.append(comment(s))
    out.append(comment(blk[3]))
    code = g.stmts(stmts, env, lambda env2: g.write(tail, env2, None, final=True))
    out.append("Definition display (md : mode) (dt : datetime) : option (list Z) :=\n%s.\n" % indent(code))


def gen_entry(src_mod, out):
    """fmt/time/mod.rs: what SystemTime::format_time writes, and that the hook H2 writes the same for its argument"""
    def tail_of(sig_re, what):
        m = re.search(sig_re, src_mod)
        if not m:
            raise Unrec("%s not found in %s" % (what, SRC_MOD))
        i = src_mod.index("{", m.end() - 1)
        depth, j = 0, i
        while j < len(src_mod):
            depth += (src_mod[j] == "{") - (src_mod[j] == "}")
            if depth == 0:
                break
            j += 1
        P = Parser(src_mod[i:j + 1])
        blk = P.block()
        if blk[1] or blk[2] is None or blk[2][0] != "write":
            raise Unrec("%s is not a single `write!(..)`" % what)
        return m, blk[2], blk[3]
    m1, w1, src1 = tail_of(r"impl\s+FormatTime\s+for\s+SystemTime\s*\{\s*fn\s+format_time\s*\(\s*&self\s*,\s*([a-z_]+)\s*:\s*&mut\s+Writer(?:<'_>)?\s*\)\s*->\s*fmt::Result\s*\{",
                           "impl FormatTime for SystemTime")
    m2, w2, src2 = tail_of(r"pub\s+fn\s+__verif_format_system_time\s*\(\s*([a-z_]+)\s*:\s*std::time::SystemTime\s*,\s*([a-z_]+)\s*:\s*&mut\s+dyn\s+fmt::Write\s*\)\s*->\s*fmt::Result\s*\{",
                           "hook __verif_format_system_time")
    NOW = ("call", ["std", "time", "SystemTime", "now"], [])

    def norm(w, dest, instant):
        if w[1] != ("var", dest):
            raise Unrec("write! destination `%s`" % (w[1],))
        if len(w[3]) != 1 or w[3][0][0] != "call" or w[3][0][1] != ["datetime", "DateTime", "from"] or w[3][0][2] != [instant]:
            raise Unrec("argument of write! is not `datetime::DateTime::from(%s)`" % (instant,))
        return w[2]
    f1 = norm(w1, m1.group(1), NOW)
    f2 = norm(w2, m2.group(2), ("var", m2.group(1)))
    if f1 != f2:
        raise Unrec("the hook formats with %s, SystemTime::format_time with %s" % (f2, f1))
    pieces = parse_format(f1)
    if [p for p in pieces if p[0] == "int"] != [("int", 0)]:
        raise Unrec("format string %s of SystemTime::format_time is not one plain `{}`" % f1)
    parts = ["p" if p[0] == "int" else "[" + "; ".join(str(b) for b in p[1]) + "]" for p in pieces]
    out.append(comment("%s: impl FormatTime for SystemTime: %s" % (SRC_MOD, src1)))
    out.append(comment("%s: hook __verif_format_system_time(%s, %s): %s" % (SRC_MOD, m2.group(1), m2.group(2), src2)))
    out.append("Definition format_system_time (md : mode) (tv_sec tv_nsec : Z) : option (list Z) :=\n"
               "  dt <- from_systemtime md tv_sec tv_nsec ;;\n  p <- display md dt ;;\n  Some %s.\n"
               % ("(" + " ++ ".join(parts) + ")" if len(parts) > 1 else parts[0]))


def main(repo, out=None):
    path = os.path.join(repo, SRC)
    unrec = []
    parts = []
    shape = []
    try:
        src = strip_comments(open(path, encoding="utf-8").read())
        cut = src.find("#[cfg(test)]")
        if cut > 0:
            src = src[:cut]
        consts, table, cun = tc.extract(src)
        if cun:
            raise Unrec("constants: " + "; ".join(cun))
        fields = read_struct(src)
        g = Gen({k: v[0] for k, v in consts.items()}, {"DAYS_IN_MONTH": table[0]}, fields)
        sig, body = find_fn_body(src, r"impl\s+From<\s*(?:std::time::)?SystemTime\s*>\s+for\s+DateTime\s*\{", "from")
        p1 = []
        shape = gen_from(g, sig, body, p1)
        sig, body = find_fn_body(src, r"impl\s+(?:(?:std::)?fmt::)?Display\s+for\s+DateTime\s*\{", "fmt")
        p2 = []
        gen_display(g, sig, body, p2)
        p3 = []
        gen_entry(strip_comments(open(os.path.join(repo, SRC_MOD), encoding="utf-8").read()), p3)
        parts = (["(** * impl From<SystemTime> for DateTime *)", ""] + p1 + ["(** * impl Display for DateTime *)", ""] + p2
                 + ["(** * fmt/time/mod.rs: what `SystemTime::format_time` writes for an instant (ASCII codes; None = panic) *)", ""] + p3)
    except Unrec as ex:
        unrec.append(str(ex))
    except OSError as ex:
        unrec.append("cannot read %s: %s" % (SRC, ex))
    except RecursionError:
        unrec.append("source too deeply nested")
    G = ["(* GENERATED by translators/datetime_rs.py from %s.  Rewritten on every run; do not edit. *)" % SRC,
         "From Coq Require Import ZArith List String.", "From TV Require Import Time.MuslBase.",
         "From TVGen Require Import Gen_time_consts.", "Import ListNotations.", "Local Open Scope Z_scope.", ""]
    if unrec:
        G.append("(* NOT RECOGNISED: every function is the constant None. *)")
        G.append("Definition split (md : mode) (tv_sec tv_nsec : Z) : option (Z * Z) := None.")
        G.append("Definition day_split (md : mode) (v_t : Z) : option (Z * Z) := None.")
        G.append("Definition cycle_split (md : mode) (v_days : Z) : option (Z * Z) := None.")
        G.append("Definition in_cycle (md : mode) (v_remdays : Z) : option (Z * Z * Z * Z) := None.")
        G.append("Definition years_of (md : mode) (v_remyears v_q_cycles v_c_cycles v_qc_cycles : Z) : option Z := None.")
        G.append("Definition month_loop (md : mode) (fuel : nat) (v_remdays v_months : Z) : option (Z * Z) := None.")
        G.append("Definition months_of (md : mode) (v_remdays : Z) : option (Z * Z) := None.")
        G.append("Definition finish (md : mode) (v_months v_years v_remdays v_remsecs v_nanos : Z) : option datetime := None.")
        G.append("Definition from_parts (md : mode) (v_t v_nanos : Z) : option datetime := None.")
        G.append("Definition from_systemtime (md : mode) (tv_sec tv_nsec : Z) : option datetime := None.")
        G.append("Definition display (md : mode) (dt : datetime) : option (list Z) := None.")
        G.append("Definition format_system_time (md : mode) (tv_sec tv_nsec : Z) : option (list Z) := None.")
        G.append("")
    else:
        G += parts
    G.append("Definition gen_datetime_unrecognised : list string := [%s]."
             % "; ".join('"%s"%%string' % u.replace('"', "'").replace("\n", " ") for u in unrec))
    text = "\n".join(G) + "\n"
    if out:
        with open(out, "w") as f:
            f.write(text)
    return text, unrec


SELFTEST = [
    # (file, old text, new text, expectation): the translator must either follow the edit or refuse it, never ignore it
    (SRC, "if remsecs < 0i32 {", "if remsecs < 0i32 && days > 0 {", "unrecognised"),
    (SRC, "while i32::from(DAYS_IN_MONTH[months as usize]) <= remdays {", "while 30 <= remdays {", "unrecognised"),
    (SRC, "    month: u8,\n    day: u8,", "    day: u8,\n    month: u8,", "unrecognised"),
    (SRC, '"{:05}"', '"{:>5}"', "unrecognised"),
    (SRC, "let mut days: i64 =", "let _probe = t.rem_euclid(7);\n        let mut days: i64 =", "unrecognised"),
    (SRC, "remsecs += 86_400;", "remsecs += 86_400; days = days.saturating_sub(0);", "unrecognised"),
    (SRC, "duration.subsec_nanos())\n            }\n            Err", "duration.subsec_micros())\n            }\n            Err", "unrecognised"),
    (SRC_MOD, "write!(w, \"{}\", datetime::DateTime::from(t))", "write!(w, \"{}Z\", datetime::DateTime::from(t))", "unrecognised"),
    (SRC, "self.nanos / 1_000", "self.nanos / 1_024", "changed"),
    (SRC, "if self.year > 9999 {", "if self.year > 99999 {", "changed"),
    (SRC, '"{:04}"', '"{:06}"', "changed"),
    (SRC, "if q_cycles == 25 {", "if q_cycles >= 25 {", "changed"),
    (SRC, "(-secs - 1, 1_000_000_000 - nanos)", "(-secs, 1_000_000_000 - nanos)", "changed"),
    (SRC, "hour: (remsecs / 3600) as u8,", "hour: (remsecs / 3600 + 0) as u8,", "changed"),
]


def selftest(repo):
    """Apply each SELFTEST edit to a private copy of the two source files and check the translator's reaction.
    -> (applied, failures).  Edits whose anchor text is not in the current source are skipped (the source moved on)."""
    import shutil
    import tempfile
    base_text, base_unrec = main(repo, None)
    if base_unrec:
        return 0, []                       # nothing to compare with; the translator tie reports this already
    applied, failures = 0, []
    tmp = tempfile.mkdtemp(prefix="datetime_rs_selftest")
    try:
        for rel in (SRC, SRC_MOD):
            os.makedirs(os.path.dirname(os.path.join(tmp, rel)), exist_ok=True)
        for rel, old, new, expect in SELFTEST:
            texts = {r: open(os.path.join(repo, r), encoding="utf-8").read() for r in (SRC, SRC_MOD)}
            if texts[rel].count(old) != 1:
                continue
            texts[rel] = texts[rel].replace(old, new)
            for r, t in texts.items():
                with open(os.path.join(tmp, r), "w", encoding="utf-8") as f:
                    f.write(t)
            text, unrec = main(tmp, None)
            applied += 1
            if expect == "unrecognised" and not unrec:
                failures.append("edit `%s` -> `%s` was accepted" % (old[:40], new[:40]))
            if expect == "changed" and (unrec or text == base_text):
                failures.append("edit `%s` -> `%s` %s" % (old[:40], new[:40], "was refused: %s" % unrec if unrec else "left the generated model unchanged"))
    finally:
        shutil.rmtree(tmp, ignore_errors=True)
    return applied, failures


if __name__ == "__main__":
    if len(sys.argv) > 1 and sys.argv[1] == "--selftest":
        print(selftest(sys.argv[2] if len(sys.argv) > 2 else "/repo"))
        sys.exit(0)
    t, u = main(sys.argv[1] if len(sys.argv) > 1 else "/repo", sys.argv[2] if len(sys.argv) > 2 else None)
    if len(sys.argv) <= 2:
        sys.stdout.write(t)
    if u:
        print("UNRECOGNISED:", u, file=sys.stderr)
        sys.exit(2)
