"""C08 translator: the pure summary-merging functions of tracing-subscriber, re-read from the Rust source on every run.

Semantically translated (a small Rust expression/statement subset -> Gallina, `?` = early `return None`):

    subscribe/layered.rs                  Layered::pick_level_hint          -> gen_pick_level_hint
    subscribe/layered.rs                  Layered::pick_interest            -> gen_pick_interest (answer, inner asked?, interest taken?)
    filter/subscriber_filters/combinator  And / Or / Not ::callsite_enabled -> gen_and_interest, gen_or_interest, gen_not_interest
    filter/subscriber_filters/combinator  And / Or / Not ::max_level_hint   -> gen_and_hint, gen_or_hint, gen_not_hint
    filter/subscriber_filters/mod.rs      FilterState::add_interest         -> gen_add_interest

Summary/ProofsGen.v proves each of them equal to the hand-written model function on its WHOLE (finite) domain, so a
change of any of these bodies either keeps the proof (behaviour-preserving) or breaks the proof leg.

Read as flags / constants (Definition gen_... : bool / N):

    layered.rs       Layered::new: which type parameter is compared with Registry for inner_is_registry
    layered.rs       Layered::downcast_raw (Subscribe: PSF marker needs both halves, any other id either half; Collect: either) and
                     the arguments of the two max_level_hint calls of pick_level_hint
    subscribe/mod.rs Vec::register_callsite accumulators (any_never |= is_never, all_always &= is_always; never / always / sometimes)
    subscribe/mod.rs Vec::max_level_hint (starts at OFF, `?` on an element's None, cmp::max)
    subscribe/mod.rs Vec::downcast_raw: NoneLayerMarker answered iff self.is_empty()
    subscribe/mod.rs Option::None: register_callsite always, max_level_hint Some(OFF), enabled true
    filter/.../mod.rs Filtered::register_callsite: inner asked iff !interest.is_never(), its answer dropped, returns always
    reload.rs        reload::Subscriber::downcast_raw forwards exactly the NoneLayerMarker
    filter/targets.rs Targets::interested / enabled / max_level_hint all read the DirectiveSet (enabled(metadata), max_level)
    filter/env/mod.rs EnvFilter::max_level_hint: TRACE when value filters exist, else max(statics.max_level, dynamics.max_level)
    filter/directive.rs DirectiveSet::add raises max_level, and recomputes it over all directives after a replacement

main(repo, None) -> (text of coq/gen/Gen_summary.v, unrecognised list).  Everything fails closed: a shape that is not
recognised puts an entry into gen_summary_unrecognised, and ProofsGen.v needs that list to be empty."""
import os
import re
import sys

sys.path.insert(0, os.path.dirname(os.path.abspath(__file__)))
import rsparse  # noqa: E402


class Unrec(Exception):
    pass


# ------------------------------------------------------------------------------------------------
# locating function bodies

def match_brace(src, i):
    """src[i] == '{' -> index just after the matching '}' (string literals respected)."""
    assert src[i] == "{"
    d = 0
    n = len(src)
    while i < n:
        c = src[i]
        if c == '"':
            i += 1
            while i < n and src[i] != '"':
                if src[i] == "\\":
                    i += 1
                i += 1
        elif c == "{":
            d += 1
        elif c == "}":
            d -= 1
            if d == 0:
                return i + 1
        i += 1
    raise Unrec("unbalanced braces")


def block_after(src, header_re, what):
    m = re.search(header_re, src, re.S)
    if not m:
        raise Unrec("%s: header not found" % what)
    j = src.index("{", m.end() - 1) if src[m.end() - 1] != "{" else m.end() - 1
    e = match_brace(src, j)
    return src[j + 1:e - 1]


def fn_body(block, name, what):
    m = re.search(r"\bfn\s+%s\s*(?:<[^>]*>)?\s*\(" % re.escape(name), block)
    if not m:
        raise Unrec("%s: fn %s not found" % (what, name))
    # skip the parameter list and return type up to the body's opening brace
    i = m.end() - 1
    d = 0
    while True:
        if block[i] == "(":
            d += 1
        elif block[i] == ")":
            d -= 1
            if d == 0:
                break
        i += 1
    j = block.index("{", i)
    e = match_brace(block, j)
    return block[j + 1:e - 1]


# ------------------------------------------------------------------------------------------------
# a small Rust expression parser

TOK = re.compile(r"\s*(?:(\d+)|([A-Za-z_][A-Za-z_0-9]*)|(::|&&|\|\||==|!=|<=|>=|=>|\|=|&=|[(){}\[\],;.?!&*<>=|#])|(\"(?:[^\"\\\\]|\\\\.)*\"))")


def tokenize(s):
    out = []
    i = 0
    s = s.strip()
    while i < len(s):
        m = TOK.match(s, i)
        if not m or m.end() == i:
            raise Unrec("cannot tokenize at %r" % s[i:i + 30])
        out.append(m.group(1) or m.group(2) or m.group(3) or m.group(4))
        i = m.end()
        while i < len(s) and s[i].isspace():
            i += 1
    return out


class P:
    def __init__(self, toks):
        self.t = toks
        self.i = 0

    def peek(self, k=0):
        return self.t[self.i + k] if self.i + k < len(self.t) else None

    def eat(self, x=None):
        t = self.peek()
        if t is None or (x is not None and t != x):
            raise Unrec("expected %r, got %r (at %s)" % (x, t, " ".join(self.t[max(0, self.i - 4):self.i + 4])))
        self.i += 1
        return t

    def done(self):
        return self.i >= len(self.t)

    # expressions
    def expr(self):
        l = self.andx()
        while self.peek() == "||":
            self.eat()
            l = ("or", l, self.andx())
        return l

    def andx(self):
        l = self.cmp()
        while self.peek() == "&&":
            self.eat()
            l = ("and", l, self.cmp())
        return l

    def cmp(self):
        l = self.unary()
        if self.peek() in ("==", "!=", "<=", ">=", "<", ">"):
            op = self.eat()
            return ("cmp", op, l, self.unary())
        return l

    def unary(self):
        if self.peek() == "!":
            self.eat()
            return ("not", self.unary())
        if self.peek() in ("&", "*"):
            self.eat()
            return self.unary()  # references / derefs are transparent for the value semantics
        return self.postfix()

    def postfix(self):
        e = self.primary()
        while True:
            t = self.peek()
            if t == "?":
                self.eat()
                e = ("try", e)
            elif t == ".":
                self.eat()
                name = self.eat()
                if self.peek() == "(":
                    e = ("mcall", e, name, self.args())
                else:
                    e = ("field", e, name)
            else:
                return e

    def args(self):
        self.eat("(")
        a = []
        while self.peek() != ")":
            a.append(self.expr())
            if self.peek() == ",":
                self.eat()
        self.eat(")")
        return a

    def primary(self):
        t = self.peek()
        if t == "(":
            self.eat()
            e = self.expr()
            self.eat(")")
            return e
        if t is None or not re.match(r"[A-Za-z_]", t):
            raise Unrec("unexpected token %r" % t)
        path = [self.eat()]
        while self.peek() == "::":
            self.eat()
            path.append(self.eat())
        if self.peek() == "(":
            return ("call", "::".join(path), self.args())
        return ("path", "::".join(path))

    # statements of a function body -> list
    def stmts(self, until=None):
        out = []
        while not self.done() and self.peek() != until:
            t = self.peek()
            if t == "#":  # attribute: #[cfg(...)] - recorded, applies to the next statement
                self.eat()
                self.eat("[")
                d = 1
                txt = []
                while d:
                    x = self.eat()
                    if x == "[":
                        d += 1
                    elif x == "]":
                        d -= 1
                    if d:
                        txt.append(x)
                out.append(("attr", "".join(txt)))
            elif t == "let":
                self.eat()
                if self.peek() == "mut":
                    self.eat()
                    name = self.eat()
                    kind = "letmut"
                else:
                    name = self.eat()
                    kind = "let"
                self.eat("=")
                e = self.expr()
                self.eat(";")
                out.append((kind, name, e))
            elif t == "return":
                self.eat()
                e = self.expr()
                self.eat(";")
                out.append(("return", e))
            elif t == "if":
                self.eat()
                c = self.expr()
                self.eat("{")
                th = self.stmts("}")
                self.eat("}")
                el = None
                if self.peek() == "else":
                    self.eat()
                    if self.peek() == "if":
                        el = self.stmts_one_if()
                    else:
                        self.eat("{")
                        el = self.stmts("}")
                        self.eat("}")
                out.append(("if", c, th, el))
            elif t == "for":
                self.eat()
                var = self.eat()
                self.eat("in")
                it = self.expr()
                self.eat("{")
                body = self.stmts("}")
                self.eat("}")
                out.append(("for", var, it, body))
            elif t == "match":
                self.eat()
                scrut = self.expr()
                self.eat("{")
                arms = []
                while self.peek() != "}":
                    pat = self.eat()
                    guard = None
                    if self.peek() == "(":  # Some(x) pattern etc.
                        raise Unrec("match pattern with arguments")
                    if self.peek() == "if":
                        self.eat()
                        guard = self.expr()
                    self.eat("=>")
                    body = self.expr()
                    if self.peek() == ",":
                        self.eat()
                    arms.append((pat, guard, body))
                self.eat("}")
                out.append(("match", scrut, arms))
            elif t in ("debug_assert", "debug_assert_eq", "assert") and self.peek(1) == "!":
                # assertion macros do not contribute to the value
                self.eat()
                self.eat("!")
                self.eat("(")
                d = 1
                while d:
                    x = self.eat()
                    if x == "(":
                        d += 1
                    elif x == ")":
                        d -= 1
                if self.peek() == ";":
                    self.eat()
            else:
                e = self.expr()
                if self.peek() == ";":
                    self.eat()
                    out.append(("exprstmt", e))
                elif self.peek() in ("|=", "&=", "="):
                    op = self.eat()
                    r = self.expr()
                    self.eat(";")
                    out.append(("assign", op, e, r))
                else:
                    out.append(("value", e))
        return out

    def stmts_one_if(self):
        self.eat("if")
        c = self.expr()
        self.eat("{")
        th = self.stmts("}")
        self.eat("}")
        el = None
        if self.peek() == "else":
            self.eat()
            if self.peek() == "if":
                el = self.stmts_one_if()
            else:
                self.eat("{")
                el = self.stmts("}")
                self.eat("}")
        return [("if", c, th, el)]


def parse_body(text):
    p = P(tokenize(text))
    s = p.stmts()
    if not p.done():
        raise Unrec("trailing tokens")
    return s


# ------------------------------------------------------------------------------------------------
# typed translation of expressions to Gallina.  Types: 'bool', 'hint' (Option<LevelFilter>), 'lf' (LevelFilter), 'int' (Interest)
# A translated expression is (term, type, may_fail); when may_fail the term has type `option T` and None = early return None.

class Tr:
    def __init__(self, env):
        self.env = dict(env)  # rust path -> (coq term, type)

    def bind(self, parts, build, ty):
        """parts: list of (term, ty, may_fail).  build(list of value terms) -> value term."""
        if not any(p[2] for p in parts):
            return (build([p[0] for p in parts]), ty, False)
        names = []
        wraps = []
        for k, (t, _, mf) in enumerate(parts):
            if mf:
                v = "v%d_%d" % (len(self.env), self._fresh())
                names.append(v)
                wraps.append((t, v))
            else:
                names.append(t)
        inner = "(Some %s)" % build(names)
        for t, v in reversed(wraps):
            inner = "(match %s with None => None | Some %s => %s end)" % (t, v, inner)
        return (inner, ty, True)

    _n = 0

    def _fresh(self):
        Tr._n += 1
        return Tr._n

    def e(self, x):
        k = x[0]
        if k == "path":
            p = x[1]
            if p in self.env:
                t, ty = self.env[p]
                return (t, ty, False)
            if p == "None":
                return ("(@None levelfilter)", "hint", False)
            m = re.fullmatch(r"(?:LevelFilter|Level)::(OFF|ERROR|WARN|INFO|DEBUG|TRACE)", p)
            if m:
                return ("OFF" if m.group(1) == "OFF" else "(Some %s)" % m.group(1), "lf", False)
            if p in ("true", "false"):
                return (p, "bool", False)
            raise Unrec("unknown name %s" % p)
        if k == "field":
            # self.x
            if x[1] == ("path", "self") and ("self." + x[2]) in self.env:
                t, ty = self.env["self." + x[2]]
                return (t, ty, False)
            raise Unrec("unknown field %s" % x[2])
        if k == "try":
            t, ty, mf = self.e(x[1])
            if ty != "hint":
                raise Unrec("`?` on a non-Option value")
            if mf:
                # option (option lf) -> flatten
                return ("(match %s with Some (Some v) => Some v | _ => None end)" % t, "lf", True)
            return (t, "lf", True)
        if k in ("and", "or"):
            a = self.e(x[1])
            b = self.e(x[2])
            if a[1] != "bool" or b[1] != "bool" or a[2] or b[2]:
                raise Unrec("non-boolean operand of && / ||")
            return ("(%s %s %s)" % (a[0], "&&" if k == "and" else "||", b[0]), "bool", False)
        if k == "not":
            a = self.e(x[1])
            if a[1] != "bool" or a[2]:
                raise Unrec("non-boolean operand of !")
            return ("(negb %s)" % a[0], "bool", False)
        if k == "cmp":
            op, l, r = x[1], self.e(x[2]), self.e(x[3])
            if l[2] or r[2] or l[1] != r[1]:
                raise Unrec("comparison of unlike / failing operands")
            if l[1] == "hint" and op == "==":
                return ("(hint_eqb %s %s)" % (l[0], r[0]), "bool", False)
            if l[1] == "lf":
                f = {"==": "(frank %s =? frank %s)", "<=": "(frank %s <=? frank %s)", "<": "(frank %s <? frank %s)",
                     ">=": "(frank %s <=? frank %s)", ">": "(frank %s <? frank %s)"}.get(op)
                if f is None:
                    raise Unrec("comparison %s" % op)
                a, b = (l[0], r[0]) if op in ("==", "<=", "<") else (r[0], l[0])
                return (f % (a, b), "bool", False)
            raise Unrec("comparison on %s" % l[1])
        if k == "mcall":
            recv, name, args = x[1], x[2], x[3]
            # self.a.max_level_hint() / self.a.callsite_enabled(meta): sub-filter summaries are variables
            if recv[0] == "field" and recv[1] == ("path", "self") and ("self.%s.%s" % (recv[2], name)) in self.env:
                t, ty = self.env["self.%s.%s" % (recv[2], name)]
                return (t, ty, False)
            r = self.e(recv)
            if args:
                raise Unrec("method %s with arguments" % name)
            if r[1] == "hint" and name in ("is_none", "is_some") and not r[2]:
                t = "(hint_is_none %s)" % r[0]
                return (t if name == "is_none" else "(negb %s)" % t, "bool", False)
            if r[1] == "int" and name in ("is_never", "is_sometimes", "is_always") and not r[2]:
                return ("(%s %s)" % (name, r[0]), "bool", False)
            raise Unrec("unknown method .%s() on %s" % (name, r[1]))
        if k == "call":
            f, args = x[1], x[2]
            if f in ("Interest::never", "Interest::sometimes", "Interest::always") and not args:
                return (f.split("::")[1], "int", False)
            if f == "Some" and len(args) == 1:
                a = self.e(args[0])
                if a[1] == "lf":
                    return self.bind([a], lambda v: "(Some %s)" % v[0], "hint")
                if a[1] == "int":
                    return self.bind([a], lambda v: "(Some %s)" % v[0], "pend")
                raise Unrec("Some(..) of %s" % a[1])
            if re.fullmatch(r"(?:core::|std::)?cmp::(max|min)", f) and len(args) == 2:
                which = f.split("::")[-1]
                a, b = self.e(args[0]), self.e(args[1])
                if a[1] != b[1]:
                    raise Unrec("cmp::%s of unlike types" % which)
                if a[1] == "hint":
                    # Option's derived order: None < Some(_)
                    fn = "hint_max" if which == "max" else "hint_min"
                elif a[1] == "lf":
                    fn = "lf_max" if which == "max" else "lf_min"
                else:
                    raise Unrec("cmp::%s on %s" % (which, a[1]))
                return self.bind([a, b], lambda v: "(%s %s %s)" % (fn, v[0], v[1]), a[1])
            if f in self.env and not args:
                t, ty = self.env[f]
                return (t, ty, False)
            if (f + "()") in self.env:
                t, ty = self.env[f + "()"]
                return (t, ty, False)
            m = re.fullmatch(r"(?:\w+::)*(\w+)", f)
            if m and ("fn:" + m.group(1)) in self.env and len(args) == 1:
                t, ty = self.env["fn:" + m.group(1)]
                return (t, ty, False)
            raise Unrec("unknown function %s/%d" % (f, len(args)))
        raise Unrec("unknown expression node %s" % k)


def ret(tr, e, rty):
    """value of `return e` / the final expression, as a term of the function's result type"""
    t, ty, mf = tr.e(e)
    if ty != rty:
        raise Unrec("result of type %s where %s is expected" % (ty, rty))
    if mf:
        if rty != "hint":
            raise Unrec("`?` in a function that does not return Option")
        return "(match %s with Some v => v | None => None end)" % t
    return t


def body_to_term(tr, stmts, rty):
    """if-return chains + lets + a final value -> nested Gallina"""
    if not stmts:
        raise Unrec("function body falls off the end")
    s = stmts[0]
    rest = stmts[1:]
    k = s[0]
    if k == "let":
        t, ty, mf = tr.e(s[2])
        if mf:
            raise Unrec("`?` in a let")
        tr2 = Tr(tr.env)
        tr2.env[s[1]] = (s[1] + "_", ty)
        return "(let %s_ := %s in %s)" % (s[1], t, body_to_term(tr2, rest, rty))
    if k == "return":
        return ret(tr, s[1], rty)
    if k == "value":
        if rest:
            raise Unrec("value expression followed by statements")
        return ret(tr, s[1], rty)
    if k == "if":
        c = tr.e(s[1])
        if c[1] != "bool" or c[2]:
            raise Unrec("non-boolean condition")
        th = body_to_term(tr, s[2] + (rest if not always_returns(s[2]) else []), rty)
        if s[3] is None:
            el = body_to_term(tr, rest, rty)
        else:
            el = body_to_term(tr, s[3] + (rest if not always_returns(s[3]) else []), rty)
        return "(if %s then %s else %s)" % (c[0], th, el)
    if k == "match":
        scrut = tr.e(s[1])
        if scrut[2]:
            raise Unrec("`?` in a match scrutinee")
        if rest:
            raise Unrec("match followed by statements")
        # arms: `name if guard => e`, `_ => e`
        out = None
        for pat, guard, body in reversed(s[2]):
            tr2 = Tr(tr.env)
            if pat != "_":
                tr2.env[pat] = (scrut[0], scrut[1])
            b = ret(tr2, body, rty)
            if guard is None:
                out = b
            else:
                g = tr2.e(guard)
                if g[1] != "bool" or out is None:
                    raise Unrec("match arms")
                out = "(if %s then %s else %s)" % (g[0], b, out)
        return out
    raise Unrec("statement %s" % k)


def always_returns(stmts):
    if not stmts:
        return False
    s = stmts[-1]
    if s[0] in ("return", "value"):
        return True
    if s[0] == "if" and s[3] is not None:
        return always_returns(s[2]) and always_returns(s[3])
    return False


# ------------------------------------------------------------------------------------------------
# pick_interest: a closure call and a thread-local side effect -> (answer, inner asked?, interest taken?)

def pick_interest_term(stmts):
    """Interpret the body with the state (asked, taken); `inner()` may be called at most once; the result is
    (interest, asked, taken) as a Gallina term over has_ (has_subscriber_filter), ihas_ (inner_has_subscriber_filter),
    outer_, inner_res_ (what inner() answers)."""
    env = {"self.has_subscriber_filter": ("has_", "bool"), "self.inner_has_subscriber_filter": ("ihas_", "bool"),
           "outer": ("outer_", "int")}

    def go(stmts, env, asked, taken):
        if not stmts:
            raise Unrec("pick_interest falls off the end")
        s, rest = stmts[0], stmts[1:]
        k = s[0]
        if k == "attr":
            if "feature" not in s[1] or "registry" not in s[1]:
                raise Unrec("pick_interest: attribute %s" % s[1])
            return go(rest, env, asked, taken)
        if k == "exprstmt":
            e = s[1]
            if e[0] == "call" and e[1].endswith("FilterState::take_interest") and not e[2]:
                return go(rest, env, asked, True)
            raise Unrec("pick_interest: expression statement")
        if k == "let":
            e = s[2]
            if e == ("call", "inner", []):
                if asked:
                    raise Unrec("pick_interest: inner() called twice")
                env2 = dict(env)
                env2[s[1]] = ("inner_res_", "int")
                return go(rest, env2, True, taken)
            raise Unrec("pick_interest: let")
        if k in ("return", "value"):
            e = s[1]
            if k == "value" and rest:
                raise Unrec("pick_interest: trailing statements")
            a = asked
            if e == ("call", "inner", []):
                if asked:
                    raise Unrec("pick_interest: inner() called twice")
                t, a = "inner_res_", True
            else:
                t, ty, mf = Tr(env).e(e)
                if ty != "int" or mf:
                    raise Unrec("pick_interest: result type")
            return "(%s, %s, %s)" % (t, "true" if a else "false", "true" if taken else "false")
        if k == "if":
            c = Tr(env).e(s[1])
            if c[1] != "bool" or c[2] or s[3] is not None:
                raise Unrec("pick_interest: if")
            if not always_returns(s[2]):
                raise Unrec("pick_interest: if-block that falls through")
            return "(if %s then %s else %s)" % (c[0], go(s[2], env, asked, taken), go(rest, env, asked, taken))
        raise Unrec("pick_interest: statement %s" % k)

    return go(stmts, env, False, False)


# ------------------------------------------------------------------------------------------------
# add_interest: `let mut curr = self.interest.borrow_mut(); if let Some(c) = curr.as_mut() { if COND { *c = sometimes } } else { *curr = Some(interest) }`

ADD_INTEREST = re.compile(
    r"let\s+mut\s+(\w+)\s*=\s*self\s*\.\s*interest\s*\.\s*borrow_mut\s*\(\s*\)\s*;\s*"
    r"(?:#\[cfg\(debug_assertions\)\]\s*\{(?P<dbg>.*?)\}\s*)?"
    r"if\s+let\s+Some\s*\(\s*(\w+)\s*\)\s*=\s*\1\s*\.\s*as_mut\s*\(\s*\)\s*\{\s*"
    r"if\s+(?P<cond>.*?)\s*\{\s*\*\s*\3\s*=\s*Interest::sometimes\s*\(\s*\)\s*;\s*\}\s*\}\s*"
    r"else\s*\{\s*\*\s*\1\s*=\s*Some\s*\(\s*interest\s*\)\s*;\s*\}\s*$", re.S)


def add_interest_term(body):
    m = ADD_INTEREST.match(body.strip())
    if not m:
        raise Unrec("FilterState::add_interest: shape")
    if m.group("dbg") is not None and re.search(r"\*\s*\w+\s*=|curr_interest\s*=", m.group("dbg")):
        raise Unrec("FilterState::add_interest: debug block assigns")
    cur = m.group(3)
    cond = P(tokenize(m.group("cond")))
    c = cond.expr()
    if not cond.done():
        raise Unrec("add_interest: condition")
    t = Tr({cur: ("c_", "int"), "interest": ("i_", "int")}).e(c)
    if t[1] != "bool":
        raise Unrec("add_interest: condition type")
    return "(match p_ with None => Some i_ | Some c_ => if %s then Some sometimes else Some c_ end)" % t[0]


# ------------------------------------------------------------------------------------------------
# flags / constants

def norm(s):
    return re.sub(r"\s+", "", s)


def main(repo, _unused=None):
    base = os.path.join(repo, "tracing-subscriber", "src")
    unrec = []
    defs = []
    flags = []

    def load(rel):
        try:
            return rsparse.strip_comments(open(os.path.join(base, rel), encoding="utf-8").read())
        except OSError as ex:
            unrec.append("cannot read %s: %s" % (rel, ex))
            return ""

    layered = load("subscribe/layered.rs")
    comb = load("filter/subscriber_filters/combinator.rs")
    psf = load("filter/subscriber_filters/mod.rs")
    submod = load("subscribe/mod.rs")
    envmod = load("filter/env/mod.rs")
    directive = load("filter/directive.rs")

    def attempt(name, sig, default, f):
        try:
            body = f()
        except (Unrec, ValueError, IndexError, AssertionError) as ex:
            unrec.append("%s: %s" % (name, ex))
            body = default
        defs.append("Definition %s %s :=\n  %s." % (name, sig, body))

    # ---- Layered::pick_level_hint / pick_interest / new
    def layered_impl():
        return block_after(layered, r"impl\s*<\s*A\s*,\s*B\s*,\s*C\s*>\s*Layered\s*<\s*A\s*,\s*B\s*,\s*C\s*>\s*where[^{]*\{", "impl Layered (new/pick_*)")

    def plh():
        b = fn_body(layered_impl(), "pick_level_hint", "Layered")
        tr = Tr({"self.inner_is_registry": ("reg_", "bool"), "self.has_subscriber_filter": ("has_", "bool"),
                 "self.inner_has_subscriber_filter": ("ihas_", "bool"), "outer_hint": ("outer_", "hint"),
                 "inner_hint": ("inner_", "hint"), "inner_is_none": ("inone_", "bool"),
                 "fn:subscriber_is_none": ("snone_", "bool")})
        return body_to_term(tr, parse_body(b), "hint")
    attempt("gen_pick_level_hint", "(reg_ has_ ihas_ snone_ inone_ : bool) (outer_ inner_ : hint) : hint", "None", plh)

    def pin():
        b = fn_body(layered_impl(), "pick_interest", "Layered")
        return pick_interest_term(parse_body(b))
    attempt("gen_pick_interest", "(has_ ihas_ : bool) (outer_ inner_res_ : interest) : interest * bool * bool",
            "(never, false, false)", pin)

    def newflag():
        blk = layered_impl()
        m = re.search(r"fn\s+new\s*\(\s*subscriber\s*:\s*(\w+)\s*,\s*inner\s*:\s*(\w+)\s*,", blk)
        if not m:
            raise Unrec("Layered::new signature")
        b = fn_body(blk, "new", "Layered")
        t = re.findall(r"let\s+inner_is_registry\s*=\s*TypeId::of::<\s*(\w+)\s*>\(\)\s*==\s*TypeId::of::<\s*(?:crate::registry::)?Registry\s*>\(\)\s*;", b)
        if len(t) != 1:
            raise Unrec("Layered::new: inner_is_registry")
        if not re.search(r"let\s+inner_has_subscriber_filter\s*=\s*inner_has_subscriber_filter\s*\|\|\s*inner_is_registry\s*;", b):
            raise Unrec("Layered::new: inner_has_subscriber_filter")
        if not re.search(r"let\s+has_subscriber_filter\s*=\s*filter::subscriber_has_psf\(\s*&subscriber\s*\)\s*;", b):
            raise Unrec("Layered::new: has_subscriber_filter")
        if t[0] == m.group(2):
            return "true"
        if t[0] == "C":
            return "false"
        raise Unrec("Layered::new compares %s" % t[0])
    attempt("gen_inner_is_registry_from_inner_value", ": bool", "false", newflag)

    # ---- combinators
    for ty, gens in (("And", "A, B, S"), ("Or", "A, B, S"), ("Not", "A, S")):
        low = ty.lower()

        def blk(ty=ty, gens=gens):
            return block_after(comb, r"impl\s*<\s*%s\s*>\s*Filter\s*<\s*S\s*>\s*for\s+%s\s*<\s*%s\s*>\s*where[^{]*\{" % (gens, ty, gens), "impl Filter for " + ty)

        def ci(blk=blk):
            b = fn_body(blk(), "callsite_enabled", "combinator")
            tr = Tr({"self.a.callsite_enabled": ("a_", "int"), "self.b.callsite_enabled": ("b_", "int")})
            return body_to_term(tr, parse_body(b), "int")

        def mh(blk=blk):
            b = fn_body(blk(), "max_level_hint", "combinator")
            tr = Tr({"self.a.max_level_hint": ("a_", "hint"), "self.b.max_level_hint": ("b_", "hint")})
            return body_to_term(tr, parse_body(b), "hint")
        attempt("gen_%s_interest" % low, "(a_ b_ : interest) : interest", "never", ci)
        attempt("gen_%s_hint" % low, "(a_ b_ : hint) : hint", "(Some OFF)", mh)

    # ---- FilterState::add_interest
    def addi():
        blk = block_after(psf, r"impl\s+FilterState\s*\{", "impl FilterState")
        return add_interest_term(fn_body(blk, "add_interest", "FilterState"))
    attempt("gen_add_interest", "(p_ : option interest) (i_ : interest) : option interest", "None", addi)

    # ---- flags read by shape
    def flag(name, f):
        try:
            ok = bool(f())
        except (Unrec, ValueError, IndexError, AssertionError) as ex:
            unrec.append("%s: %s" % (name, ex))
            ok = False
        flags.append((name, ok))

    def vec_impl():
        return block_after(submod, r"impl\s*<\s*C\s*,\s*S\s*>\s*Subscribe\s*<\s*C\s*>\s*for\s+(?:alloc::vec::)?Vec\s*<\s*S\s*>\s*where[^{]*\{", "impl Subscribe for Vec")

    def opt_impl():
        return block_after(submod, r"impl\s*<\s*S\s*,\s*C\s*>\s*Subscribe\s*<\s*C\s*>\s*for\s+Option\s*<\s*S\s*>\s*where[^{]*\{", "impl Subscribe for Option")

    flag("gen_vec_interest_is_conjunction", lambda: norm(fn_body(vec_impl(), "register_callsite", "Vec")) == norm(
        "let mut any_never = false; let mut all_always = true; for s in self { let interest = s.register_callsite(metadata); "
        "any_never |= interest.is_never(); all_always &= interest.is_always(); } "
        "if any_never { Interest::never() } else if all_always { Interest::always() } else { Interest::sometimes() }"))
    flag("gen_vec_enabled_is_all", lambda: norm(fn_body(vec_impl(), "enabled", "Vec")) == norm(
        "self.iter().all(|s| s.enabled(metadata, ctx.clone()))"))
    flag("gen_vec_hint_is_max_from_off", lambda: norm(fn_body(vec_impl(), "max_level_hint", "Vec")) == norm(
        "let mut max_level = LevelFilter::OFF; for s in self { let hint = s.max_level_hint()?; "
        "max_level = core::cmp::max(hint, max_level); } Some(max_level)"))

    def vec_down():
        b = norm(fn_body(vec_impl(), "downcast_raw", "Vec"))
        none_marker = "ifid==TypeId::of::<NoneLayerMarker>()&&self.is_empty(){returnSome(NonNull::from(&NONE_LAYER_MARKER).cast());}"
        psf_rule = "iffilter::is_psf_downcast_marker(id)&&self.iter().any(|s|s.downcast_raw(id).is_none()){returnNone;}"
        tail = "self.iter().find_map(|s|s.downcast_raw(id))"
        return none_marker in b and psf_rule in b and b.endswith(tail) and b.index(none_marker) < b.index(psf_rule)
    flag("gen_vec_markers", vec_down)
    flag("gen_option_none_summaries", lambda: (
        norm(fn_body(opt_impl(), "register_callsite", "Option")) == norm("match self { Some(ref inner) => inner.register_callsite(metadata), None => Interest::always(), }")
        and norm(fn_body(opt_impl(), "max_level_hint", "Option")) == norm("match self { Some(ref inner) => inner.max_level_hint(), None => { Some(LevelFilter::OFF) } }")
        and norm(fn_body(opt_impl(), "enabled", "Option")) == norm("match self { Some(ref inner) => inner.enabled(metadata, ctx), None => true, }")
        and norm("elseifid==TypeId::of::<NoneLayerMarker>()&&self.is_none(){Some(NonNull::from(&NONE_LAYER_MARKER).cast())}") in norm(fn_body(opt_impl(), "downcast_raw", "Option"))))

    def layered_sub_impl():
        return block_after(layered, r"impl\s*<\s*C\s*,\s*A\s*,\s*B\s*>\s*Subscribe\s*<\s*C\s*>\s*for\s+Layered\s*<\s*A\s*,\s*B\s*,\s*C\s*>\s*where[^{]*\{", "impl Subscribe for Layered")

    def layered_col_impl():
        return block_after(layered, r"impl\s*<\s*S\s*,\s*C\s*>\s*Collect\s+for\s+Layered\s*<\s*S\s*,\s*C\s*>\s*where[^{]*\{", "impl Collect for Layered")
    # the marker downcasts of a Layered: as a Subscribe (and_then pair) the per-subscriber-filter marker needs BOTH
    # halves, every other id (incl. the none-layer marker) EITHER half; as a Collect every id either half
    flag("gen_layered_markers", lambda: (
        norm(fn_body(layered_sub_impl(), "downcast_raw", "Layered as Subscribe")) == norm(
            "match id { id if id == TypeId::of::<Self>() => Some(NonNull::from(self).cast()), "
            "id if filter::is_psf_downcast_marker(id) => self.subscriber.downcast_raw(id).and(self.inner.downcast_raw(id)), "
            "_ => self.subscriber.downcast_raw(id).or_else(|| self.inner.downcast_raw(id)), }")
        and norm(fn_body(layered_col_impl(), "downcast_raw", "Layered as Collect")) == norm(
            "if id == TypeId::of::<Self>() { return Some(NonNull::from(self).cast()); } "
            "self.subscriber.downcast_raw(id).or_else(|| self.inner.downcast_raw(id))")
        and norm(fn_body(layered_sub_impl(), "max_level_hint", "Layered as Subscribe")) == norm(
            "self.pick_level_hint( self.subscriber.max_level_hint(), self.inner.max_level_hint(), super::subscriber_is_none(&self.inner), )")
        and norm(fn_body(layered_col_impl(), "max_level_hint", "Layered as Collect")) == norm(
            "self.pick_level_hint( self.subscriber.max_level_hint(), self.inner.max_level_hint(), super::collector_is_none(&self.inner), )")))

    targets_src = load("filter/targets.rs")

    def targets_fn(name, header):
        return fn_body(block_after(targets_src, header, "targets.rs " + name), name, "Targets")
    # Targets: the static summary (`interested`, behind register_callsite / callsite_enabled) and the dynamic decision
    # (`enabled`) both go through DirectiveSet::enabled (which honours field-name directives); the hint is max_level
    flag("gen_targets_summaries", lambda: (
        norm(targets_fn("interested", r"impl\s+Targets\s*\{")) == norm(
            "if self.0.enabled(metadata) { Interest::always() } else { Interest::never() }")
        and all(norm(targets_fn(fn, hdr)) == norm(body) for hdr in (
            r"impl\s*<\s*C\s*>\s*subscribe::Subscribe\s*<\s*C\s*>\s*for\s+Targets\s*where[^{]*\{",
            r"impl\s*<\s*C\s*>\s*subscribe::Filter\s*<\s*C\s*>\s*for\s+Targets\s*\{")
            for fn, body in (("enabled", "self.0.enabled(metadata)"), ("max_level_hint", "Some(self.0.max_level)")))
        and norm(targets_fn("register_callsite", r"impl\s*<\s*C\s*>\s*subscribe::Subscribe\s*<\s*C\s*>\s*for\s+Targets\s*where[^{]*\{")) == norm("self.interested(metadata)")
        and norm(targets_fn("callsite_enabled", r"impl\s*<\s*C\s*>\s*subscribe::Filter\s*<\s*C\s*>\s*for\s+Targets\s*\{")) == norm("self.interested(metadata)")
        and norm(fn_body(block_after(directive, r"impl\s+DirectiveSet\s*<\s*StaticDirective\s*>\s*\{", "impl DirectiveSet<StaticDirective>"), "enabled", "DirectiveSet")) == norm(
            "let level = meta.level(); match self.directives_for(meta).next() { Some(d) => d.level >= *level, None => false, }")))

    reload_src = load("reload.rs")
    # reload::Subscriber as a Subscribe forwards EXACTLY the none-layer marker through the lock (never the
    # per-subscriber-filter marker: Layered::new caches that answer when the stack is built, a reload could not update it)
    flag("gen_reload_markers", lambda: norm(fn_body(block_after(
        reload_src, r"impl\s*<\s*S\s*,\s*C\s*>\s*crate::Subscribe\s*<\s*C\s*>\s*for\s+Subscriber\s*<\s*S\s*>\s*where[^{]*\{", "impl Subscribe for reload::Subscriber"),
        "downcast_raw", "reload::Subscriber")) == norm(
        "if id == TypeId::of::<subscribe::NoneLayerMarker>() { return try_lock!(self.inner.read(), else return None).downcast_raw(id); } None"))

    def filtered_impl():
        return block_after(psf, r"impl\s*<\s*C\s*,\s*S\s*,\s*F\s*>\s*Subscribe\s*<\s*C\s*>\s*for\s+Filtered\s*<\s*S\s*,\s*F\s*,\s*C\s*>\s*where[^{]*\{", "impl Subscribe for Filtered")
    flag("gen_filtered_summaries", lambda: (
        norm(fn_body(filtered_impl(), "register_callsite", "Filtered")) == norm(
            "let interest = self.filter.callsite_enabled(metadata); if !interest.is_never() { self.subscriber.register_callsite(metadata); } "
            "FILTERING.with(|filtering| filtering.add_interest(interest)); Interest::always()")
        and norm(fn_body(filtered_impl(), "max_level_hint", "Filtered")) == norm("self.filter.max_level_hint()")
        and norm(fn_body(filtered_impl(), "enabled", "Filtered")) == norm(
            "let cx = cx.with_filter(self.id()); let enabled = self.filter.enabled(metadata, &cx); "
            "FILTERING.with(|filtering| filtering.set(self.id(), enabled)); if enabled { self.subscriber.enabled(metadata, cx) } else { true }")))

    def env_impl():
        return envmod
    flag("gen_env_hint", lambda: norm(fn_body(env_impl(), "max_level_hint", "EnvFilter")) == norm(
        "if self.dynamics.has_value_filters() { return Some(LevelFilter::TRACE); } "
        "std::cmp::max( self.statics.max_level.into(), self.dynamics.max_level.into(), )"))
    flag("gen_directive_add_max_exact", lambda: norm(
        "let level = *directive.level(); if level > self.max_level { self.max_level = level; } "
        "match self.directives.binary_search(&directive) { "
        "Ok(i) => { self.directives[i] = directive; "
        "self.max_level = self.directives.iter().map(|d| *d.level()).max().unwrap_or(LevelFilter::OFF); } "
        "Err(i) => self.directives.insert(i, directive), }")
        == norm(fn_body(block_after(directive, r"impl\s*<\s*T\s*:\s*Match\s*\+\s*Ord\s*>\s*DirectiveSet\s*<\s*T\s*>\s*\{", "impl DirectiveSet"), "add", "DirectiveSet")))

    lines = ["(** GENERATED by translators/summary_shapes.py from tracing-subscriber/src/{subscribe/layered.rs, subscribe/mod.rs,",
             "    filter/subscriber_filters/{combinator,mod}.rs, filter/env/mod.rs, filter/directive.rs} - do not edit. *)",
             "From Coq Require Import List NArith Bool String.", "Import ListNotations.", "From TV Require Import Summary.Model.",
             "Local Open Scope N_scope.", "Local Open Scope bool_scope.", ""]
    lines += [d + "\n" for d in defs]
    for name, ok in flags:
        lines.append("Definition %s : bool := %s." % (name, "true" if ok else "false"))
    lines.append("")
    lines.append("Definition gen_summary_unrecognised : list string := [%s]." % "; ".join('"%s"%%string' % re.sub(r'[^A-Za-z0-9_ :./()-]', "_", u)[:120] for u in unrec))
    return "\n".join(lines) + "\n", unrec


if __name__ == "__main__":
    text, unrec = main(sys.argv[1] if len(sys.argv) > 1 else "/repo")
    sys.stdout.write(text)
    for u in unrec:
        sys.stderr.write("unrecognised: %s\n" % u)
