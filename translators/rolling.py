"""C16 translator: reads the parameters the rolling-appender model hard-wires out of
tracing-appender/src/rolling.rs and emits coq/gen/Gen_rolling.v.  Appender/RollingTie.v proves (by
computation) that they equal the model's; `gen_recheck` (does make_writer re-check next_date under the
write lock before refresh_writer — the F16 repair) is passed to the model by the driver.

Targeted extraction, fails closed: whatever is not found in the expected place is listed in
`gen_unrecognised` (and returned), which breaks RollingTie.v and the translator tie."""
import os
import re
import sys

sys.path.insert(0, os.path.dirname(os.path.abspath(__file__)))
from rsparse import strip_comments, find_blocks, fns_in, norm, match_arms, coq_str  # noqa: E402

ROTS = ["MINUTELY", "HOURLY", "DAILY", "NEVER"]
UNIT = {"seconds": 1, "minutes": 60, "hours": 3600, "days": 86400, "weeks": 604800}


def main(repo, out):
    unrec = []
    src = strip_comments(open(os.path.join(repo, "tracing-appender/src/rolling.rs")).read())
    cut = src.find("#[cfg(test)]\nmod test")
    if cut > 0:
        src = src[:cut]
    fns = fns_in(src)

    def body(name):
        if name not in fns or fns[name][1] is None:
            unrec.append("fn %s not found" % name)
            return ""
        return norm(fns[name][1])

    # fns_in keeps the last definition of a name; `write`/`flush` exist twice (appender, RollingWriter), so
    # take the two trait impl blocks separately.
    def impl_body(header_re, fn):
        for m, b, _, _ in find_blocks(src, header_re):
            f = fns_in(b)
            if fn in f and f[fn][1] is not None:
                return norm(f[fn][1])
        unrec.append("fn %s in impl %s not found" % (fn, header_re))
        return ""

    # ---- next_date: Duration per rotation
    nd = body("next_date")
    dur = {}
    for r in ROTS[:3]:
        m = re.search(r"Rotation::%s => \*current_date \+ Duration::([a-z]+)\((\d+)\)" % r, nd)
        if m and m.group(1) in UNIT:
            dur[r] = UNIT[m.group(1)] * int(m.group(2))
        else:
            unrec.append("next_date arm %s" % r)
            dur[r] = -1
    if not re.search(r"Rotation::NEVER => return None", nd):
        unrec.append("next_date arm NEVER")
    if not re.search(r"Some\(self\.round_date\(&unrounded_next_date\)\)", nd) or "let unrounded_next_date = match *self" not in nd:
        unrec.append("next_date: round_date(&unrounded_next_date)")

    # ---- round_date: Time::from_hms arguments per rotation
    rd = body("round_date")
    hms = {}
    for i, r in enumerate(ROTS[:3]):
        nxt = ROTS[i + 1]
        m = re.search(r"Rotation::%s => \{(.*?)\} Rotation::%s" % (r, nxt), rd)
        seg = m.group(1) if m else ""
        m2 = re.search(r"Time::from_hms\(([^,()]*(?:\(\))?), ([^,()]*(?:\(\))?), ([^,()]*(?:\(\))?)\)", seg)
        if m2 and "date.replace_time(time)" in seg:
            def arg(a):
                a = a.strip()
                return {"date.hour()": "hour", "date.minute()": "minute", "date.second()": "second", "0": "0"}.get(a, "?" + a)
            hms[r] = tuple(arg(m2.group(k)) for k in (1, 2, 3))
            if any(x.startswith("?") for x in hms[r]):
                unrec.append("round_date %s: from_hms%s" % (r, hms[r]))
        else:
            unrec.append("round_date arm %s" % r)
            hms[r] = ("?", "?", "?")

    # ---- date_format
    df = body("date_format")
    fmt = {}
    for r in ROTS:
        m = re.search(r'Rotation::%s => format_description::parse\("([^"]*)"\)' % r, df)
        if m:
            fmt[r] = m.group(1)
        else:
            unrec.append("date_format arm %s" % r)
            fmt[r] = "?"

    # ---- join_date arms
    jd = body("join_date")
    join = []
    m = re.search(r"match \( &self\.rotation, &self\.log_filename_prefix, &self\.log_filename_suffix, \) \{(.*)\}\s*$", jd)
    if not m or ".format(&self.date_format)" not in jd:
        unrec.append("join_date: match header / date formatting")
    else:
        for p, e in match_arms(m.group(1)):
            mm = re.fullmatch(r"\((&Rotation::NEVER|_), (Some\(filename\)|None), (Some\(suffix\)|None)\)", p)
            if not mm:
                unrec.append("join_date pattern `%s`" % p)
                continue
            key = "%s,%s,%s" % ("NEVER" if "NEVER" in mm.group(1) else "_", "P" if mm.group(2) != "None" else "-", "S" if mm.group(3) != "None" else "-")
            e = e.strip()
            mf = re.fullmatch(r'format!\("([^"]*)"((?:, [a-z]+)*)\)', e)
            if mf:
                args = [a.strip() for a in mf.group(2).split(",") if a.strip()]
                parts = mf.group(1).split("{}")
                if len(parts) != len(args) + 1:
                    unrec.append("join_date arm `%s`" % e)
                    continue
                val = parts[0] + "".join("<%s>%s" % (a, q) for a, q in zip(args, parts[1:]))
            elif e in ("filename.to_string()", "suffix.to_string()", "date"):
                val = "<%s>" % e.split(".")[0]
            else:
                unrec.append("join_date arm `%s`" % e)
                continue
            join.append((key, val))

    # ---- should_rollover
    sr = body("should_rollover")
    m = re.search(r"if date\.unix_timestamp\(\) as usize (>=|>|<=|<|==|!=) next_date \{ return Some\(next_date\); \}", sr)
    cmp_ = m.group(1) if m else "?"
    if not m:
        unrec.append("should_rollover: comparison with next_date")
    zero_never = bool(re.search(r"if next_date == 0 \{ return None; \}", sr))
    if not zero_never:
        unrec.append("should_rollover: next_date == 0 means never")
    if not re.search(r"let next_date = self\.next_date\.load\(Ordering::\w+\);", sr):
        unrec.append("should_rollover: load of next_date")

    # ---- advance_date
    ad = body("advance_date")
    if re.search(r"self \.next_date \.compare_exchange\(current, next_date, Ordering::\w+, Ordering::\w+\) \.is_ok\(\)", ad) or \
       re.search(r"self\.next_date\s*\.compare_exchange\(current, next_date, Ordering::\w+, Ordering::\w+\)\s*\.is_ok\(\)", ad):
        adv = "compare_exchange"
    else:
        m = re.search(r"self\s*\.next_date\s*\.(\w+)\(", ad)
        adv = m.group(1) if m else "?"
        unrec.append("advance_date: expected compare_exchange(current, next_date, ..).is_ok(), found `%s`" % adv)
    if not re.search(r"\.next_date\(&now\) \.map\(\|date\| date\.unix_timestamp\(\) as usize\) \.unwrap_or\(0\)", ad):
        unrec.append("advance_date: next_date(&now) as usize or 0")

    # ---- prune_old_logs
    pr = body("prune_old_logs")
    m = re.search(r"if files\.len\(\) (<|<=|>|>=) max_files \{ return; \}", pr)
    guard = m.group(1) if m else "?"
    if not m:
        unrec.append("prune_old_logs: early-return guard")
    m = re.search(r"files\.iter\(\)\.take\(files\.len\(\) - \(max_files - (\d+)\)\)", pr)
    keep = int(m.group(1)) if m else -1
    if not m:
        unrec.append("prune_old_logs: take(files.len() - (max_files - k))")
    sort_key = "created" if ("files.sort_by_key(|(_, created_at)| *created_at);" in pr and "let created = metadata.created().ok()?;" in pr
                             and "Some((entry, created))" in pr) else "?"
    if sort_key == "?":
        unrec.append("prune_old_logs: sort by created()")
    filt = []
    for tag, frag in (("is_file", "if !metadata.is_file() { return None; }"),
                      ("prefix", "if !filename.starts_with(prefix) { return None; }"),
                      ("suffix", "if !filename.ends_with(suffix) { return None; }"),
                      ("date", "if self.log_filename_prefix.is_none() && self.log_filename_suffix.is_none() && Date::parse(filename, &self.date_format).is_err() { return None; }"),
                      ("remove", "fs::remove_file(file.path())")):
        if frag in pr:
            filt.append(tag)
        else:
            unrec.append("prune_old_logs: `%s`" % frag)

    # the three expressions the model's `prune` is built from, read (not just recognised) and pinned by RollingTie.v:
    # which predicate each configured affix is tested with, what the files are sorted by, how many are taken
    prune_pred = []
    for affix, field in (("prefix", "log_filename_prefix"), ("suffix", "log_filename_suffix")):
        m = re.search(r"if let Some\(%s\) = &self\.%s \{ if (!?)filename\.(\w+)\(%s\) \{ return None; \} \}" % (affix, field, affix), pr)
        if m:
            prune_pred.append((affix, ("not " if m.group(1) else "") + m.group(2)))
        else:
            unrec.append("prune_old_logs: test of the configured %s" % affix)
    m = re.search(r"if self\.log_filename_prefix\.is_none\(\) && self\.log_filename_suffix\.is_none\(\) && (\w+)::parse\(filename, &self\.date_format\)\.(\w+)\(\) \{ return None; \}", pr)
    if m:
        prune_pred.append(("neither", "%s::parse %s" % (m.group(1), m.group(2))))
    else:
        unrec.append("prune_old_logs: date-shape test when neither prefix nor suffix is configured")
    m = re.search(r"let (\w+) = metadata\.(\w+)\(\)\.ok\(\)\?; Some\(\(entry, \1\)\)", pr)
    m2 = re.search(r"files\.(\w+)\(\|\(_, (\w+)\)\| (\*?)\2\);", pr)
    prune_sort = "%s by %s of metadata.%s()" % (m2.group(1), m2.group(3) + "key", m.group(2)) if (m and m2) else "?"
    if prune_sort == "?":
        unrec.append("prune_old_logs: sort expression")
    m = re.search(r"for \(file, _\) in files\.iter\(\)\.(\w+)\((.*?)\) \{ if let Err\(error\) = fs::remove_file\(file\.path\(\)\)", pr)
    prune_count = "%s %s" % (m.group(1), m.group(2)) if m else "?"
    if not m:
        unrec.append("prune_old_logs: which files are removed (for .. in files.iter().take(..))")

    # ---- advance_date: the value stored and the exchange
    m = re.search(r"let next_date = (self \.rotation \.next_date\(&now\) \.map\(\|date\| date\.unix_timestamp\(\) as usize\) \.unwrap_or\(0\)); "
                  r"self ?\.next_date \.(\w+)\((\w+), (\w+), Ordering::\w+, Ordering::\w+\) \.is_ok\(\)$", ad)
    if m:
        adv_stored = "%s(%s -> %s) where %s = %s" % (m.group(2), m.group(3), m.group(4), m.group(4), m.group(1).replace(" .", "."))
    else:
        adv_stored = "?"
        unrec.append("advance_date: stored expression / exchange arguments")

    # ---- Builder defaults and setters (builder.rs)
    bsrc = strip_comments(open(os.path.join(repo, "tracing-appender/src/rolling/builder.rs")).read())
    bf = fns_in(bsrc)
    bdef = []
    nb = norm(bf["new"][1]) if "new" in bf and bf["new"][1] is not None else ""
    m = re.fullmatch(r"Self \{ rotation: Rotation::(\w+), prefix: (\w+), suffix: (\w+), max_files: (\w+), \}", nb)
    if m:
        bdef = [("rotation", m.group(1)), ("prefix", m.group(2)), ("suffix", m.group(3)), ("max_files", m.group(4))]
    else:
        unrec.append("Builder::new defaults")
    bset = []
    for fn, var in (("filename_prefix", "prefix"), ("filename_suffix", "suffix")):
        bb = norm(bf[fn][1]) if fn in bf and bf[fn][1] is not None else ""
        if re.fullmatch(r"let %s = %s\.into\(\); let %s = if %s\.is_empty\(\) \{ None \} else \{ Some\(%s\) \}; Self \{ %s, \.\.self \}" % ((var,) * 6), bb):
            bset.append((fn, "empty is None"))
        else:
            unrec.append("Builder::%s" % fn)
    bb = norm(bf["max_log_files"][1]) if "max_log_files" in bf and bf["max_log_files"][1] is not None else ""
    if re.fullmatch(r"Self \{ max_files: Some\(n\), \.\.self \}", bb):
        bset.append(("max_log_files", "Some n"))
    else:
        unrec.append("Builder::max_log_files")
    bb = norm(bf["build"][1]) if "build" in bf and bf["build"][1] is not None else ""
    if bb != "RollingFileAppender::from_builder(self, directory)":
        unrec.append("Builder::build")
    fb = body("from_builder")
    if not re.search(r"let \(state, writer\) = Inner::new\( now, rotation\.clone\(\), directory, prefix\.clone\(\), suffix\.clone\(\), \*max_files, \)\?;", fb):
        unrec.append("from_builder: Inner::new(now, rotation, directory, prefix, suffix, max_files)")

    # ---- refresh_writer: order of effects
    rw = body("refresh_writer")
    order = []
    for tag, frag in (("join_date", "let filename = self.join_date(&now);"),
                      ("prune", "if let Some(max_files) = self.max_files { self.prune_old_logs(max_files); }"),
                      ("create", "match create_writer(&self.log_directory, &filename)"),
                      ("swap", "*file = new_file;")):
        i = rw.find(frag)
        if i < 0:
            unrec.append("refresh_writer: `%s`" % frag)
        order.append((i, tag))
    order = [t for i, t in sorted(order) if i >= 0]
    cw = body("create_writer")
    if "open_options.append(true).create(true);" not in cw:
        unrec.append("create_writer: append(true).create(true)")

    # ---- Inner::new
    nw = body("new")
    for frag in ("let next_date = rotation.next_date(&now);", "let filename = inner.join_date(&now);",
                 "create_writer(inner.log_directory.as_ref(), &filename)"):
        if frag not in nw:
            unrec.append("Inner::new: `%s`" % frag)
    if "prune_old_logs" in nw:
        unrec.append("Inner::new prunes (model: it does not)")

    # ---- the two interfaces
    wx = impl_body(r"impl io::Write for RollingFileAppender\s*\{", "write")
    if not re.search(r"let now = self\.now\(\); let writer = self\.writer\.get_mut\(\); if let Some\(current_time\) = self\.state\.should_rollover\(now\) \{ "
                     r"let _did_cas = self\.state\.advance_date\(now, current_time\); debug_assert!\(.*?\); self\.state\.refresh_writer\(now, writer\); \} writer\.write\(buf\)", wx):
        unrec.append("io::Write::write shape")
    mw = impl_body(r"impl<'a> tracing_subscriber::fmt::writer::MakeWriter<'a> for RollingFileAppender\s*\{", "make_writer")
    mw = mw.replace("#[cfg(tracing_verif)] __verif::yield_point(1); ", "")
    # hook H1b (optional): a second yield point between should_rollover and advance_date; when present the
    # driver also forces schedules in which a thread is preempted between the load and the compare_exchange
    # (strip_comments already removed the yield hooks from `src`; look at the raw text)
    raw = " ".join(open(os.path.join(repo, "tracing-appender/src/rolling.rs")).read().split())
    yield0 = bool(re.search(r"if let Some\(current_time\) = self\.state\.should_rollover\(now\) \{ #\[cfg\(tracing_verif\)\] __verif::yield_point\(0\); "
                            r"(?:// [^{}]*? )?if self\.state\.advance_date\(now, current_time\) \{", raw))
    recheck = None
    old = (r"let now = self\.now\(\); if let Some\(current_time\) = self\.state\.should_rollover\(now\) \{ if self\.state\.advance_date\(now, current_time\) \{ "
           r"self\.state\.refresh_writer\(now, &mut self\.writer\.write\(\)\); \} \} RollingWriter\(self\.writer\.read\(\)\)")
    new = (r"let now = self\.now\(\); if let Some\(current_time\) = self\.state\.should_rollover\(now\) \{ if self\.state\.advance_date\(now, current_time\) \{ "
           r"let mut file = self\.writer\.write\(\); if self\.state\.is_latest_rotation\(now\) \{ self\.state\.refresh_writer\((now|self\.now\(\)), &mut file\); \} \} \} "
           r"RollingWriter\(self\.writer\.read\(\)\)")
    # which clock reading names the file a rotation opens: the one taken at the start of the call (`now`, also used by
    # should_rollover / advance_date / is_latest_rotation) or a second one taken at the refresh (`self.now()`).  Both shapes
    # are recognised: the model follows the source (hop HW2), RollingTie.tie_first_reading pins the first.
    first_reading = True
    mnew = re.fullmatch(new, mw)
    if mnew and mnew.group(1) != "now":
        first_reading = False
    if re.fullmatch(old, mw):
        recheck = False
    elif mnew:
        lr = body("is_latest_rotation")
        if re.fullmatch(r"let expected = self \.rotation \.next_date\(&now\) \.map\(\|date\| date\.unix_timestamp\(\) as usize\) \.unwrap_or\(0\); "
                        r"self\.next_date\.load\(Ordering::\w+\) == expected", lr):
            recheck = True
        else:
            unrec.append("is_latest_rotation body")
    else:
        unrec.append("make_writer shape")
        # keep the correspondence meaningful although the tie is already broken
        recheck = "if self.state.is_latest_rotation(now) { self.state.refresh_writer(" in mw
        first_reading = "refresh_writer(self.now()" not in mw

    G = ["(* GENERATED by translators/rolling.py from tracing-appender/src/rolling.rs.  Rewritten on every run; do not edit. *)",
         "From Coq Require Import ZArith List String.", "Import ListNotations.", "Local Open Scope string_scope.", ""]
    G.append("Definition gen_dur : list (string * Z) := [%s]." % "; ".join("(%s, %d%%Z)" % (coq_str(r), dur[r]) for r in ROTS[:3]))
    G.append("Definition gen_hms : list (string * (string * string * string)) := [%s]." %
             "; ".join("(%s, (%s, %s, %s))" % ((coq_str(r),) + tuple(coq_str(x) for x in hms[r])) for r in ROTS[:3]))
    G.append("Definition gen_format : list (string * string) := [%s]." % "; ".join("(%s, %s)" % (coq_str(r), coq_str(fmt[r])) for r in ROTS))
    G.append("Definition gen_join : list (string * string) := [%s]." % "; ".join("(%s, %s)" % (coq_str(k), coq_str(v)) for k, v in join))
    G.append("Definition gen_rollover_cmp : string := %s." % coq_str(cmp_))
    G.append("Definition gen_zero_is_never : bool := %s." % ("true" if zero_never else "false"))
    G.append("Definition gen_advance : string := %s." % coq_str(adv))
    G.append("Definition gen_prune_guard : string := %s." % coq_str(guard))
    G.append("Definition gen_prune_keep : Z := %d%%Z." % keep)
    G.append("Definition gen_prune_sort : string := %s." % coq_str(sort_key))
    G.append("Definition gen_prune_filters : list string := [%s]." % "; ".join(coq_str(x) for x in filt))
    G.append("Definition gen_refresh_order : list string := [%s]." % "; ".join(coq_str(x) for x in order))
    G.append("Definition gen_prune_pred : list (string * string) := [%s]." % "; ".join("(%s, %s)" % (coq_str(k), coq_str(v)) for k, v in prune_pred))
    G.append("Definition gen_prune_sort_expr : string := %s." % coq_str(prune_sort))
    G.append("Definition gen_prune_count_expr : string := %s." % coq_str(prune_count))
    G.append("Definition gen_advance_stored : string := %s." % coq_str(adv_stored))
    G.append("Definition gen_builder_defaults : list (string * string) := [%s]." % "; ".join("(%s, %s)" % (coq_str(k), coq_str(v)) for k, v in bdef))
    G.append("Definition gen_builder_setters : list (string * string) := [%s]." % "; ".join("(%s, %s)" % (coq_str(k), coq_str(v)) for k, v in bset))
    G.append("Definition gen_recheck : bool := %s." % ("true" if recheck else "false"))
    G.append("Definition gen_refresh_uses_first_reading : bool := %s." % ("true" if first_reading else "false"))
    G.append("Definition gen_yield0 : bool := %s." % ("true" if yield0 else "false"))
    G.append("Definition gen_unrecognised : list string := [%s]." % "; ".join(coq_str(u) for u in unrec))
    text = "\n".join(G) + "\n"
    if out:
        with open(out, "w") as f:
            f.write(text)
    return text, unrec


if __name__ == "__main__":
    t, u = main(sys.argv[1] if len(sys.argv) > 1 else "/repo", None)
    sys.stdout.write(t)
    if u:
        sys.stderr.write("UNRECOGNISED: %s\n" % u)
