"""C17 translator: what `#[instrument]` generates, read off the source on every run.

Reads  tracing-attributes/src/expand.rs  (fn gen_block, fn param_names, RecordType::TYPES_FOR_VALUE)
and    tracing-attributes/src/attr.rs    (InstrumentArgs::level, impl Parse for Level, the duplicate-argument guards)
and writes coq/gen/Gen_attr.v:

  gen_sync / gen_async : bool(err) -> bool(ret) -> option tshape      the eight quote! templates of gen_block
  gen_sync_decls / gen_sync_steps / gen_sync_static_guard             the sync prologue (`let span; let guard; if level_enabled!{..}`)
  gen_async_lets / gen_async_then / gen_async_else / gen_async_cond   the async wrapper
  gen_err_display / gen_ret_display : fmode -> option bool            `%` (true) or `?` (false) per FormatMode
  gen_err_default / gen_ret_default : option lvldef                   default level of the err / ret event
  gen_event_target_is_span_target, gen_default_level, gen_follows_iterates, gen_span_macro_order
  gen_unrecognised                                                    everything that did not have the expected shape

Attr/SourceTie.v + Properties/C17.v prove that these equal what Attr/Model.v's `expand` / `run` implement.  This is not a
Rust parser: every reader below recognises one specific shape and *fails closed* (None / an entry in gen_unrecognised),
which makes the Coq obligation fail.  `tables(repo)` returns the Python-side tables (TYPES_FOR_VALUE, pattern rules, level
spellings, argument guards) that driver/props/c17.py compares with what its corpus generator assumes."""
import os
import re
import sys

sys.path.insert(0, os.path.dirname(os.path.abspath(__file__)))
import rsparse  # noqa: E402

EXPAND = "tracing-attributes/src/expand.rs"
ATTR = "tracing-attributes/src/attr.rs"
LIB = "tracing-attributes/src/lib.rs"

TOK = re.compile(r"#[A-Za-z_]\w*|[A-Za-z_]\w*|\d+|=>|\|\||::|->|\S")


def toks(s):
    return TOK.findall(s)


def strip_attrs(ts):
    """remove `# [ ... ]` / `# ! [ ... ]` attribute token groups"""
    out = []
    i = 0
    while i < len(ts):
        if ts[i] == "#" and i + 1 < len(ts) and ts[i + 1] in ("[", "!"):
            j = i + 1
            if ts[j] == "!":
                j += 1
            if j < len(ts) and ts[j] == "[":
                depth = 0
                while j < len(ts):
                    if ts[j] == "[":
                        depth += 1
                    elif ts[j] == "]":
                        depth -= 1
                        if depth == 0:
                            break
                    j += 1
                i = j + 1
                continue
        out.append(ts[i])
        i += 1
    return out


class Unrec(Exception):
    pass


def close_of(ts, i):
    """index of the bracket closing ts[i]"""
    pairs = {"(": ")", "{": "}", "[": "]"}
    o = ts[i]
    c = pairs[o]
    depth = 0
    for j in range(i, len(ts)):
        if ts[j] == o:
            depth += 1
        elif ts[j] == c:
            depth -= 1
            if depth == 0:
                return j
    raise Unrec("unbalanced %s" % o)


# ------------------------------------------------------------------------------------------------
# the template grammar

def parse_expr(ts, i):
    """an expression starting at ts[i]; returns (shape, next index)"""
    if i >= len(ts):
        raise Unrec("expression expected")
    t = ts[i]
    if t == "#block":
        return "HBody", i + 1
    if t == "(" and ts[i + 1:i + 4] == ["move", "||"] + ts[i + 3:i + 4]:
        # ( move || E ) ( )
        j = close_of(ts, i)
        inner, k = parse_expr(ts[:j], i + 3)
        if k != j:
            raise Unrec("closure body has trailing tokens: %s" % " ".join(ts[k:j][:8]))
        if ts[j + 1:j + 3] != ["(", ")"]:
            raise Unrec("closure is not called immediately")
        return "(HClosureCall %s)" % inner, j + 3
    if t == "async":
        if ts[i + 1:i + 2] != ["move"]:
            raise Unrec("async block without `move`")
        inner, k = parse_block_or_body(ts, i + 2)
        if ts[k:k + 2] == [".", "await"]:
            return "(HAsyncAwait %s)" % inner, k + 2
        raise Unrec("async block is not awaited in place")
    if t == "{":
        j = close_of(ts, i)
        return parse_items(ts[i + 1:j]), j + 1
    raise Unrec("unknown expression at `%s`" % " ".join(ts[i:i + 6]))


def parse_block_or_body(ts, i):
    if ts[i:i + 1] == ["#block"]:
        return "HBody", i + 1
    if ts[i:i + 1] == ["{"]:
        j = close_of(ts, i)
        return parse_items(ts[i + 1:j]), j + 1
    raise Unrec("block expected at `%s`" % " ".join(ts[i:i + 6]))


def parse_arms(ts):
    """the two arms of the Ok/Err match; returns ret_in_ok"""
    def arm(i, ctor, var, ev):
        head = [ctor, "(", var, ")", "=>"]
        if ts[i:i + 5] != head:
            raise Unrec("arm `%s(%s) =>` expected at `%s`" % (ctor, var, " ".join(ts[i:i + 6])))
        i += 5
        plain = [ctor, "(", var, ")"]
        if ts[i:i + 4] == plain:
            return i + 4, False
        with_ev = ["{", ev, ";"] + plain + ["}"]
        if ts[i:i + len(with_ev)] == with_ev:
            return i + len(with_ev), True
        raise Unrec("arm body of %s not recognised: `%s`" % (ctor, " ".join(ts[i:i + 10])))
    i, ret_in_ok = arm(0, "Ok", "x", "#ret_event")
    if ts[i:i + 1] == [","]:
        i += 1
    i, err_in_err = arm(i, "Err", "e", "#err_event")
    if ts[i:i + 1] == [","]:
        i += 1
    if i != len(ts):
        raise Unrec("extra match arms: `%s`" % " ".join(ts[i:i + 8]))
    if not err_in_err:
        raise Unrec("the Err arm emits no err event")
    return ret_in_ok


def parse_items(ts):
    """the statements of a template block"""
    if not ts:
        raise Unrec("empty template")
    if ts[0] == "let":
        if len(ts) < 4 or ts[2] != "=":
            raise Unrec("`let v = ..` expected")
        var = ts[1]
        inner, k = parse_expr(ts, 3)
        if ts[k:k + 1] != [";"]:
            raise Unrec("`;` expected after let")
        rest = ts[k + 1:]
        if rest == ["#ret_event", ";", var]:
            return "(HLetRet %s)" % inner
        if rest[:2] == ["match", var] and rest[2:3] == ["{"]:
            j = close_of(rest, 2)
            if j != len(rest) - 1:
                raise Unrec("tokens after the match")
            return "(HMatch %s %s)" % (inner, "true" if parse_arms(rest[3:j]) else "false")
        raise Unrec("after `let %s = ..;`: `%s`" % (var, " ".join(rest[:8])))
    if ts[0] == "match":
        inner, k = parse_expr(ts, 1)
        if ts[k:k + 1] != ["{"]:
            raise Unrec("match arms expected")
        j = close_of(ts, k)
        if j != len(ts) - 1:
            raise Unrec("tokens after the match")
        return "(HMatch %s %s)" % (inner, "true" if parse_arms(ts[k + 1:j]) else "false")
    inner, k = parse_expr(ts, 0)
    if k != len(ts):
        raise Unrec("trailing tokens `%s`" % " ".join(ts[k:k + 8]))
    return inner


def parse_sync_arm(ts):
    """`#span <items>`  or  `{ #span <items> }`: the prologue first, then the template"""
    if ts and ts[0] == "{" and close_of(ts, 0) == len(ts) - 1:
        ts = ts[1:-1]
    if not ts or ts[0] != "#span":
        raise Unrec("the span prologue is not the first statement of the sync template")
    if "#span" in ts[1:]:
        raise Unrec("the span prologue occurs twice")
    return parse_items(ts[1:])


def parse_async_arm(ts):
    """`async move #block` / `async move { items }`: the future the wrapper awaits"""
    if ts[:2] != ["async", "move"]:
        raise Unrec("`async move` expected")
    inner, k = parse_block_or_body(ts, 2)
    if k != len(ts):
        raise Unrec("trailing tokens `%s`" % " ".join(ts[k:k + 8]))
    return "(HAsyncAwait %s)" % inner


# ------------------------------------------------------------------------------------------------
# locating things in gen_block

def quote_body(expr):
    """the token text inside `quote!(..)`, `quote! {..}`, `quote_spanned!(sp=> ..)`, `quote_spanned! {sp=> ..}`"""
    m = re.match(r"\s*(quote_spanned|quote)\s*!\s*([({])", expr)
    if not m:
        raise Unrec("not a quote!: %s" % rsparse.norm(expr)[:60])
    ob = m.end() - 1
    cb = rsparse.match_brace(expr, ob, expr[ob], {"(": ")", "{": "}"}[expr[ob]])
    if expr[cb + 1:].strip().strip(",;").strip():
        raise Unrec("tokens after the quote!")
    body = expr[ob + 1:cb]
    if m.group(1) == "quote_spanned":
        k = body.find("=>")
        if k < 0:
            raise Unrec("quote_spanned! without `=>`")
        body = body[k + 2:]
    return body


ARM_KEYS = {"(Some(err_event), Some(ret_event))": (True, True), "(Some(err_event), None)": (True, False),
            "(None, Some(ret_event))": (False, True), "(None, None)": (False, False)}


def split_arms_raw(body):
    """[(pattern, raw expression text)] of a match body, splitting at top-level `,` / `}` like rsparse.match_arms but
    keeping the expression text unnormalised"""
    arms = []
    i, n, depth, start = 0, len(body), 0, 0
    items = []
    while i < n:
        c = body[i]
        if c == '"':
            j = i + 1
            while j < n and body[j] != '"':
                if body[j] == "\\":
                    j += 1
                j += 1
            i = j + 1
            continue
        if c in "([{":
            depth += 1
        elif c in ")]}":
            depth -= 1
            if c == "}" and depth == 0 and "=>" in body[start:i]:
                items.append(body[start:i + 1])
                start = i + 1
        elif c == "," and depth == 0:
            items.append(body[start:i])
            start = i + 1
        i += 1
    if body[start:].strip():
        items.append(body[start:])
    for it in items:
        if "=>" not in it:
            continue
        p, e = it.split("=>", 1)
        arms.append((rsparse.norm(re.sub(r"#\[[^\]]*\]", "", p)), e))
    return arms


def find_match(src, scrutinee, start=0):
    """body text of `match <scrutinee> {..}` (first occurrence at or after start), and its end index"""
    m = re.compile(r"\bmatch\s+" + scrutinee + r"\s*\{").search(src, start)
    if not m:
        return None, None
    ob = m.end() - 1
    cb = rsparse.match_brace(src, ob)
    return src[ob + 1:cb], cb


def let_quote(src, name, which=0):
    """the `which`-th `let <name> = quote!(..);` body (None if absent)"""
    ms = list(re.finditer(r"\blet\s+" + name + r"\s*=\s*(quote(?:_spanned)?\s*!\s*[({])", src))
    if len(ms) <= which:
        return None
    m = ms[which]
    ob = m.end() - 1
    cb = rsparse.match_brace(src, ob, src[ob], {"(": ")", "{": "}"}[src[ob]])
    return src[ob + 1:cb]


NORM_STATIC = toks("tracing::level_enabled!(#level) || tracing::if_log_enabled!(#level, {true} else {false})")
NORM_CREATE = toks("__tracing_attr_span = #span;")
NORM_ENTER = toks("__tracing_attr_guard = __tracing_attr_span.enter();")
NORM_FOLLOWS = toks("#(for cause in #follows_from { __tracing_attr_span.follows_from(cause); })*")
NORM_INSTR = toks("tracing::Instrument::instrument(__tracing_instrument_future, __tracing_attr_span).await")
NORM_PLAIN = toks("__tracing_instrument_future.await")
NORM_DISABLED = toks("!__tracing_attr_span.is_disabled()")
NORM_SPAN_MACRO = toks("tracing::span!(target: #target, #(parent: #parent,)* #level, #span_name, #(#quoted_fields,)* #custom_fields)")
LOCALS = {"__tracing_attr_span": "LSpan", "__tracing_attr_guard": "LGuard", "__tracing_instrument_future": "LFut"}


def parse_sync_prologue(body):
    ts = strip_attrs(toks(body))
    decls = []
    i = 0
    while ts[i:i + 1] == ["let"] and ts[i + 2:i + 3] == [";"]:
        if ts[i + 1] not in LOCALS:
            raise Unrec("unknown local %s" % ts[i + 1])
        decls.append(LOCALS[ts[i + 1]])
        i += 3
    if ts[i:i + 1] != ["if"]:
        raise Unrec("`if level_enabled!..` expected after the declarations")
    ob = ts.index("{", i)
    # the condition contains `{true} else {false}`: the block is the last brace group
    last_open = None
    j = i + 1
    depth = 0
    k = j
    groups = []
    while k < len(ts):
        if ts[k] == "{" and depth == 0:
            e = close_of(ts, k)
            groups.append((k, e))
            k = e + 1
            continue
        if ts[k] in "([":
            e = close_of(ts, k)
            k = e + 1
            continue
        k += 1
    if not groups or groups[-1][1] != len(ts) - 1:
        raise Unrec("prologue does not end with the guarded block")
    bo, bc = groups[-1]
    cond = ts[i + 1:bo]
    static_guard = cond == NORM_STATIC
    stmts = ts[bo + 1:bc]
    steps = []
    p = 0
    while p < len(stmts):
        if stmts[p:p + len(NORM_CREATE)] == NORM_CREATE:
            steps.append("PCreate")
            p += len(NORM_CREATE)
        elif stmts[p:p + 1] == ["#follows_from"]:
            steps.append("PFollows")
            p += 1
        elif stmts[p:p + len(NORM_ENTER)] == NORM_ENTER:
            steps.append("PEnter")
            p += len(NORM_ENTER)
        else:
            raise Unrec("prologue statement not recognised: `%s`" % " ".join(stmts[p:p + 8]))
    return decls, steps, static_guard


def parse_async_wrapper(body):
    ts = strip_attrs(toks(body))
    lets = []
    i = 0
    expect = {"__tracing_attr_span": "#span", "__tracing_instrument_future": "#mk_fut"}
    while ts[i:i + 1] == ["let"]:
        name = ts[i + 1]
        if name not in expect or ts[i + 2:i + 5] != ["=", expect[name], ";"]:
            raise Unrec("async wrapper: `let %s = ..` not recognised" % name)
        lets.append(LOCALS[name])
        i += 5
    if ts[i:i + 1] != ["if"]:
        raise Unrec("async wrapper: `if` expected")
    ob = ts.index("{", i)
    cond = ts[i + 1:ob]
    cb = close_of(ts, ob)
    if ts[cb + 1:cb + 3] != ["else", "{"]:
        raise Unrec("async wrapper: `else` expected")
    eb = cb + 2
    ec = close_of(ts, eb)
    if ec != len(ts) - 1:
        raise Unrec("async wrapper: tokens after the else block")

    def steps(st):
        out = []
        p = 0
        while p < len(st):
            if st[p:p + 1] == ["#follows_from"]:
                out.append("AFollows")
                p += 1
            elif st[p:p + len(NORM_INSTR)] == NORM_INSTR:
                out.append("AInstrumentAwait")
                p += len(NORM_INSTR)
            elif st[p:p + len(NORM_PLAIN)] == NORM_PLAIN:
                out.append("APlainAwait")
                p += len(NORM_PLAIN)
            else:
                raise Unrec("async wrapper statement not recognised: `%s`" % " ".join(st[p:p + 8]))
        return out
    return lets, steps(ts[ob + 1:cb]), steps(ts[eb + 1:ec]), cond == NORM_DISABLED


MODES = {"FormatMode::Default": "MDefault", "FormatMode::Display": "MDisplay", "FormatMode::Debug": "MDebug"}
LEVEL_NUM = {"Error": 1, "Warn": 2, "Info": 3, "Debug": 4, "Trace": 5}


def parse_event(gb, which, field, var):
    """`let <which>_event = match args.<which>_args { Some(event_args) => { let level_tokens = event_args.level(D);
    match event_args.mode { MODES => Some(quote!(tracing::event!(target: #target, #level_tokens, field = SIGIL var))) .. } } _ => None };`"""
    m = re.search(r"\blet\s+%s_event\s*=\s*match\s+args\s*\.\s*%s_args\s*\{" % (which, which), gb)
    if not m:
        raise Unrec("%s_event definition not found" % which)
    ob = m.end() - 1
    cb = rsparse.match_brace(gb, ob)
    body = gb[ob + 1:cb]
    lm = re.search(r"\blet\s+level_tokens\s*=\s*event_args\s*\.\s*level\s*\(\s*([A-Za-z_:]+)\s*\)\s*;", body)
    if not lm:
        raise Unrec("%s_event: default level not found" % which)
    d = lm.group(1)
    if d.startswith("Level::") and d[7:] in LEVEL_NUM:
        default = "(LDConst %d)" % LEVEL_NUM[d[7:]]
    elif d == "args_level" and re.search(r"\blet\s+args_level\s*=\s*args\s*\.\s*level\s*\(\s*\)\s*;", gb):
        default = "LDSpan"
    else:
        raise Unrec("%s_event: default level `%s`" % (which, d))
    mb, _ = find_match(body, r"event_args\s*\.\s*mode")
    if mb is None:
        raise Unrec("%s_event: match on the mode not found" % which)
    table = {}
    target_ok = True
    for pat, ex in split_arms_raw(mb):
        ex = ex.strip().rstrip(",").strip()
        mm = re.match(r"Some\s*\((.*)\)\s*$", ex, re.S)
        if not mm:
            raise Unrec("%s_event: arm `%s` is not Some(quote!(..))" % (which, pat))
        q = toks(quote_body(mm.group(1)))
        head = toks("tracing::event!(target: #target, #level_tokens, %s =" % field)
        if q[:len(head) - 0] != head:
            if q[:5] == toks("tracing::event!(") and q[5:8] != ["target", ":", "#target"]:
                target_ok = False
            else:
                raise Unrec("%s_event: event macro shape `%s`" % (which, " ".join(q[:14])))
        tail = q[len(head):]
        if tail == ["%", var, ")"]:
            disp = "true"
        elif tail == ["?", var, ")"]:
            disp = "false"
        else:
            raise Unrec("%s_event: value `%s`" % (which, " ".join(tail)))
        for p in [x.strip() for x in pat.split("|")]:
            if p not in MODES:
                raise Unrec("%s_event: mode pattern `%s`" % (which, p))
            table[MODES[p]] = disp
    if set(table) != set(MODES.values()):
        raise Unrec("%s_event: modes covered: %s" % (which, sorted(table)))
    return table, default, target_ok


# ------------------------------------------------------------------------------------------------

# ------------------------------------------------------------------------------------------------
# which function's name becomes the default span name, per call site

def split_args(text):
    """top-level comma split of an argument list"""
    out, cur, depth = [], [], 0
    for c in text:
        if c in "([{":
            depth += 1
        elif c in ")]}":
            depth -= 1
        if c == "," and depth == 0:
            out.append("".join(cur))
            cur = []
        else:
            cur.append(c)
    if "".join(cur).strip():
        out.append("".join(cur))
    return [rsparse.norm(x) for x in out]


def calls_of(body, callee_re):
    """argument lists of every call `callee(..)` in body"""
    res = []
    for m in re.finditer(callee_re + r"\s*\(", body):
        ob = m.end() - 1
        cb = rsparse.match_brace(body, ob, "(", ")")
        res.append(split_args(body[ob + 1:cb]))
    return res


NAME_VAR = "instrumented_function_name"


def name_arg_kind(arg):
    """'pass' if the argument is the variable instrumented_function_name (possibly borrowed / .as_str())"""
    a = arg.replace(" ", "")
    if a in (NAME_VAR, "&" + NAME_VAR, NAME_VAR + ".as_str()", "&*" + NAME_VAR):
        return "pass"
    if a in ("&self.input.sig.ident.to_string()", "self.input.sig.ident.to_string().as_str()"):
        return "annotated-input"
    return None


def sig_binds_ident(gf):
    """`let Signature { .., ident, .. } = sig;` in gen_function"""
    m = re.search(r"\blet\s+Signature\s*\{", gf)
    if not m:
        return False
    ob = m.end() - 1
    cb = rsparse.match_brace(gf, ob)
    return re.search(r"(^|,)\s*ident\s*,", gf[ob + 1:cb]) is not None and re.match(r"\s*=\s*sig\s*;", gf[cb + 1:]) is not None


def name_sources(ex, lib, unrec):
    """{site: 'NSAnnotated' | 'NSHelper' | None} for the four ways the macro reaches gen_block, plus two shape facts"""
    res = {"CSSpeculative": None, "CSPrecise": None, "CSAsyncFunction": None, "CSAsyncBlock": None}
    facts = {"helper_async_from_sig": False, "block_async_true": False}
    efns = rsparse.fns_in(ex)
    lfns = rsparse.fns_in(lib)
    gf_sig, gf = efns.get("gen_function", (None, None))
    ga_sig, ga = efns.get("gen_async", (None, None))
    if gf is None or ga is None:
        unrec.append("name flow: gen_function / gen_async not found")
        return res, facts
    # ---- gen_function -> gen_block
    gb_calls = calls_of(gf, r"\bgen_block")
    how_gf = None
    if len(gb_calls) == 1 and len(gb_calls[0]) == 6:
        a = gb_calls[0]
        facts["helper_async_from_sig"] = a[2].replace(" ", "") == "asyncness.is_some()"
        if name_arg_kind(a[4]) == "pass":
            if re.search(r"\b%s\s*:\s*&\s*str" % NAME_VAR, gf_sig):
                how_gf = "param"          # the caller decides
            elif re.search(r"\blet\s+%s\s*=\s*ident\s*\.\s*to_string\s*\(\s*\)\s*;" % NAME_VAR, gf) and sig_binds_ident(gf):
                how_gf = "own-sig"        # the name of whatever function gen_function is handed
    if how_gf is None:
        unrec.append("name flow: gen_function's gen_block call")
    # ---- gen_async: the two cases
    ga_has_param = re.search(r"\b%s\s*:\s*&\s*str" % NAME_VAR, ga_sig) is not None
    fcalls = calls_of(ga, r"\bgen_function")
    bcalls = calls_of(ga, r"\bgen_block")
    fun_is_helper = re.search(r"AsyncKind::Function\s*\(\s*fun\s*\)\s*=>\s*\{\s*let\s+fun\s*=\s*MaybeItemFn::from\s*\(\s*fun\s*\.\s*clone\s*\(\s*\)\s*\)\s*;", ga) is not None
    input_is_annotated = re.search(r"pub\s*\(\s*crate\s*\)\s*fn\s+from_fn\s*\(\s*input\s*:\s*&'block\s+ItemFn\s*\)", ex) is not None and \
        len(re.findall(r"\binput\s*,\s*\}\s*\)", ex)) >= 3
    how_fn_site = None      # what gen_async hands to gen_function for the name
    if len(fcalls) == 1 and fun_is_helper and fcalls[0] and fcalls[0][0].replace(" ", "") == "fun.as_ref()":
        if how_gf == "param" and len(fcalls[0]) == 4 and name_arg_kind(fcalls[0][2]) == "pass" and ga_has_param:
            how_fn_site = "from-caller"
        elif how_gf == "own-sig" and len(fcalls[0]) == 3:
            how_fn_site = "helper"
    how_block_site = None
    if len(bcalls) == 1 and len(bcalls[0]) == 6:
        facts["block_async_true"] = bcalls[0][2] == "true"
        k = name_arg_kind(bcalls[0][4])
        if k == "pass" and ga_has_param:
            how_block_site = "from-caller"
        elif k == "annotated-input" and input_is_annotated:
            how_block_site = "annotated"
    # ---- lib.rs
    def lib_site(fname, parse_re):
        sig, body = lfns.get(fname, (None, None))
        if body is None:
            return None, None
        parsed = re.search(parse_re, body) is not None
        local = re.search(r"\blet\s+%s\s*=\s*input\s*\.\s*sig\s*\.\s*ident\s*\.\s*to_string\s*\(\s*\)\s*;" % NAME_VAR, body) is not None
        return body, (parsed, local)
    spec, spec_f = lib_site("instrument_speculative", r"\blet\s+input\s*=\s*syn::parse_macro_input!\s*\(\s*item\s+as\s+MaybeItemFn\s*\)\s*;")
    prec, prec_f = lib_site("instrument_precise", r"\blet\s+input\s*=\s*syn::parse::<ItemFn>\s*\(\s*item\s*\)\s*\?\s*;")

    def direct(body, flags):
        """a direct `expand::gen_function(input.as_ref(), args, [name,] None)` call in lib.rs"""
        if body is None or not flags[0]:
            return None
        cs = calls_of(body, r"\bexpand::gen_function")
        if len(cs) != 1 or cs[0][0].replace(" ", "") != "input.as_ref()":
            return None
        if how_gf == "param" and len(cs[0]) == 4 and name_arg_kind(cs[0][2]) == "pass" and flags[1]:
            return "NSAnnotated"
        if how_gf == "own-sig" and len(cs[0]) == 3:
            return "NSAnnotated"            # `input` is the annotated item itself
        return None
    res["CSSpeculative"] = direct(spec, spec_f)
    res["CSPrecise"] = direct(prec, prec_f)
    if prec is not None and prec_f[0]:
        gcalls = calls_of(prec, r"\basync_like\s*\.\s*gen_async")
        from_fn_ok = re.search(r"if\s+let\s+Some\s*\(\s*async_like\s*\)\s*=\s*expand::AsyncInfo::from_fn\s*\(\s*&\s*input\s*\)", prec) is not None
        caller_passes = len(gcalls) == 1 and len(gcalls[0]) == 2 and name_arg_kind(gcalls[0][1]) == "pass" and prec_f[1]
        caller_plain = len(gcalls) == 1 and len(gcalls[0]) == 1
        if from_fn_ok:
            if how_fn_site == "from-caller" and caller_passes:
                res["CSAsyncFunction"] = "NSAnnotated"
            elif how_fn_site == "helper" and (caller_plain or caller_passes):
                res["CSAsyncFunction"] = "NSHelper"
            if how_block_site == "from-caller" and caller_passes:
                res["CSAsyncBlock"] = "NSAnnotated"
            elif how_block_site == "annotated":
                res["CSAsyncBlock"] = "NSAnnotated"
    for k, v in res.items():
        if v is None:
            unrec.append("name flow: call site %s" % k)
    return res, facts


def box_pin_rule(ex, unrec):
    """AsyncInfo::from_fn: the callee of the tail call is recognised by `path_to_string(path).ends_with("<suffix>")`;
    path_to_string joins the segment identifiers with `::`.  Also: a bare `async` block as last expression, an `async` block as
    first argument, and a call of an inner `async fn` found by `fun.sig.ident == func_name`."""
    r = {"suffix": None, "idents": False, "tail_async_block": False, "helper_call": False}
    ff = rsparse.fns_in(ex).get("from_fn", (None, None))[1]
    pts = rsparse.fns_in(ex).get("path_to_string", (None, None))[1]
    if ff is None or pts is None:
        unrec.append("from_fn / path_to_string not found")
        return r
    n = rsparse.norm(ff)
    m = re.search(r'let path = match outside_func\.as_ref\(\) \{ Expr::Path\(path\) => &path\.path, _ => return None, \}; '
                  r'if !path_to_string\(path\)\.ends_with\("([^"]*)"\) \{ return None; \}', n)
    if m and "is_box_pin" not in n:
        r["suffix"] = m.group(1)
    else:
        unrec.append("from_fn: the tail call's callee is not tested with path_to_string(path).ends_with(\"..\")")
    pn = rsparse.norm(pts)
    r["idents"] = ('write!(&mut res, "{}", path.segments[i].ident)' in pn and 'res.push_str("::")' in pn
                   and "for i in 0..path.segments.len()" in pn and "if i < path.segments.len() - 1" in pn)
    if not r["idents"]:
        unrec.append("path_to_string: not `segment identifiers joined by ::`")
    r["tail_async_block"] = ("if let Expr::Async(async_expr) = last_expr {" in n and "pinned_box: false" in n
                             and "if let Expr::Async(async_expr) = &outside_args[0] {" in n and "pinned_box: true" in n
                             and "if input.sig.asyncness.is_some() { return None; }" in n)
    if not r["tail_async_block"]:
        unrec.append("from_fn: async-block tail / argument recognition")
    r["helper_call"] = ("let func_name = match **func { Expr::Path(ref func_path) => path_to_string(&func_path.path), _ => return None, };" in n
                        and ".find(|(_, fun)| fun.sig.ident == func_name)?" in n and "kind: AsyncKind::Function(func)" in n
                        and "if fun.sig.asyncness.is_some() { return Some((stmt, fun)); }" in n)
    if not r["helper_call"]:
        unrec.append("from_fn: inner async fn call recognition")
    return r


PRECISE_BODY = toks("""
    let input = syn::parse::<ItemFn>(item)?;
    let instrumented_function_name = input.sig.ident.to_string();
    if input.sig.constness.is_some() {
        return Ok(quote! { compile_error!("the `#[instrument]` attribute may not be used with `const fn`s") }.into());
    }
    if let Some(async_like) = expand::AsyncInfo::from_fn(&input) {
        return async_like.gen_async(args, instrumented_function_name.as_str());
    }
    let input = MaybeItemFn::from(input);
    Ok(expand::gen_function(input.as_ref(), args, instrumented_function_name.as_str(), None).into())
""")


def no_trailing_commas(ts):
    return [t for i, t in enumerate(ts) if not (t == "," and ts[i + 1:i + 2] and ts[i + 1] in (")", "]", "}"))]


def detection_ignores_return_type(ex, lib, unrec):
    """instrument_precise tries AsyncInfo::from_fn on EVERY non-const fn (no condition on the declared return type), and from_fn
    itself looks at `sig.asyncness` and the block only.  Exact-shape match of instrument_precise's body: fails closed."""
    body = rsparse.fns_in(lib).get("instrument_precise", (None, None))[1]
    ff = rsparse.fns_in(ex).get("from_fn", (None, None))[1]
    ok = body is not None and ff is not None
    if ok and no_trailing_commas(toks(body)) != no_trailing_commas(PRECISE_BODY):
        ok = False
        unrec.append("lib.rs instrument_precise: body is not `parse; name; const check; if let Some(a) = AsyncInfo::from_fn(&input) "
                     "{ return a.gen_async(..) }; gen_function(..)` (is the async detection conditional?)")
    if ok:
        ft = toks(ff)
        if any(t in ("output", "ReturnType") for t in ft):
            ok = False
            unrec.append("AsyncInfo::from_fn mentions the return type")
        # every use of `input` in from_fn: input.sig.asyncness, input.block, the struct field `input`
        uses = set()
        for i, t in enumerate(ft):
            if t == "input" and ft[i + 1:i + 2] == ["."] and (i == 0 or ft[i - 1] != "."):
                chain, j = [], i + 1
                while ft[j:j + 1] == ["."] and re.match(r"[A-Za-z_]\w*$", ft[j + 1]) and ft[j + 2:j + 3] != ["("]:
                    chain.append(ft[j + 1])
                    j += 2
                uses.add(".".join(chain[:2]))
        if not uses <= {"sig.asyncness", "block"}:
            ok = False
            unrec.append("AsyncInfo::from_fn reads %s of the annotated fn" % sorted(uses - {"sig.asyncness", "block"}))
    elif body is None or ff is None:
        unrec.append("instrument_precise / from_fn not found")
    return ok


def read_sources(repo):
    ex = rsparse.strip_comments(open(os.path.join(repo, EXPAND)).read())
    at = rsparse.strip_comments(open(os.path.join(repo, ATTR)).read())
    return ex, at


def translate(repo):
    unrec = []
    out = {}
    ex, at = read_sources(repo)
    fns = rsparse.fns_in(ex)
    gb = fns.get("gen_block", (None, None))[1]
    if gb is None:
        return {"unrec": ["fn gen_block not found"]}
    # ---- the two template tables
    am = re.search(r"\bif\s+async_context\s*\{", gb)
    sync_tab, async_tab = {}, {}
    if not am:
        unrec.append("gen_block: `if async_context {` not found")
        async_part, sync_part = "", gb
    else:
        ob = am.end() - 1
        cb = rsparse.match_brace(gb, ob)
        async_part, sync_part = gb[ob + 1:cb], gb[cb + 1:]
    for part, tab, parse, label in ((async_part, async_tab, parse_async_arm, "async"), (sync_part, sync_tab, parse_sync_arm, "sync")):
        mb, mend = find_match(part, r"\(\s*err_event\s*,\s*ret_event\s*\)")
        if mb is None:
            unrec.append("gen_block/%s: `match (err_event, ret_event)` not found" % label)
            continue
        seen = set()
        for pat, expr in split_arms_raw(mb):
            key = ARM_KEYS.get(pat)
            if key is None:
                unrec.append("gen_block/%s: arm pattern `%s`" % (label, pat))
                continue
            if key in seen:
                unrec.append("gen_block/%s: duplicate arm `%s`" % (label, pat))
            seen.add(key)
            try:
                tab[key] = parse(strip_attrs(toks(quote_body(expr))))
            except Unrec as e:
                tab[key] = None
                unrec.append("gen_block/%s %s: %s" % (label, pat, e))
            except (ValueError, IndexError) as e:
                tab[key] = None
                unrec.append("gen_block/%s %s: %r" % (label, pat, e))
        if label == "sync" and part[mend + 1:].strip():
            unrec.append("gen_block/sync: code after the template table")
    out["sync"], out["async"] = sync_tab, async_tab
    # ---- the async wrapper: `return quote!(..)` inside `if async_context {..}`
    out["async_wrapper"] = None
    rm = re.search(r"\breturn\s+(quote\s*!\s*\()", async_part)
    if rm:
        ob = rm.end() - 1
        cb = rsparse.match_brace(async_part, ob, "(", ")")
        try:
            out["async_wrapper"] = parse_async_wrapper(async_part[ob + 1:cb])
        except (Unrec, ValueError, IndexError) as e:
            unrec.append("gen_block/async wrapper: %s" % e)
        mk = re.search(r"\blet\s+mk_fut\s*=\s*match\s*\(\s*err_event\s*,\s*ret_event\s*\)", async_part)
        if not mk or mk.start() > rm.start():
            unrec.append("gen_block/async: mk_fut is not the template table")
    else:
        unrec.append("gen_block/async: `return quote!(..)` not found")
    # ---- the sync prologue: the `let span = quote!(..)` after the async branch
    out["sync_prologue"] = None
    pb = let_quote(sync_part, "span")
    if pb is None:
        unrec.append("gen_block/sync: `let span = quote!(..)` (prologue) not found")
    else:
        try:
            out["sync_prologue"] = parse_sync_prologue(pb)
        except (Unrec, ValueError, IndexError) as e:
            unrec.append("gen_block/sync prologue: %s" % e)
    # ---- follows_from
    fb = let_quote(gb, "follows_from")
    out["follows_iterates"] = fb is not None and toks(fb) == NORM_FOLLOWS and \
        re.search(r"\blet\s+follows_from\s*=\s*args\s*\.\s*follows_from\s*\.\s*iter\s*\(\s*\)\s*;", gb) is not None
    if not out["follows_iterates"]:
        unrec.append("gen_block: follows_from loop shape")
    # ---- the span! invocation: target, parent, level, name, parameters, then custom fields
    sm = re.search(r"quote\s*!\s*\(\s*tracing\s*::\s*span\s*!", gb)
    out["span_macro_order"] = False
    if sm:
        ob = gb.find("(", sm.start())
        cb = rsparse.match_brace(gb, ob, "(", ")")
        out["span_macro_order"] = toks(gb[ob + 1:cb]) == NORM_SPAN_MACRO
    if not out["span_macro_order"]:
        unrec.append("gen_block: span! invocation shape")
    name_default = re.search(r"\.\s*unwrap_or_else\s*\(\s*\|\|\s*quote\s*!\s*\(\s*#instrumented_function_name\s*\)\s*\)", gb) is not None \
        and re.search(r"\.\s*map\s*\(\s*\|name\|\s*quote\s*!\s*\(\s*#name\s*\)\s*\)", gb) is not None
    out["name_default_fn"] = name_default
    if not name_default:
        unrec.append("gen_block: span name default")
    # ---- the field filter (skip, then override by a same-named custom field)
    fm = re.search(r"\.\s*filter\s*\(\s*\|\s*\(\s*param\s*,\s*_\s*\)\s*\|\s*\{", gb)
    out["filter_skip"] = out["filter_override"] = False
    if fm:
        ob = fm.end() - 1
        cb = rsparse.match_brace(gb, ob)
        ft = toks(gb[ob + 1:cb])
        skip = toks("if args.skips.contains(param) { return false; }")
        out["filter_skip"] = ft[:len(skip)] == skip
        ov = toks("if let Some(ref fields) = args.fields { fields.0.iter().all(|Field { ref name, .. }| { let first = name.first(); "
                  "first != name.last() || !first.iter().any(|name| name == &param) }) } else { true }")
        out["filter_override"] = ft[len(skip):] == ov
    if not out["filter_skip"]:
        unrec.append("gen_block: skip filter shape")
    if not out["filter_override"]:
        unrec.append("gen_block: override filter shape")
    rt = re.search(r"RecordType::Value\s*=>\s*quote\s*!\s*\(\s*#user_name\s*=\s*#real_name\s*\)\s*,\s*"
                   r"RecordType::Debug\s*=>\s*quote\s*!\s*\(\s*#user_name\s*=\s*tracing::field::debug\s*\(\s*&\s*#real_name\s*\)\s*\)", gb)
    out["record_map"] = rt is not None
    if not rt:
        unrec.append("gen_block: RecordType -> field expression map")
    # ---- events
    for which, field, var in (("err", "error", "e"), ("ret", "return", "x")):
        try:
            out[which] = parse_event(gb, which, field, var)
        except (Unrec, ValueError, IndexError) as e:
            out[which] = None
            unrec.append("gen_block: %s" % e)
    tg = len(re.findall(r"\blet\s+target\s*=\s*args\s*\.\s*target\s*\(\s*\)\s*;", gb)) == 2
    out["target_from_args"] = tg
    if not tg:
        unrec.append("gen_block: `let target = args.target();`")
    # ---- attr.rs
    lm = re.search(r"fn\s+level\s*\(\s*&self\s*\)\s*->\s*Level\s*\{\s*self\s*\.\s*level\s*\.\s*clone\s*\(\s*\)\s*\.\s*unwrap_or\s*\(\s*Level::(\w+)\s*\)\s*\}", at)
    out["default_level"] = LEVEL_NUM.get(lm.group(1)) if lm else None
    if out["default_level"] is None:
        unrec.append("attr.rs: InstrumentArgs::level default")
    tm = re.search(r"fn\s+target\s*\(\s*&self\s*\)\s*->\s*impl\s+ToTokens\s*\{\s*if\s+let\s+Some\s*\(\s*ref\s+target\s*\)\s*=\s*self\s*\.\s*target\s*\{\s*"
                   r"quote\s*!\s*\(\s*#target\s*\)\s*\}\s*else\s*\{\s*quote\s*!\s*\(\s*module_path\s*!\s*\(\s*\)\s*\)\s*\}\s*\}", at)
    out["target_default_module_path"] = tm is not None
    if not tm:
        unrec.append("attr.rs: InstrumentArgs::target default")
    out["tables"] = tables_from(ex, at, unrec)
    out["box_pin"] = box_pin_rule(ex, unrec)
    lib = rsparse.strip_comments(open(os.path.join(repo, LIB)).read())
    out["ignores_return_type"] = detection_ignores_return_type(ex, lib, unrec)
    out["name_sources"], out["name_facts"] = name_sources(ex, lib, unrec)
    out["unrec"] = unrec
    return out


def tables_from(ex, at, unrec):
    t = {}
    m = re.search(r"TYPES_FOR_VALUE\s*:\s*&'static\s*\[\s*&'static\s+str\s*\]\s*=\s*&\s*\[(.*?)\]\s*;", ex, re.S)
    t["types_for_value"] = re.findall(r'"([^"]*)"', m.group(1)) if m else None
    if not m:
        unrec.append("expand.rs: TYPES_FOR_VALUE")
    # parse_from_ty: path -> last segment in the table => Value; reference => recurse; else Debug
    pf = rsparse.fns_in(ex).get("parse_from_ty", (None, None))[1]
    t["ref_recurses"] = pf is not None and re.search(r"Type::Reference\s*\(\s*syn::TypeReference\s*\{\s*elem\s*,\s*\.\.\s*\}\s*\)\s*=>\s*RecordType::parse_from_ty\s*\(\s*elem\s*\)", pf) is not None
    guard = toks("Type::Path(TypePath { path, .. }) if path.segments.iter().next_back().map(|path_segment| { "
                 "let ident = path_segment.ident.to_string(); Self::TYPES_FOR_VALUE.iter().any(|&t| t == ident) }).unwrap_or(false) => "
                 "{ RecordType::Value }")
    pft = toks(pf) if pf is not None else []
    t["path_last_segment"] = pft[:3] == ["match", "ty", "{"] and pft[3:3 + len(guard)] == guard
    t["other_debug"] = pf is not None and re.search(r"_\s*=>\s*RecordType::Debug\s*,?\s*\}\s*$", pf) is not None
    if not t["path_last_segment"]:
        unrec.append("parse_from_ty: the path arm is not `last segment's identifier in TYPES_FOR_VALUE => Value`")
    if not t["other_debug"]:
        unrec.append("parse_from_ty: `_ => RecordType::Debug`")
    # param_names: which record type each pattern form passes on
    pn = rsparse.fns_in(ex).get("param_names", (None, None))[1]
    rules = {}
    if pn:
        mb, _ = find_match(pn, "pat")
        for pat, e in (split_arms_raw(mb) if mb else []):
            e = rsparse.norm(e)
            k = re.match(r"Pat::(\w+)", pat)
            key = k.group(1) if k else pat.strip()
            if "iter::once((ident, record_type))" in e:
                rules[key] = "keep"
            elif re.search(r"param_names\(\*pat, record_type\)", e):
                rules[key] = "recurse-keep"
            elif re.search(r"param_names\(\*?\w+, RecordType::Debug\)", e) and "flat_map" in e:
                rules[key] = "recurse-debug"
            elif "iter::empty()" in e:
                rules[key] = "none"
            else:
                rules[key] = "?"
                unrec.append("param_names: arm `%s`" % pat)
    else:
        unrec.append("expand.rs: fn param_names")
    t["pat_rules"] = rules
    t["receiver_debug"] = re.search(r"FnArg::Receiver\(_\)\s*=>\s*Box::new\(iter::once\(\(\s*Ident::new\(\"self\", param\.span\(\)\),\s*RecordType::Debug,?\s*\)\)\)",
                                    rsparse.norm(ex)) is not None
    # Level spellings
    lv = re.search(r"impl\s+Parse\s+for\s+Level\s*\{", at)
    strs, ints = {}, {}
    if lv:
        ob = lv.end() - 1
        body = at[ob:rsparse.match_brace(at, ob)]
        for s, l in re.findall(r's\s+if\s+s\s*\.\s*eq_ignore_ascii_case\s*\(\s*"(\w+)"\s*\)\s*=>\s*Ok\s*\(\s*Level::(\w+)\s*\)', body):
            strs[s] = LEVEL_NUM.get(l)
        for n, l in re.findall(r"i\s+if\s+is_level\s*\(\s*i\s*,\s*(\d+)\s*\)\s*=>\s*Ok\s*\(\s*Level::(\w+)\s*\)", body):
            ints[int(n)] = LEVEL_NUM.get(l)
        t["level_path"] = re.search(r"lookahead\s*\.\s*peek\s*\(\s*Ident\s*\)\s*\{\s*Ok\s*\(\s*Self::Path\s*\(\s*input\s*\.\s*parse\s*\(\s*\)\s*\?\s*\)\s*\)", body) is not None
    t["level_strs"], t["level_ints"] = strs, ints
    tk = {}
    for v, c in re.findall(r"Level::(\w+)\s*=>\s*tokens\s*\.\s*extend\s*\(\s*quote\s*!\s*\(\s*tracing::Level::(\w+)\s*\)\s*\)", at):
        tk[v] = c
    t["level_tokens"] = tk
    # duplicate-argument guards: keyword -> the field whose presence rejects it
    guards = {}
    for kw, fld in re.findall(r"lookahead\s*\.\s*peek\s*\(\s*kw::(\w+)\s*\)\s*\{\s*if\s+!?\s*args\s*\.\s*(\w+)\s*\.\s*(?:is_some|is_empty)\s*\(\s*\)", at):
        guards[kw] = fld
    t["dup_guards"] = guards
    t["keywords"] = sorted(set(re.findall(r"syn::custom_keyword!\((\w+)\)", at)))
    return t


def tables(repo):
    ex, at = read_sources(repo)
    un = []
    return tables_from(ex, at, un), un


def coq_opt(x):
    return "None" if x is None else "(Some %s)" % x


def coq_list(xs):
    return "[%s]" % "; ".join(xs)


def render(out):
    L = []
    L.append("(** GENERATED by translators/attr_templates.py from tracing-attributes/src/expand.rs (gen_block) and attr.rs -- do not edit. *)")
    L.append("From Coq Require Import String List NArith.")
    L.append("From TV Require Import Attr.Model.")
    L.append("Import ListNotations.")
    L.append("Local Open Scope N_scope.")
    L.append("")
    for label in ("sync", "async"):
        tab = out.get(label, {})
        L.append("(** the quote! template of gen_block for (err given, ret given), %s functions *)" % label)
        L.append("Definition gen_%s (err ret : bool) : option tshape :=" % label)
        L.append("  match err, ret with")
        for key in ((True, True), (True, False), (False, True), (False, False)):
            L.append("  | %s, %s => %s" % (str(key[0]).lower(), str(key[1]).lower(), coq_opt(tab.get(key))))
        L.append("  end.")
        L.append("")
    sp = out.get("sync_prologue")
    L.append("(** the sync prologue: locals in declaration order, the statements under the static level test *)")
    L.append("Definition gen_sync_decls : option (list plocal) := %s." % coq_opt(coq_list(sp[0]) if sp else None))
    L.append("Definition gen_sync_steps : option (list pstep) := %s." % coq_opt(coq_list(sp[1]) if sp else None))
    L.append("Definition gen_sync_static_guard : bool := %s." % ("true" if sp and sp[2] else "false"))
    aw = out.get("async_wrapper")
    L.append("(** the async wrapper *)")
    L.append("Definition gen_async_lets : option (list plocal) := %s." % coq_opt(coq_list(aw[0]) if aw else None))
    L.append("Definition gen_async_then : option (list astep) := %s." % coq_opt(coq_list(aw[1]) if aw else None))
    L.append("Definition gen_async_else : option (list astep) := %s." % coq_opt(coq_list(aw[2]) if aw else None))
    L.append("Definition gen_async_cond_not_disabled : bool := %s." % ("true" if aw and aw[3] else "false"))
    L.append("")
    for which in ("err", "ret"):
        ev = out.get(which)
        L.append("(** the %s event: `%%` (true) or `?` (false) per format mode; its default level *)" % which)
        L.append("Definition gen_%s_display (m : fmode) : option bool :=" % which)
        L.append("  match m with")
        for md in ("MDefault", "MDisplay", "MDebug"):
            L.append("  | %s => %s" % (md, coq_opt(ev[0].get(md)) if ev else "None"))
        L.append("  end.")
        L.append("Definition gen_%s_default : option lvldef := %s." % (which, coq_opt(ev[1]) if ev else "None"))
    ok_t = bool(out.get("err") and out.get("ret") and out["err"][2] and out["ret"][2] and out.get("target_from_args"))
    L.append("Definition gen_event_target_is_span_target : bool := %s." % ("true" if ok_t else "false"))
    L.append("Definition gen_default_level : option N := %s." % coq_opt(out.get("default_level")))
    L.append("Definition gen_target_default_module_path : bool := %s." % ("true" if out.get("target_default_module_path") else "false"))
    L.append("Definition gen_follows_iterates : bool := %s." % ("true" if out.get("follows_iterates") else "false"))
    L.append("Definition gen_span_macro_order : bool := %s.   (* target, parent, level, name, parameters, then custom fields *)"
             % ("true" if out.get("span_macro_order") else "false"))
    L.append("Definition gen_name_default_fn : bool := %s." % ("true" if out.get("name_default_fn") else "false"))
    L.append("Definition gen_filter_skip : bool := %s." % ("true" if out.get("filter_skip") else "false"))
    L.append("Definition gen_filter_override : bool := %s." % ("true" if out.get("filter_override") else "false"))
    L.append("Definition gen_record_map : bool := %s." % ("true" if out.get("record_map") else "false"))
    t = out.get("tables") or {}
    L.append("")
    L.append("(** RecordType: TYPES_FOR_VALUE, the shape of parse_from_ty, the arms of param_names *)")
    L.append("Definition gen_types_for_value : list string := [%s]." % "; ".join(rsparse.coq_str(x) + "%string" for x in (t.get("types_for_value") or [])))
    L.append("Definition gen_path_last_segment : bool := %s.   (* a path type is looked up by its LAST segment's identifier *)"
             % ("true" if t.get("path_last_segment") else "false"))
    L.append("Definition gen_ref_recurses : bool := %s." % ("true" if t.get("ref_recurses") else "false"))
    L.append("Definition gen_other_types_debug : bool := %s." % ("true" if t.get("other_debug") else "false"))
    rules = t.get("pat_rules") or {}
    rmap = {"keep": "PRKeep", "recurse-keep": "PRKeep", "recurse-debug": "PRDebug", "none": "PRNone"}
    def pr(key):
        return coq_opt(rmap.get(rules.get(key)))
    L.append("Definition gen_pat_rule (k : patkind) : option prule :=")
    L.append("  match k with")
    L.append("  | PIdent | PMut | PGeneric | PImplTrait => %s   (* Pat::Ident *)" % pr("Ident"))
    L.append("  | PRefPat => %s                                (* Pat::Reference *)" % pr("Reference"))
    L.append("  | PTuple => %s" % pr("Tuple"))
    L.append("  | PStruct => %s" % pr("Struct"))
    L.append("  | PTupleStruct => %s" % pr("TupleStruct"))
    L.append("  | PSelf => %s                                  (* FnArg::Receiver *)" % ("(Some PRDebug)" if t.get("receiver_debug") else "None"))
    L.append("  | PWild => %s                                  (* `_ =>` *)" % pr("_"))
    L.append("  end.")
    bp = out.get("box_pin") or {}
    L.append("")
    L.append("(** AsyncInfo::from_fn: how the tail call of a fn returning a boxed future is recognised *)")
    L.append("Definition gen_box_pin_suffix : option string := %s.   (* path_to_string(callee).ends_with(..) *)"
             % coq_opt(rsparse.coq_str(bp["suffix"]) + "%string" if bp.get("suffix") is not None else None))
    L.append("Definition gen_path_to_string_idents : bool := %s.   (* segment identifiers joined by `::`: no leading ::, no generic arguments *)"
             % ("true" if bp.get("idents") else "false"))
    L.append("Definition gen_tail_async_block : bool := %s." % ("true" if bp.get("tail_async_block") else "false"))
    L.append("Definition gen_tail_helper_call : bool := %s." % ("true" if bp.get("helper_call") else "false"))
    L.append("Definition gen_detection_ignores_return_type : bool := %s.   (* lib.rs instrument_precise: from_fn is tried on every non-const fn *)"
             % ("true" if out.get("ignores_return_type") else "false"))
    ns = out.get("name_sources") or {}
    nf = out.get("name_facts") or {}
    L.append("")
    L.append("(** whose name is the default span name, per way of reaching gen_block (lib.rs instrument_speculative / instrument_precise,")
    L.append("    expand.rs AsyncInfo::gen_async: AsyncKind::Function / AsyncKind::Async) *)")
    L.append("Definition gen_name_source (s : callsite) : option namesrc :=")
    L.append("  match s with")
    for site in ("CSSpeculative", "CSPrecise", "CSAsyncFunction", "CSAsyncBlock"):
        L.append("  | %s => %s" % (site, coq_opt(ns.get(site))))
    L.append("  end.")
    L.append("Definition gen_helper_async_from_sig : bool := %s.   (* gen_function: async templates iff the function it is handed is `async fn` *)"
             % ("true" if nf.get("helper_async_from_sig") else "false"))
    L.append("Definition gen_block_async_true : bool := %s.        (* AsyncKind::Async: always the async templates *)"
             % ("true" if nf.get("block_async_true") else "false"))
    L.append("")
    L.append("Definition gen_unrecognised : list string := [%s]." % "; ".join(rsparse.coq_str(u[:200]) + "%string" for u in out.get("unrec", [])))
    return "\n".join(L) + "\n"


def main(repo, out_path=None):
    out = translate(repo)
    text = render(out)
    if out_path:
        with open(out_path, "w") as f:
            f.write(text)
    return text, out.get("unrec", [])


if __name__ == "__main__":
    text, unrec = main(sys.argv[1] if len(sys.argv) > 1 else "/repo", None)
    sys.stdout.write(text)
    if unrec:
        sys.stderr.write("UNRECOGNISED: %s\n" % unrec)
    import json
    sys.stderr.write(json.dumps(tables(sys.argv[1] if len(sys.argv) > 1 else "/repo")[0], indent=1) + "\n")
