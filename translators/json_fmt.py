#!/usr/bin/env python3
"""tracing-subscriber/src/fmt/format/json.rs + tracing-serde/src/lib.rs + tracing-subscriber/Cargo.toml
     ->  coq/gen/Gen_json.v                                                                   (C14)

Extracts, as data, the *shape* facts the JSON model (Fmt/JsonModel.v) is written against, so that a source
change that invalidates the model breaks a Coq obligation (JsonProofs.gen_matches_model) instead of going
unnoticed, and so that the two repairs the model anticipates flip the model automatically:

  gen_event_keys        order of the `serialize_entry("<key>"` calls in `format_event` ("<event-fields>" marks the
                        place where the flattened event fields are visited)
  gen_trailing_newline  `writeln!(writer)` closes format_event
  gen_span_keys         literal keys written by SerializableSpan::serialize
  gen_span_list_from_root   the span list iterates `.scope().from_root()`
  gen_f10_fixed         false: the list is built from `lookup_current()` (finding F10);  true: from the event's own
                        parent (`parent_span()` / `event_span` / `event_scope`)
  gen_f141_fixed         false: add_fields re-parses the stored object into `BTreeMap<&str, Value>` (borrowed keys,
                        finding F141);  true: into owned keys
  gen_f142_fixed         serde_json is built with `float_roundtrip` (finding F142; used by the driver only)
  gen_jsonvisitor_methods / gen_jsonvisitor_strip_raw / gen_serdemap_methods / gen_serdestruct_methods
                        which `Visit` methods the visitors override (everything else falls back to record_debug)
                        and which of them strip an `r#` prefix; `record_u128` / `record_i128` overrides of the serde
                        visitors (native 128-bit integers) are followed by the model (serde_u128_native / serde_i128_native)
  gen_jsonvisitor_log_skip   which JsonVisitor methods skip `log.`-prefixed names, and only under
                        #[cfg(feature = "tracing-log")], as the FIRST match arm (the model's feat_log / log_skipped)
  gen_lifecycle         fmt_subscriber.rs: per lifecycle callback the field lists of its `with_event_from_span!` uses
                        ("on_close" has two: with and without timings), e.g. "on_new_span:message=new"
  gen_lifecycle_parent_is_span   the macro builds `Event::new_child_of($id, meta, ..)` with meta = $span.metadata()
  gen_timing_off_without_time    Subscriber::without_time() also switches fmt_span's timing off (the model ties
                        time.busy / time.idle to the presence of a timer)
  gen_on_record_atomic  fmt_subscriber.rs on_record takes `span.extensions_mut()` BEFORE it reads the stored fields and keeps
                        it until add_fields has stored the merged text (concurrent record calls on one span are serialised)
  gen_add_fields_fresh  add_fields builds the merged text in a fresh String and assigns it only after finish() succeeded
  gen_escape_table      serde_json's ESCAPE table (src/ser.rs of the version in the repository's Cargo.lock, read from
                        the cargo registry): 256 entries, 0 = not escaped, else the letter after the backslash
                        (117 = 'u' for the backslash-u-00XX form); the model's escape_byte is proved equal to it
Anything not recognised is listed in gen_json_unrecognised (must be [])."""
import os
import re
import sys

sys.path.insert(0, os.path.dirname(os.path.abspath(__file__)))
from rsparse import strip_comments, find_blocks, fns_in, norm, coq_str  # noqa: E402


def coq_strs(xs):
    return "[" + "; ".join(coq_str(x) for x in xs) + "]"


def impl_body(src, header_re, unrec, what):
    for _m, body, _s, _e in find_blocks(src, header_re):
        return body
    unrec.append("no block matching %s" % what)
    return ""


def main(repo, _out=None):
    unrec = []
    p_json = os.path.join(repo, "tracing-subscriber/src/fmt/format/json.rs")
    p_serde = os.path.join(repo, "tracing-serde/src/lib.rs")
    p_toml = os.path.join(repo, "tracing-subscriber/Cargo.toml")
    src = strip_comments(open(p_json, encoding="utf-8").read())
    cut = src.find("#[cfg(test)]")
    if cut > 0:
        src = src[:cut]
    serde = strip_comments(open(p_serde, encoding="utf-8").read())
    toml = open(p_toml, encoding="utf-8").read()

    # ---- format_event
    fe = impl_body(src, r"impl\s*<[^{]*?>\s*FormatEvent\s*<[^{]*?for\s+Format\s*<\s*Json\b[^{]*\{", unrec, "impl FormatEvent for Format<Json, T>")
    fns = fns_in(fe)
    body = (fns.get("format_event") or ("", ""))[1] or ""
    if not body:
        unrec.append("format_event body not found")
    keys = []
    for m in re.finditer(r'serialize_entry\(\s*"((?:[^"\\]|\\.)*)"|SerdeMapVisitor::new\(\s*serializer\s*\)', body):
        keys.append(m.group(1) if m.group(1) is not None else "<event-fields>")
    trailing_nl = bool(re.search(r"writeln!\(\s*writer\s*\)\s*$", norm(body)))
    fe_uses_event_parent = bool(re.search(r"\bparent_span\(\)|\bevent_span\(|\bevent_scope\(", body))
    # metadata shown: the event's own, or (tracing-log build) the normalised metadata of an event that came from the `log` crate
    nb = norm(body)
    normalised = ('#[cfg(feature = "tracing-log")] let normalized_meta = event.normalized_metadata();' in nb
                  and '#[cfg(feature = "tracing-log")] let meta = normalized_meta.as_ref().unwrap_or_else(|| event.metadata());' in nb
                  and '#[cfg(not(feature = "tracing-log"))] let meta = event.metadata();' in nb)
    if not normalised:
        unrec.append("format_event: metadata selection (normalized_metadata under cfg(feature = tracing-log)) not recognised")
    for key, expr in (("level", "&meta.level().as_serde()"), ("target", "meta.target()"), ("filename", "filename"), ("line_number", "&line_number")):
        if ('serialize_entry("%s", %s)' % (key, expr)) not in nb:
            unrec.append("format_event: `%s` is not written from the selected metadata" % key)

    # ---- SerializableSpan
    sp = impl_body(src, r"impl\s*<[^{]*?>\s*serde::ser::Serialize\s+for\s+SerializableSpan\b[^{]*\{", unrec, "impl Serialize for SerializableSpan")
    span_keys = re.findall(r'serialize_entry\(\s*"((?:[^"\\]|\\.)*)"', sp)
    if not re.search(r'serialize_entry\(\s*"name"\s*,\s*self\.0\.metadata\(\)\.name\(\)\s*\)\s*\?\s*;\s*serializer\.end\(\)', norm(sp)):
        unrec.append("SerializableSpan: `name` entry is not the last entry")
    if "from_str::<serde_json::Value>(data)" not in norm(sp):
        unrec.append("SerializableSpan: stored fields are not re-parsed with serde_json::from_str::<Value>")

    # ---- SerializableContext (span list)
    cx = impl_body(src, r"impl\s*<[^{]*?>\s*serde::ser::Serialize\s+for\s+SerializableContext\b[^{]*\{", unrec, "impl Serialize for SerializableContext")
    from_root = ".scope().from_root()" in norm(cx).replace(" ", "")
    uses_current = "lookup_current()" in cx
    if uses_current:
        f10_fixed = False
    elif fe_uses_event_parent and "lookup_current()" not in body:
        f10_fixed = True
    else:
        f10_fixed = False
        unrec.append("span list: neither lookup_current() (F10 shape) nor the event's own parent (repaired shape) recognised")

    # ---- add_fields
    jf = impl_body(src, r"impl\s*<'a>\s*FormatFields\s*<'a>\s*for\s+JsonFields\s*\{", unrec, "impl FormatFields for JsonFields")
    af = (fns_in(jf).get("add_fields") or ("", ""))[1] or ""
    afn = norm(af)
    if not af:
        unrec.append("add_fields body not found")
    if "current.is_empty()" not in afn or "serde_json::from_str(current)" not in afn.replace("& ", "&"):
        unrec.append("add_fields: is_empty / from_str(current) shape not recognised")
    if re.search(r"BTreeMap<\s*&'?_?\s*str\s*,\s*serde_json::Value\s*>\s*=\s*serde_json::from_str\(current\)", afn):
        f141_fixed = False
    elif re.search(r"(BTreeMap|Map)<\s*(String|std::borrow::Cow<[^>]*>|Cow<[^>]*>)\s*,\s*serde_json::Value\s*>\s*=\s*serde_json::from_str\(current\)", afn):
        f141_fixed = True
    else:
        f141_fixed = False
        unrec.append("add_fields: key type of the re-parsed map not recognised")

    # ---- JsonVisitor: per `record_*` method, with the inherent helper functions it calls resolved (`self.f(` / `Self::f(`),
    #      does it key on the field's name, strip a leading `r#`, skip `log.*` names (and only under the tracing-log feature,
    #      as the first arm)?
    jv = impl_body(src, r"impl\s+field::Visit\s+for\s+JsonVisitor\s*<'_>\s*\{", unrec, "impl field::Visit for JsonVisitor")
    jfns = fns_in(jv)
    helpers = {}
    for _m, hb, _s, _e in find_blocks(src, r"impl\s*<'a>\s*JsonVisitor\s*<'a>\s*\{"):
        for hn, (_sig, hbody) in fns_in(hb).items():
            helpers[hn] = hbody or ""

    def effective(body):
        seen, out, todo = set(), body or "", [body or ""]
        while todo:
            cur = todo.pop()
            for hn in re.findall(r"(?:self\.|Self::)(\w+)\s*\(", cur):
                if hn in helpers and hn not in seen:
                    seen.add(hn)
                    out += "\n" + helpers[hn]
                    todo.append(helpers[hn])
        return out
    jv_methods = sorted(jfns)
    eff_body = {n: effective(b) for n, (_s, b) in jfns.items()}
    jv_strip = sorted(n for n, b in eff_body.items() if 'starts_with("r#")' in b)
    jv_log = sorted(n for n, b in eff_body.items() if 'starts_with("log.")' in b)
    for n, b in eff_body.items():
        if "field.name()" not in b:
            unrec.append("JsonVisitor::%s does not key on field.name()" % n)
        if 'starts_with("r#")' in b and not re.search(r'name if name\.starts_with\("r#"\) => (\{ self\.values \.insert\(&name\[2\.\.\],|Some\(&name\[2\.\.\]\))', norm(b)):
            unrec.append("JsonVisitor::%s: the `r#` arm does not store under the name without its first two bytes" % n)
        if 'starts_with("log.")' in b and not re.search(
                r'match field\.name\(\) \{\s*#\[cfg\(feature = "tracing-log"\)\]\s*name if name\.starts_with\("log\."\) => (\(\)|None),', norm(b)):
            unrec.append("JsonVisitor::%s: the `log.` arm is not the first arm, cfg(feature = \"tracing-log\")-gated and empty" % n)
        if ".insert(" not in b or "self.values" not in norm(b).replace("self .values", "self.values"):
            unrec.append("JsonVisitor::%s does not insert into self.values" % n)
    fin = impl_body(src, r"impl\s+crate::field::VisitOutput<fmt::Result>\s+for\s+JsonVisitor\s*<'_>\s*\{", unrec, "impl VisitOutput for JsonVisitor")
    if "for (k, v) in self.values" not in norm(fin):
        unrec.append("JsonVisitor::finish does not iterate self.values (BTreeMap order)")
    if not re.search(r"values\s*:\s*BTreeMap<", src):
        unrec.append("JsonVisitor.values is not a BTreeMap")

    # ---- span-lifecycle records (fmt_subscriber.rs)
    p_sub = os.path.join(repo, "tracing-subscriber/src/fmt/fmt_subscriber.rs")
    sub = strip_comments(open(p_sub, encoding="utf-8").read())
    cut = sub.find("#[cfg(test)]\nmod test")
    if cut > 0:
        sub = sub[:cut]
    lifecycle = []
    sb = impl_body(sub, r"impl\s*<C, N, E, W>\s*subscribe::Subscribe<C>\s+for\s+Subscriber<C, N, E, W>[^{]*\{", unrec, "impl Subscribe for fmt::Subscriber")
    sfn = fns_in(sb)
    for fn in ("on_new_span", "on_enter", "on_exit", "on_close"):
        b = (sfn.get(fn) or ("", ""))[1] or ""
        uses = re.findall(r"with_event_from_span!\(\s*(\w+)\s*,\s*(\w+)\s*,((?:\s*\"[^\"]*\"\s*=\s*[^,|]+,)+)\s*\|event\|", b)
        if not uses:
            unrec.append("fmt_subscriber.rs %s: no with_event_from_span! use recognised" % fn)
        for _id, _sp, fl in uses:
            fields = re.findall(r'"([^"]*)"\s*=\s*([^,]+),', fl)
            desc = []
            for k, v in fields:
                v = v.strip()
                m = re.fullmatch(r'"([^"]*)"', v)
                desc.append(k + ("=" + m.group(1) if m else ""))
            lifecycle.append(fn + ":" + ",".join(desc))
        if "self.on_event(&event, ctx)" not in norm(b):
            unrec.append("fmt_subscriber.rs %s: the lifecycle event is not handed to self.on_event" % fn)
    mac = re.search(r"macro_rules!\s*with_event_from_span\s*\{(.*?)\n\}", sub, re.S)
    macn = norm(mac.group(1)) if mac else ""
    life_parent = bool(mac) and "let meta = $span.metadata();" in macn and "Event::new_child_of($id, meta, &vs)" in macn
    if not life_parent:
        unrec.append("with_event_from_span!: not `Event::new_child_of($id, $span.metadata(), ..)`")
    wt = re.search(r"pub fn without_time\(self\)[^{]*\{(.*?)\n    \}", sub, re.S)
    timing_off = bool(wt) and "fmt_span: self.fmt_span.without_time()" in norm(wt.group(1))
    if not timing_off:
        unrec.append("Subscriber::without_time(): does not switch fmt_span timing off")
    cl = (sfn.get("on_close") or ("", ""))[1] or ""
    if "extensions.get::<Timings>()" not in cl:
        unrec.append("on_close: timings not taken from the Timings extension")
    ns = (sfn.get("on_new_span") or ("", ""))[1] or ""
    if not re.search(r"self\.fmt_span\.fmt_timing\s*&&\s*self\.fmt_span\.trace_close\(\)", ns):
        unrec.append("on_new_span: Timings are not inserted exactly when fmt_timing && trace_close()")

    # ---- on_record: is the span's extensions WRITE lock held from before the stored fields are read until after the merged
    #      text is stored (add_fields assigns it in place)?  (the model's `atomic`, Fmt/JsonConc.v)
    orb = norm((sfn.get("on_record") or ("", ""))[1] or "")
    on_record_atomic = bool(re.search(
        r'^\{? ?let span = ctx\.span\(id\)\.expect\("[^"]*"\); let mut extensions = span\.extensions_mut\(\); '
        r'if let Some\(fields\) = extensions\.get_mut::<FormattedFields<N>>\(\) \{ let _ = self\.fmt_fields\.add_fields\(fields, values\); return; \}', orb)) \
        and orb.count("extensions_mut()") == 1 and ".extensions()" not in orb
    if not on_record_atomic:
        unrec.append("on_record: `span.extensions_mut()` is not held across `add_fields(fields, values)` on the stored FormattedFields (shape not recognised)")
    afn_assign = "current.fields = new;" in afn
    if not afn_assign:
        unrec.append("add_fields: the merged text is not assigned in place (`current.fields = new`)")
    # the merged text is built in a FRESH String and replaces the stored one only after finish() succeeded: nothing the
    # visited values do (their Debug impls may unwind) can leave the stored text half-written or empty
    i_new, i_vis, i_rec, i_fin = afn.find("let mut new = String::new();"), afn.find("JsonVisitor::new(&mut new)"), afn.find("fields.record(&mut v);", afn.find("JsonVisitor::new(&mut new)")), afn.find("v.finish()?; current.fields = new;")
    add_fields_fresh = 0 <= i_new < i_vis < i_rec < i_fin and "current.fields.clear()" not in afn and "&mut current.fields" not in afn
    if not add_fields_fresh:
        unrec.append("add_fields: the merged text is not built in a fresh String that replaces the stored one after finish() (not atomic w.r.t. an unwinding Debug impl)")

    # ---- serde_json's escape table (the dependency the model's render_string mirrors)
    esc_table = []
    ver = None
    # the lock file the harness is built with (driver/vlib.py harness_pkg): the repository's, else the seed copy
    for cand in (os.path.join(repo, "Cargo.lock"),
                 os.path.join(os.path.dirname(os.path.dirname(os.path.abspath(__file__))), "harness", "Cargo.lock.seed")):
        try:
            lock = open(cand, encoding="utf-8").read()
        except OSError:
            continue
        mv = re.search(r'name = "serde_json"\nversion = "([^"]+)"', lock)
        ver = mv.group(1) if mv else None
        break
    import glob
    cands = sorted(glob.glob(os.path.expanduser("~/.cargo/registry/src/*/serde_json-%s/src/ser.rs" % ver))) if ver else []
    if not cands:
        unrec.append("serde_json %s: src/ser.rs not found in the cargo registry" % ver)
    else:
        ser = strip_comments(open(cands[0], encoding="utf-8").read())
        consts = dict((m.group(1), m.group(2)) for m in re.finditer(r"const (\w+): u8 = (b'(?:\\.|[^'])'|\d+);", ser))
        mt = re.search(r"static ESCAPE: \[u8; 256\] = \[(.*?)\];", ser, re.S)
        if not mt:
            unrec.append("serde_json: ESCAPE table not found")
        else:
            for tok in re.findall(r"\w+", mt.group(1)):
                v = consts.get(tok)
                if v is None:
                    unrec.append("serde_json ESCAPE: unknown entry %s" % tok)
                    break
                if v.startswith("b'"):
                    ch = v[2:-1]
                    esc_table.append(ord(ch[1]) if ch.startswith("\\") else ord(ch))
                else:
                    esc_table.append(int(v))
            if len(esc_table) != 256:
                unrec.append("serde_json ESCAPE: %d entries" % len(esc_table))
        # the backslash-u-00XX writer: lowercase hex digits, high nibble first
        sern = norm(ser)
        if '*b"0123456789abcdef"' not in sern or not re.search(
                r"escape_char, b'0', b'0', HEX_DIGITS\[\(byte >> 4\) as usize\], HEX_DIGITS\[\(byte & 0xF\) as usize\],? ?\]", sern):
            unrec.append("serde_json: the AsciiControl escape writer shape not recognised")
        if "_ => writer.write_all(&[b'\\\\', escape_char])" not in sern:
            unrec.append("serde_json: the two-byte escape writer shape not recognised")

    # ---- SerdeMapVisitor (event fields)
    sm = impl_body(serde, r"impl\s*<S>\s*Visit\s+for\s+SerdeMapVisitor\s*<S>[^{]*\{", unrec, "impl Visit for SerdeMapVisitor")
    sfns = fns_in(sm)
    sm_methods = sorted(sfns)
    for n, (_s, b) in sfns.items():
        if b and "serialize_entry(field.name()," not in norm(b):
            unrec.append("SerdeMapVisitor::%s does not write field.name() verbatim" % n)
    # 128-bit integers: no override = the `Visit` default (record_debug: a STRING of decimal digits).  An override that hands the
    # value to the serializer as a native integer (`serialize_entry(field.name(), &value)`: serde_json prints a bare number of up
    # to 39 digits) is FOLLOWED by the model (JsonModel.serde_u128_native / serde_i128_native are read off this list), so that
    # the correspondence keeps agreeing and the oracle / the theorems C14_wide_integer_* judge the behaviour; any other body
    # is not recognised.
    def native_int_body(b, call):
        return bool(re.fullmatch(r"\{? ?if self\.state\.is_ok\(\) \{ self\.state = self\.serializer\.%s\(field\.name\(\), &value\);? \} ?\}?" % call, norm(b or "")))
    for n in ("record_u128", "record_i128"):
        if n in sfns and not native_int_body(sfns[n][1], "serialize_entry"):
            unrec.append("SerdeMapVisitor::%s: body is not `serialize_entry(field.name(), &value)`" % n)

    # ---- SerdeStructVisitor (tracing-serde's struct-shaped twin; not used by the JSON formatter, must make the same choices)
    st = impl_body(serde, r"impl\s*<S>\s*Visit\s+for\s+SerdeStructVisitor\s*<S>[^{]*\{", unrec, "impl Visit for SerdeStructVisitor")
    stfns = fns_in(st)
    st_methods = sorted(stfns)
    for n, (_s, b) in stfns.items():
        if b and "serialize_field(field.name()," not in norm(b):
            unrec.append("SerdeStructVisitor::%s does not write field.name() verbatim" % n)
    for n in ("record_u128", "record_i128"):
        if n in stfns and not native_int_body(stfns[n][1], "serialize_field"):
            unrec.append("SerdeStructVisitor::%s: body is not `serialize_field(field.name(), &value)`" % n)
    if st_methods != sm_methods:
        unrec.append("SerdeStructVisitor overrides %s, SerdeMapVisitor %s" % (st_methods, sm_methods))

    # ---- serde_json features
    m = re.search(r"(?m)^serde_json\s*=\s*\{([^}]*)\}", toml)
    f142_fixed = bool(m and "float_roundtrip" in m.group(1))
    if not m:
        unrec.append("tracing-subscriber/Cargo.toml: serde_json dependency line not recognised")
    if m and ("preserve_order" in m.group(1) or "arbitrary_precision" in m.group(1)):
        unrec.append("serde_json feature changes Value's representation (preserve_order / arbitrary_precision)")

    b = lambda x: "true" if x else "false"
    text = "\n".join([
        "(** GENERATED by translators/json_fmt.py from tracing-subscriber/src/fmt/format/json.rs, tracing-serde/src/lib.rs,",
        "    tracing-subscriber/Cargo.toml — do not edit. *)",
        "From Coq Require Import String List.",
        "Import ListNotations.",
        "Local Open Scope string_scope.",
        "",
        "Definition gen_event_keys : list string := %s." % coq_strs(keys),
        "Definition gen_trailing_newline : bool := %s." % b(trailing_nl),
        "Definition gen_span_keys : list string := %s." % coq_strs(span_keys),
        "Definition gen_span_list_from_root : bool := %s." % b(from_root),
        "Definition gen_f10_fixed : bool := %s." % b(f10_fixed),
        "Definition gen_f141_fixed : bool := %s." % b(f141_fixed),
        "Definition gen_f142_fixed : bool := %s." % b(f142_fixed),
        "Definition gen_jsonvisitor_methods : list string := %s." % coq_strs(jv_methods),
        "Definition gen_jsonvisitor_strip_raw : list string := %s." % coq_strs(jv_strip),
        "Definition gen_serdemap_methods : list string := %s." % coq_strs(sm_methods),
        "Definition gen_serdestruct_methods : list string := %s." % coq_strs(st_methods),
        "Definition gen_jsonvisitor_log_skip : list string := %s." % coq_strs(jv_log),
        "Definition gen_lifecycle : list string := %s." % coq_strs(lifecycle),
        "Definition gen_lifecycle_parent_is_span : bool := %s." % b(life_parent),
        "Definition gen_timing_off_without_time : bool := %s." % b(timing_off),
        "Definition gen_metadata_normalised_under_log : bool := %s." % b(normalised),
        "Definition gen_on_record_atomic : bool := %s." % b(on_record_atomic and afn_assign),
        "Definition gen_add_fields_fresh : bool := %s." % b(add_fields_fresh),
        "Definition gen_serde_json_version : string := %s." % coq_str(ver or ""),
        "Definition gen_escape_table : list nat := [%s]." % "; ".join(str(x) for x in esc_table),
        "Definition gen_json_unrecognised : list string := %s." % coq_strs(unrec),
        "",
    ])
    return text, unrec


if __name__ == "__main__":
    t, u = main(sys.argv[1] if len(sys.argv) > 1 else "/repo")
    sys.stdout.write(t)
    if u:
        sys.stderr.write("UNRECOGNISED: %s\n" % u)
