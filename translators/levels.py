#!/usr/bin/env python3
"""metadata.rs (+ filter/level.rs, tracing-log/src/lib.rs)  ->  coq/gen/Gen_levels.v      (C19, used by C18)

Extracts, as *data*, every hand-written piece the level order depends on: enum discriminants, the
*_USIZE constants, each comparison operator body (operand order, conversions, relation), the arms of
current()/set_max, FromStr / Display / as_str, the LevelFilter-as-layer test and the log conversions.
The Coq side (Levels/Model.v) interprets the data; Levels/Proofs.v proves it equal to the spec order.
Anything whose shape is not recognised is listed in `gen_unrecognised`, which the theorems require to
be empty (fail closed)."""
import os
import re
import sys

sys.path.insert(0, os.path.dirname(os.path.abspath(__file__)))
from rsparse import strip_comments, find_blocks, fns_in, norm, match_arms, coq_bytes, coq_str, match_brace  # noqa: E402

LV = {"ERROR": "Error", "WARN": "Warn", "INFO": "Info", "DEBUG": "Debug", "TRACE": "Trace"}
INNER = ["Error", "Warn", "Info", "Debug", "Trace"]


def operand(txt, unrec, where):
    t = norm(txt).strip()
    while t.startswith("(") and t.endswith(")") and match_brace(t, 0, "(", ")") == len(t) - 1:
        t = t[1:-1].strip()
    t = t.lstrip("&").strip()
    while t.startswith("(") and t.endswith(")") and match_brace(t, 0, "(", ")") == len(t) - 1:
        t = t[1:-1].strip()
    m = re.fullmatch(r"(self|other)\.0 as usize", t)
    if m:
        return "(%s, AsUsize)" % m.group(1).capitalize()
    m = re.fullmatch(r"filter_as_usize\(&(self|other)\.0\)", t)
    if m:
        return "(%s, FilterAsUsize)" % m.group(1).capitalize()
    unrec.append("%s: operand `%s`" % (where, t))
    return None


REL = {"<": "RLt", "<=": "RLe", ">": "RGt", ">=": "RGe", "==": "REq"}
OPN = {"eq": "OpEq", "lt": "OpLt", "le": "OpLe", "gt": "OpGt", "ge": "OpGe", "cmp": "OpCmp", "partial_cmp": "OpPartialCmp"}


def split_top(expr, ops):
    """Split `a OP b` at the top-level occurrence of one of ops (longest first)."""
    depth = 0
    i = 0
    while i < len(expr):
        c = expr[i]
        if c in "([":
            depth += 1
        elif c in ")]":
            depth -= 1
        elif depth == 0:
            for op in sorted(ops, key=len, reverse=True):
                if expr.startswith(" " + op + " ", i):
                    return expr[:i], op, expr[i + len(op) + 2:]
        i += 1
    return None


def body_to_g(name, body, unrec, where):
    b = norm(body)
    if name == "partial_cmp":
        if b == "Some(self.cmp(other))":
            return "GSomeSelfCmp"
        m = re.fullmatch(r"Some\((.*)\)", b)
        if m:
            inner = m.group(1)
            mm = re.fullmatch(r"(.*)\.cmp\((.*)\)", inner)
            if mm:
                l, r = operand(mm.group(1), unrec, where), operand(mm.group(2), unrec, where)
                if l and r:
                    return "GSomeCmp %s %s" % (l, r)
                return None
    if name == "cmp":
        mm = re.fullmatch(r"(.*)\.cmp\((.*)\)", b)
        if mm:
            l, r = operand(mm.group(1), unrec, where), operand(mm.group(2), unrec, where)
            if l and r:
                return "GCmp %s %s" % (l, r)
            return None
    if name in ("eq", "lt", "le", "gt", "ge"):
        neg = False
        if b.startswith("!(") and match_brace(b, 1, "(", ")") == len(b) - 1:
            neg = True
            b = b[2:-1].strip()
        sp = split_top(b, list(REL))
        if sp:
            l, r = operand(sp[0], unrec, where), operand(sp[2], unrec, where)
            if l and r:
                return "%s %s %s %s" % ("GNotRel" if neg else "GRel", l, REL[sp[1]], r)
            return None
    unrec.append("%s: body `%s`" % (where, b))
    return None


def lvref(txt, unrec, where, filt=False):
    """`Level::ERROR` / `LevelFilter::OFF` / ... -> Coq term (lv or option lv)."""
    t = norm(txt)
    t = re.sub(r"^(Ok|Some)\((.*)\)$", r"\2", t)
    t = re.sub(r"^tracing_core::", "", t)
    m = re.fullmatch(r"(?:Self|Level)::([A-Z]+)", t)
    if m and not filt and m.group(1) in LV:
        return LV[m.group(1)]
    m = re.fullmatch(r"(?:Self|LevelFilter)::([A-Z]+)", t)
    if m and filt:
        if m.group(1) == "OFF":
            return "None"
        if m.group(1) in LV:
            return "(Some %s)" % LV[m.group(1)]
    unrec.append("%s: level reference `%s`" % (where, t))
    return None


XF = {"to_uppercase": "XfUniUpper", "to_lowercase": "XfUniLower", "to_ascii_uppercase": "XfAsciiUpper",
      "to_ascii_lowercase": "XfAsciiLower", "trim": "XfTrim"}
XF_NOOP = ("as_str", "as_ref", "to_string", "to_owned", "clone")
INT_MAX = {"u8": 2 ** 8 - 1, "u16": 2 ** 16 - 1, "u32": 2 ** 32 - 1, "u64": 2 ** 64 - 1, "usize": 2 ** 64 - 1, "u128": 2 ** 128 - 1}


def rust_lit(body):
    """The value of a Rust string literal body (between the quotes); None when it uses an escape we do not decode."""
    out = []
    i = 0
    while i < len(body):
        c = body[i]
        if c != "\\":
            out.append(c)
            i += 1
            continue
        if i + 1 >= len(body):
            return None
        e = body[i + 1]
        simple = {"n": "\n", "t": "\t", "r": "\r", "0": "\0", "\\": "\\", '"': '"', "'": "'"}
        if e in simple:
            out.append(simple[e])
            i += 2
        elif e == "x" and re.match(r"[0-7][0-9a-fA-F]", body[i + 2:i + 4]):
            out.append(chr(int(body[i + 2:i + 4], 16)))
            i += 4
        elif e == "u":
            m = re.match(r"\{([0-9a-fA-F_]{1,8})\}", body[i + 2:])
            if not m:
                return None
            out.append(chr(int(m.group(1).replace("_", ""), 16)))
            i += 2 + len(m.group(0))
        else:
            return None
    return "".join(out)


def if_chain(b, start):
    """`if C1 { B1 } else if C2 { B2 } ... [else { Bn }]` starting at b[start:] -> ([(cond, block)], else_block or None, end)."""
    arms = []
    i = start
    while True:
        m = re.compile(r"\s*if\s+(.*?)\s*\{", re.S).match(b, i)
        if not m:
            return None
        ob = m.end() - 1
        cb = match_brace(b, ob)
        arms.append((norm(m.group(1)), b[ob + 1:cb]))
        m2 = re.compile(r"\s*else\s*").match(b, cb + 1)
        if not m2:
            return arms, None, cb + 1
        j = m2.end()
        if b.startswith("if", j):
            i = j
            continue
        if j < len(b) and b[j] == "{":
            ce = match_brace(b, j)
            return arms, b[j + 1:ce], ce + 1
        return None


def attr_section(repo, G, unrec):
    W = "attr.rs"
    try:
        src = strip_comments(open(os.path.join(repo, "tracing-attributes/src/attr.rs")).read())
    except OSError:
        src = ""
        unrec.append("%s: file not found" % W)
    # -- the internal enum and what each variant expands to
    variants = []
    for mt, body, _, _ in find_blocks(src, r"pub\(crate\) enum Level\s*\{"):
        variants = [norm(v) for v in body.split(",") if norm(v)]
    if sorted(variants) != sorted(["Trace", "Debug", "Info", "Warn", "Error", "Path(Path)"]):
        unrec.append("%s: enum Level variants `%s`" % (W, ", ".join(variants)))
    tok = {}
    passthrough = False
    seen_tt = False
    for mt, body, _, _ in find_blocks(src, r"impl ToTokens for Level\s*\{"):
        fs = fns_in(body).get("to_tokens")
        if not fs or fs[1] is None:
            continue
        mm = re.search(r"match self \{", fs[1])
        if not mm:
            continue
        seen_tt = True
        ob = fs[1].find("{", mm.start())
        cb = match_brace(fs[1], ob)
        if norm(fs[1][:mm.start()]) or norm(fs[1][cb + 1:]):
            unrec.append("%s: ToTokens for Level: code around the match" % W)
        for p, e in match_arms(fs[1][ob + 1:cb]):
            m1 = re.fullmatch(r"Level::([A-Z][a-z]+)", p)
            m2 = re.fullmatch(r"tokens\.extend\(quote!\(tracing::Level::([A-Z]+)\)\)", e)
            m3 = re.fullmatch(r"Level::Path\(ref (\w+)\)", p)
            m4 = re.fullmatch(r"tokens\.extend\(quote!\(#(\w+)\)\)", e)
            if m1 and m2 and m2.group(1) in LV and m1.group(1) not in tok:
                tok[m1.group(1)] = LV[m2.group(1)]
            elif m3 and m4 and m3.group(1) == m4.group(1):
                passthrough = True
            else:
                unrec.append("%s: ToTokens arm `%s => %s`" % (W, p, e))
    if not seen_tt:
        unrec.append("%s: impl ToTokens for Level not found" % W)
    for v in INNER:
        if v not in tok:
            unrec.append("%s: ToTokens has no arm for Level::%s" % (W, v))

    def variant(e, where):
        m = re.fullmatch(r"Ok\((?:Level|Self)::([A-Z][a-z]+)\)", e)
        if m and m.group(1) in tok:
            return tok[m.group(1)]
        unrec.append("%s: %s: result `%s`" % (W, where, e))
        return None

    xfs, names, ints, int_max, path_arm = [], [], [], 0, False
    found = False
    for mt, body, _, _ in find_blocks(src, r"impl Parse for Level\s*\{"):
        fs = fns_in(body).get("parse")
        if not fs or fs[1] is None:
            continue
        found = True
        b = fs[1]
        pro = re.compile(r"\s*let _ = input\.parse::<kw::level>\(\)\?;\s*let _ = input\.parse::<Token!\[=\]>\(\)\?;\s*"
                         r"let lookahead = input\.lookahead1\(\);").match(b)
        if not pro:
            unrec.append("%s: Parse for Level: prologue" % W)
            break
        ch = if_chain(b, pro.end())
        if not ch or norm(b[ch[2]:]):
            unrec.append("%s: Parse for Level: if/else chain" % W)
            break
        arms, els, _ = ch
        if [c for c, _ in arms] != ["lookahead.peek(LitStr)", "lookahead.peek(LitInt)", "lookahead.peek(Ident)"]:
            unrec.append("%s: Parse for Level: branch conditions `%s`" % (W, "; ".join(c for c, _ in arms)))
            break
        if els is None or norm(els) != "Err(lookahead.error())":
            unrec.append("%s: Parse for Level: final else `%s`" % (W, norm(els or "")))
        # string branch
        nb = norm(arms[0][1])
        m = re.match(r"let (\w+): LitStr = input\.parse\(\)\?; match (.+?) \{", nb)
        if not m:
            unrec.append("%s: string branch shape" % W)
        else:
            ob = m.end() - 1
            cb = match_brace(nb, ob)
            if nb[cb + 1:].strip():
                unrec.append("%s: string branch: code after the match" % W)
            sc = re.fullmatch(re.escape(m.group(1)) + r"\.value\(\)((?:\.\w+\(\))*)", m.group(2))
            if not sc:
                unrec.append("%s: string scrutinee `%s`" % (W, m.group(2)))
            else:
                for meth in re.findall(r"\.(\w+)\(\)", sc.group(1)):
                    if meth in XF:
                        xfs.append(XF[meth])
                    elif meth not in XF_NOOP:
                        unrec.append("%s: string scrutinee method `%s`" % (W, meth))
            fall = False
            for p, e in match_arms(nb[ob + 1:cb]):
                m1 = re.fullmatch(r'(\w+) if \1\.eq_ignore_ascii_case\("((?:[^"\\]|\\.)*)"\)', p)
                m2 = re.fullmatch(r'(\w+) if \1 == "((?:[^"\\]|\\.)*)"', p)
                m3 = re.fullmatch(r'"((?:[^"\\]|\\.)*)"', p)
                if fall:
                    unrec.append("%s: string arm after the catch-all `%s`" % (W, p))
                elif m1 or m2 or m3:
                    lit = rust_lit((m1 or m2).group(2) if (m1 or m2) else m3.group(1))
                    v = variant(e, "string arm %s" % p)
                    if lit is None:
                        unrec.append("%s: string arm literal `%s`" % (W, p))
                    elif v:
                        names.append(("ic" if m1 else "ex", lit, v))
                elif p == "_":
                    fall = True
                    if not e.startswith("Err("):
                        unrec.append("%s: string catch-all `%s`" % (W, e[:60]))
                else:
                    unrec.append("%s: string arm `%s`" % (W, p))
            if not fall:
                unrec.append("%s: string branch has no catch-all error arm" % W)
        # integer branch
        nb = norm(arms[1][1])
        m = re.match(r"fn is_level\(lit: &LitInt, expected: (u\d+|usize)\) -> bool \{ match lit\.base10_parse::<(u\d+|usize)>\(\) \{ "
                     r"Ok\(value\) => value == expected, Err\(_\) => false,? \} \} let (\w+): LitInt = input\.parse\(\)\?; match &?(\w+) \{", nb)
        if not m or m.group(1) != m.group(2) or m.group(3) != m.group(4) or m.group(1) not in INT_MAX:
            unrec.append("%s: integer branch shape" % W)
        else:
            int_max = INT_MAX[m.group(1)]
            ob = m.end() - 1
            cb = match_brace(nb, ob)
            if nb[cb + 1:].strip():
                unrec.append("%s: integer branch: code after the match" % W)
            fall = False
            for p, e in match_arms(nb[ob + 1:cb]):
                m1 = re.fullmatch(r"(\w+) if is_level\(\1, (\d+)\)", p)
                if fall:
                    unrec.append("%s: integer arm after the catch-all `%s`" % (W, p))
                elif m1:
                    v = variant(e, "integer arm %s" % p)
                    if v:
                        ints.append("(%s, %s)" % (m1.group(2), v))
                elif p == "_":
                    fall = True
                    if not e.startswith("Err("):
                        unrec.append("%s: integer catch-all `%s`" % (W, e[:60]))
                else:
                    unrec.append("%s: integer arm `%s`" % (W, p))
            if not fall:
                unrec.append("%s: integer branch has no catch-all error arm" % W)
        # path branch
        if norm(arms[2][1]) == "Ok(Self::Path(input.parse()?))":
            path_arm = True
        else:
            unrec.append("%s: path branch `%s`" % (W, norm(arms[2][1])))
    if not found:
        unrec.append("%s: impl Parse for Level not found" % W)
    G.append("(* tracing-attributes/src/attr.rs: `impl Parse for Level` composed with `impl ToTokens for Level`.\n"
             "   scrutinee: the transformations applied to `str.value()` before matching; name arms in source order. *)")
    G.append("Definition gen_attr_scrutinee : list strxf :=\n  [" + "; ".join(xfs) + "].")
    G.append("Definition gen_attr_name_arms : list (bool * list N * lv) :=\n  [" + "; ".join(
        "(%s, %s, %s)" % ("true" if k == "ex" else "false", coq_bytes(s), v) for k, s, v in names) + "].")
    G.append("Definition gen_attr_int_max : N := %d." % int_max)
    G.append("Definition gen_attr_int_arms : list (N * lv) :=\n  [" + "; ".join(ints) + "].")
    G.append("Definition gen_attr_path_passthrough : bool := %s." % ("true" if (path_arm and passthrough) else "false"))


def publisher_section(repo, md, G, unrec):
    W = "callsite.rs"
    try:
        cs = strip_comments(open(os.path.join(repo, "tracing-core/src/callsite.rs")).read())
    except OSError:
        cs = ""
    inner = None
    for mt, body, _, _ in find_blocks(cs, r'#\[cfg\(feature = "std"\)\]\s*mod inner\s*\{'):
        inner = body
    init, nohint, upd, exclusive = "None", "None", [], False
    if inner is None:
        unrec.append("%s: std `mod inner` not found" % W)
    else:
        fs = fns_in(inner)
        rb = fs.get("rebuild_interest")
        pat = (r"let mut max_level = (LevelFilter::[A-Z]+); dispatchers\.retain\(\|registrar\| \{ if let Some\(dispatch\) = registrar\.upgrade\(\) \{ "
               r"let level_hint = dispatch\.max_level_hint\(\)\.unwrap_or\((LevelFilter::[A-Z]+)\); "
               r"if (level_hint|max_level) (<|<=|>|>=) (level_hint|max_level) \{ max_level = level_hint; \} true \} else \{ false \} \}\); "
               r"callsites\.for_each\(\|reg\| rebuild_callsite_interest\(dispatchers, reg\.callsite\)\); LevelFilter::set_max\(max_level\);")
        m = re.fullmatch(pat, norm(rb[1])) if rb and rb[1] is not None else None
        if not m or m.group(3) == m.group(5):
            unrec.append("%s: rebuild_interest body" % W)
        else:
            init = lvref(m.group(1), unrec, "rebuild_interest initial value", True) or "None"
            nohint = lvref(m.group(2), unrec, "rebuild_interest unwrap_or", True) or "None"
            upd.append("(%s, %s)" % (REL[m.group(4)], "true" if m.group(3) == "level_hint" else "false"))
        # single writer: MAX_LEVEL is stored to only by set_max; set_max (pub(crate)) is called only by rebuild_interest, whose
        # `&mut Vec<Registrar>` parameter can only come from the write guard; every caller takes `REGISTRY.dispatchers.write()`.
        ok = True
        why = []
        uses = re.findall(r"MAX_LEVEL\.(\w+)\(", md)
        if sorted(uses) != ["load", "swap"]:
            ok = False
            why.append("MAX_LEVEL is accessed by %s" % uses)
        if not re.search(r"static MAX_LEVEL: AtomicUsize = AtomicUsize::new\(LevelFilter::OFF_USIZE\);", md):
            ok = False
            why.append("MAX_LEVEL initialiser")
        if len(re.findall(r"\bpub\(crate\) fn set_max\(", md)) != 1:
            ok = False
            why.append("set_max is not pub(crate)")
        if len(re.findall(r"LevelFilter::set_max\(", inner)) != 1 or not (rb and rb[1] and "LevelFilter::set_max(" in rb[1]):
            ok = False
            why.append("set_max call sites in std mod inner")
        if not (rb and re.search(r"dispatchers: &mut Vec<dispatch::Registrar>\)\s*$", norm(rb[0]))):
            ok = False
            why.append("rebuild_interest does not take `&mut Vec<Registrar>`: `%s`" % (norm(rb[0]) if rb else "?"))
        callers = [n for n, (sig, body) in fs.items() if body and n != "rebuild_interest" and re.search(r"\brebuild_interest\(", body)]
        if sorted(callers) != ["rebuild_interest_cache", "register_dispatch"]:
            ok = False
            why.append("callers of rebuild_interest: %s" % callers)
        for n in callers:
            nb = norm(fs[n][1])
            if not (re.search(r"let mut dispatchers = REGISTRY\.dispatchers\.write\(\)\.unwrap\(\);", nb)
                    and re.search(r"rebuild_interest\(callsites, &mut dispatchers\);", nb)):
                ok = False
                why.append("%s does not hold the dispatcher registry's write lock around rebuild_interest" % n)
        exclusive = ok
        if not ok:
            unrec.append("%s: the published maximum has no single serialised writer: %s" % (W, "; ".join(why)))
    G.append("(* tracing-core/src/callsite.rs (std): rebuild_interest folds the live dispatchers' hints and publishes the result.\n"
             "   update = (REL, hint_on_the_left): `if level_hint REL max_level { max_level = level_hint }`. *)")
    G.append("Definition gen_pub_init : option lv := %s." % init)
    G.append("Definition gen_pub_nohint : option lv := %s." % nohint)
    G.append("Definition gen_pub_update : list (rel * bool) :=\n  [" + "; ".join(upd) + "].")
    G.append("(* set_max has one caller, which runs under the dispatcher registry's exclusive lock *)")
    G.append("Definition gen_pub_exclusive : bool := %s." % ("true" if exclusive else "false"))


def main(repo, out):
    unrec = []
    md = strip_comments(open(os.path.join(repo, "tracing-core/src/metadata.rs")).read())
    # cut the test module off
    cut = md.find("#[cfg(test)]\nmod tests")
    if cut > 0:
        md = md[:cut]
    G = []
    G.append("(* GENERATED by translators/levels.py from tracing-core/src/metadata.rs, tracing-subscriber/src/filter/level.rs,")
    G.append("   tracing-log/src/lib.rs.  Rewritten on every run; do not edit. *)")
    G.append("From TV Require Import Levels.Syntax.")
    G.append("Local Open Scope string_scope.")
    G.append("Local Open Scope N_scope.")
    G.append("")

    # 1. enum LevelInner
    disc_inner = {}
    for m, body, _, _ in find_blocks(md, r"enum\s+LevelInner\s*\{"):
        for mm in re.finditer(r"([A-Z][a-z]+)\s*=\s*(\d+)\s*,", body):
            disc_inner[mm.group(1)] = int(mm.group(2))
    # 2. pub const X: Level = Level(LevelInner::Y);
    level_const = {}
    for mm in re.finditer(r"pub const ([A-Z]+): Level = Level\(LevelInner::([A-Za-z]+)\);", md):
        level_const[mm.group(1)] = mm.group(2)
    disc_lines = []
    for pub, coq in LV.items():
        inner = level_const.get(pub)
        if inner is None or inner not in disc_inner:
            unrec.append("Level::%s constant or its discriminant" % pub)
            disc_lines.append("  | %s => 255" % coq)
        else:
            disc_lines.append("  | %s => %d" % (coq, disc_inner[inner]))
    G.append("Definition gen_disc (l : lv) : N :=\n  match l with\n" + "\n".join(disc_lines) + "\n  end.")

    def inner_disc_expr(e, where):
        """`LevelInner::Error as usize` [+ k] -> N expression (on the public-name table)."""
        mm = re.fullmatch(r"LevelInner::([A-Za-z]+) as usize(?: \+ (\d+))?", norm(e))
        if not mm or mm.group(1) not in disc_inner:
            unrec.append("%s: `%s`" % (where, norm(e)))
            return "255"
        v = disc_inner[mm.group(1)]
        return str(v + int(mm.group(2) or 0))

    # 3. *_USIZE constants
    usize = {}
    for mm in re.finditer(r"const ([A-Z]+)_USIZE: usize = ([^;]+);", md):
        usize[mm.group(1)] = inner_disc_expr(mm.group(2), mm.group(1) + "_USIZE")
    for k in list(LV) + ["OFF"]:
        if k not in usize:
            unrec.append("%s_USIZE missing" % k)
            usize[k] = "255"
    G.append("Definition gen_usize_const (f : option lv) : N :=\n  match f with\n" +
             "\n".join("  | Some %s => %s" % (LV[k], usize[k]) for k in LV) + "\n  | None => %s\n  end." % usize["OFF"])

    # 4. LevelFilter constants
    fconst = {}
    for mm in re.finditer(r"pub const ([A-Z]+): LevelFilter = ([^;]+);", md):
        e = norm(mm.group(2))
        if e == "LevelFilter(None)":
            fconst[mm.group(1)] = "None"
        else:
            m2 = re.fullmatch(r"LevelFilter::from_level\(Level::([A-Z]+)\)", e) or re.fullmatch(r"LevelFilter\(Some\(Level::([A-Z]+)\)\)", e)
            if m2 and m2.group(1) in LV:
                fconst[mm.group(1)] = "(Some %s)" % LV[m2.group(1)]
            else:
                unrec.append("LevelFilter::%s = `%s`" % (mm.group(1), e))
    m = re.search(r"pub const fn from_level\(level: Level\) -> Self \{\s*Self\(Some\(level\)\)\s*\}", md)
    if not m:
        unrec.append("LevelFilter::from_level body")
    G.append("(* what each public LevelFilter constant denotes, as Option<Level> *)")
    G.append("Definition gen_filter_const : list (option lv * option lv) :=\n  [" + "; ".join(
        "(%s, %s)" % ("None" if k == "OFF" else "Some " + LV[k], fconst.get(k, "None")) for k in ["OFF"] + list(LV)) + "].")
    for k in ["OFF"] + list(LV):
        if k not in fconst:
            unrec.append("LevelFilter::%s missing" % k)

    # 4b. the conversions between Level, Option<Level> and LevelFilter: each must be the identity on the Option<Level> inside
    convs = []
    shapes = [
        ("from_level", r"pub const fn from_level\(level: Level\) -> Self \{\s*Self\(Some\(level\)\)\s*\}"),
        ("into_level", r"pub const fn into_level\(self\) -> Option<Level> \{\s*self\.0\s*\}"),
        ("From<Level> for LevelFilter", r"impl From<Level> for LevelFilter \{\s*(?:#\[inline\]\s*)?fn from\(level: Level\) -> Self \{\s*Self::from_level\(level\)\s*\}\s*\}"),
        ("From<Option<Level>> for LevelFilter", r"impl From<Option<Level>> for LevelFilter \{\s*(?:#\[inline\]\s*)?fn from\(level: Option<Level>\) -> Self \{\s*Self\(level\)\s*\}\s*\}"),
        ("From<LevelFilter> for Option<Level>", r"impl From<LevelFilter> for Option<Level> \{\s*(?:#\[inline\]\s*)?fn from\(filter: LevelFilter\) -> Self \{\s*filter\.into_level\(\)\s*\}\s*\}"),
    ]
    for nm, pat in shapes:
        ok = len(re.findall(pat, md)) == 1
        convs.append("(%s, %s)" % (coq_str(nm), "true" if ok else "false"))
        if not ok:
            unrec.append("conversion %s: body" % nm)
    G.append("(* conversions Level <-> Option<Level> <-> LevelFilter whose body is the identity on the wrapped Option<Level> *)")
    G.append("Definition gen_conv_identity : list (string * bool) :=\n  [" + "; ".join(convs) + "].")

    # 5. filter_as_usize
    fa = None
    for mt, body, _, _ in find_blocks(md, r"fn filter_as_usize\(x: &Option<Level>\) -> usize\s*\{"):
        b = norm(body)
        mm = re.fullmatch(r"match x \{ Some\(Level\(f\)\) => \*f as usize, None => LevelFilter::OFF_USIZE,? \}", b)
        if mm:
            fa = True
    if not fa:
        unrec.append("filter_as_usize body")
    G.append("Definition gen_filter_as_usize (f : option lv) : N :=\n  match f with Some l => gen_disc l | None => gen_usize_const None end.")

    # 6. operators
    ops = []
    seen = set()
    hdr = re.compile(r"impl\s+(PartialEq|PartialOrd|Ord)(?:<(LevelFilter|Level)>)?\s+for\s+(LevelFilter|Level)\s*\{")
    for mt, body, _, _ in find_blocks(md, hdr):
        trait, other, selfty = mt.group(1), mt.group(2) or mt.group(3), mt.group(3)
        ks = "KLevel" if selfty == "Level" else "KFilter"
        ko = "KLevel" if other == "Level" else "KFilter"
        for name, (sig, fbody) in fns_in(body).items():
            if name not in OPN or fbody is None:
                unrec.append("impl %s<%s> for %s: unexpected fn %s" % (trait, other, selfty, name))
                continue
            g = body_to_g(name, fbody, unrec, "impl %s<%s> for %s::%s" % (trait, other, selfty, name))
            if g:
                ops.append("(%s, %s, %s, %s)" % (ks, ko, OPN[name], g))
                seen.add((ks, ko, name))
    # derived PartialEq / Eq on the two structs
    for ty, k in (("Level", "KLevel"), ("LevelFilter", "KFilter")):
        mm = re.search(r"#\[derive\(([^)]*)\)\]\s*(?:#\[[^\]]*\]\s*)*pub struct %s\(" % ty, md)
        if mm and "PartialEq" in mm.group(1) and (k, k, "eq") not in seen:
            ops.append("(%s, %s, OpEq, GDerived)" % (k, k))
        elif (k, k, "eq") not in seen:
            unrec.append("%s: no PartialEq (derived or written)" % ty)
    G.append("Definition gen_ops : list (kind * kind * opname * gbody) :=\n  [ " + "\n  ; ".join(ops) + " ].")

    # 7. current() and set_max
    cur = []
    for mt, body, _, _ in find_blocks(md, r"pub fn current\(\) -> Self\s*\{"):
        mm = re.search(r"match MAX_LEVEL\.load\([^)]*\)\s*\{", body)
        if not mm:
            unrec.append("current(): match on MAX_LEVEL.load")
            break
        ob = body.find("{", mm.start())
        arms = match_arms(body[ob + 1:match_brace(body, ob)])
        for p, e in arms:
            m2 = re.fullmatch(r"Self::([A-Z]+)_USIZE", p)
            if m2:
                key = m2.group(1)
                v = lvref(e, unrec, "current() arm %s" % p, filt=True)
                if v and key in usize:
                    cur.append("(%s, %s)" % (usize[key], v))
            elif p in ("unknown", "_"):
                continue  # the unreachable arms: C19_max_roundtrip shows they are never taken
            else:
                unrec.append("current() arm `%s`" % p)
    G.append("Definition gen_current_arms : list (N * option lv) :=\n  [" + "; ".join(cur) + "].")
    sm = False
    for mt, body, _, _ in find_blocks(md, r"fn set_max\(LevelFilter\(level\): LevelFilter\)\s*\{"):
        b = norm(body)
        if re.match(r"let val = match level \{ Some\(Level\(level\)\) => level as usize, None => Self::OFF_USIZE,? \}; MAX_LEVEL\.swap\(val, Ordering::AcqRel\);", b):
            sm = True
    if not sm:
        unrec.append("set_max body")
    G.append("Definition gen_set_max (f : option lv) : N :=\n  match f with Some l => gen_disc l | None => gen_usize_const None end.")
    mi = re.search(r"static MAX_LEVEL: AtomicUsize = AtomicUsize::new\(LevelFilter::([A-Z]+)_USIZE\);", md)
    if not mi or mi.group(1) not in usize:
        unrec.append("MAX_LEVEL initialiser")
    G.append("(* static MAX_LEVEL: AtomicUsize = AtomicUsize::new(..) *)")
    G.append("Definition gen_max_initial : N := %s." % (usize[mi.group(1)] if mi and mi.group(1) in usize else "255"))

    # 8. FromStr
    def fromstr(ty, filt):
        num, exact, names = [], [], []
        found = False
        for mt, body, _, _ in find_blocks(md, r"impl FromStr for %s\s*\{" % ty):
            fs = fns_in(body).get("from_str")
            if not fs or fs[1] is None:
                break
            b = fs[1]
            found = True
            b_n = norm(b)
            if filt:
                shape = re.match(r"from\.parse::<usize>\(\) \.ok\(\) \.and_then\(\|num\| match num \{", b_n)
            else:
                shape = re.match(r"s\.parse::<usize>\(\) \.map_err\(\|_\| ParseLevelError \{ _p: \(\) \}\) \.and_then\(\|num\| match num \{", b_n)
            if not shape:
                unrec.append("FromStr for %s: prologue" % ty)
            blocks = [mm for mm in re.finditer(r"match (num|s|from) \{", b)]
            if len(blocks) != 2:
                unrec.append("FromStr for %s: expected two match blocks" % ty)
                break
            for mm in blocks:
                ob = b.find("{", mm.start())
                arms = match_arms(b[ob + 1:match_brace(b, ob)])
                for p, e in arms:
                    if mm.group(1) == "num":
                        if re.fullmatch(r"\d+", p):
                            v = lvref(e, unrec, "FromStr %s arm %s" % (ty, p), filt)
                            if v:
                                num.append("(%s, %s)" % (p, v))
                        elif p == "_":
                            if norm(e) not in ("None", "Err(ParseLevelError { _p: () })"):
                                unrec.append("FromStr %s: numeric fallthrough `%s`" % (ty, e))
                        else:
                            unrec.append("FromStr %s: numeric arm `%s`" % (ty, p))
                    else:
                        m2 = re.fullmatch(r's if s\.eq_ignore_ascii_case\("([^"]*)"\)', p)
                        m3 = re.fullmatch(r'"([^"]*)"', p)
                        if m2:
                            v = lvref(e, unrec, "FromStr %s arm %s" % (ty, p), filt)
                            if v:
                                names.append(("ic", m2.group(1), v))
                        elif m3:
                            v = lvref(e, unrec, "FromStr %s arm %s" % (ty, p), filt)
                            if v:
                                names.append(("ex", m3.group(1), v))
                        elif p == "_":
                            if norm(e) not in ("None", "Err(ParseLevelError { _p: () })"):
                                unrec.append("FromStr %s: name fallthrough `%s`" % (ty, e))
                        else:
                            unrec.append("FromStr %s: name arm `%s`" % (ty, p))
            tail = b_n[b_n.rfind("}") + 1:].strip()
            if filt and tail != ") .ok_or(ParseLevelFilterError(()))":
                unrec.append("FromStr LevelFilter: epilogue `%s`" % tail)
            if not filt and tail != ")":
                unrec.append("FromStr Level: epilogue `%s`" % tail)
            if filt and ".or_else(|| match from {" not in b_n:
                unrec.append("FromStr LevelFilter: or_else")
            if not filt and ".or_else(|_| match s {" not in b_n:
                unrec.append("FromStr Level: or_else")
        if not found:
            unrec.append("FromStr for %s not found" % ty)
        return num, names

    lnum, lnames = fromstr("Level", False)
    fnum, fnames = fromstr("LevelFilter", True)
    G.append("Definition gen_level_num_arms : list (N * lv) :=\n  [" + "; ".join(lnum) + "].")
    G.append("(* name arms in source order: (exact-match?, literal bytes, result); exact-match arms use `==`,\n   the others eq_ignore_ascii_case *)")
    G.append("Definition gen_level_name_arms : list (bool * list N * lv) :=\n  [" + "; ".join(
        "(%s, %s, %s)" % ("true" if k == "ex" else "false", coq_bytes(s), v) for k, s, v in lnames) + "].")
    G.append("Definition gen_filter_num_arms : list (N * option lv) :=\n  [" + "; ".join(fnum) + "].")
    G.append("Definition gen_filter_name_arms : list (bool * list N * option lv) :=\n  [" + "; ".join(
        "(%s, %s, %s)" % ("true" if k == "ex" else "false", coq_bytes(s), v) for k, s, v in fnames) + "].")

    # 9. Display / as_str
    def display(header, ty, filt, fnname="fmt", wrap=r"f\.pad\(\"([^\"]*)\"\)"):
        res = []
        ok = False
        for mt, body, _, _ in find_blocks(md, header):
            fs = fns_in(body).get(fnname)
            if not fs or fs[1] is None:
                continue
            b = fs[1]
            mm = re.search(r"match \*self \{", b)
            if not mm:
                continue
            ob = b.find("{", mm.start())
            for p, e in match_arms(b[ob + 1:match_brace(b, ob)]):
                v = lvref(p, unrec, "%s arm" % header, filt)
                m2 = re.fullmatch(wrap, e)
                if v and m2:
                    res.append("(%s, %s)" % (v, coq_bytes(m2.group(1))))
                else:
                    unrec.append("%s: arm `%s => %s`" % (header, p, e))
            ok = True
        if not ok:
            unrec.append("%s not found" % header)
        return res

    G.append("Definition gen_level_display : list (lv * list N) :=\n  [" + "; ".join(display(r"impl fmt::Display for Level\s*\{", "Level", False)) + "].")
    G.append("Definition gen_filter_display : list (option lv * list N) :=\n  [" + "; ".join(display(r"impl fmt::Display for LevelFilter\s*\{", "LevelFilter", True)) + "].")
    # as_str lives in `impl Level { ... }`
    asstr = []
    mm = re.search(r"pub fn as_str\(&self\) -> &'static str \{", md)
    if mm:
        ob = md.find("{", mm.end() - 1)
        b = md[ob + 1:match_brace(md, ob)]
        m2 = re.search(r"match \*self \{", b)
        if m2:
            ob2 = b.find("{", m2.start())
            for p, e in match_arms(b[ob2 + 1:match_brace(b, ob2)]):
                v = lvref(p, unrec, "as_str arm", False)
                m3 = re.fullmatch(r'"([^"]*)"', e)
                if v and m3:
                    asstr.append("(%s, %s)" % (v, coq_bytes(m3.group(1))))
                else:
                    unrec.append("as_str arm `%s => %s`" % (p, e))
    if not asstr:
        unrec.append("Level::as_str not found")
    G.append("Definition gen_level_as_str : list (lv * list N) :=\n  [" + "; ".join(asstr) + "].")

    # 10. LevelFilter used as a layer: `self >= metadata.level()`
    fl = strip_comments(open(os.path.join(repo, "tracing-subscriber/src/filter/level.rs")).read())
    layer = []
    for mt, body, _, _ in find_blocks(fl, r"impl<C: Collect> crate::Subscribe<C> for LevelFilter\s*\{"):
        fs = fns_in(body)
        en = fs.get("enabled")
        rc = fs.get("register_callsite")
        hint = fs.get("max_level_hint")
        for nm, f, pat in (("enabled", en, r"self (<|<=|>|>=) metadata\.level\(\)"),
                           ("register_callsite", rc, r"if self (<|<=|>|>=) metadata\.level\(\) \{ Interest::always\(\) \} else \{ Interest::never\(\) \}")):
            if f and f[1] is not None:
                m2 = re.fullmatch(pat, norm(f[1]))
                if m2:
                    layer.append("(%s, %s)" % (coq_str(nm), REL[m2.group(1)]))
                    continue
            unrec.append("LevelFilter layer %s body" % nm)
        if not (hint and hint[1] is not None and norm(hint[1]) == "(*self).into()"):
            unrec.append("LevelFilter layer max_level_hint body")
    G.append("(* the layer test is `self REL metadata.level()` with self : LevelFilter *)")
    G.append("Definition gen_filter_layer : list (string * rel) :=\n  [" + "; ".join(layer) + "].")

    # 11. tracing-log conversions (log levels are written with the same constructors)
    tl = strip_comments(open(os.path.join(repo, "tracing-log/src/lib.rs")).read())
    LOGLV = {"Error": "Error", "Warn": "Warn", "Info": "Info", "Debug": "Debug", "Trace": "Trace"}

    def logref(t, filt):
        t = norm(t)
        m2 = re.fullmatch(r"log::(Level|LevelFilter)::([A-Za-z]+)", t)
        if m2 and (m2.group(1) == "LevelFilter") == filt:
            if filt and m2.group(2) == "Off":
                return "None"
            if m2.group(2) in LOGLV:
                return ("(Some %s)" if filt else "%s") % LOGLV[m2.group(2)]
        return None

    def conv(header, fn, from_log, filt, name):
        rows = []
        ok = False
        for mt, body, _, _ in find_blocks(tl, header):
            fs = fns_in(body).get(fn)
            if not fs or fs[1] is None:
                continue
            m2 = re.search(r"match \*?self \{", fs[1])
            if not m2:
                continue
            ob = fs[1].find("{", m2.start())
            for p, e in match_arms(fs[1][ob + 1:match_brace(fs[1], ob)]):
                if from_log:
                    a, b = logref(p, filt), lvref(e, unrec, name, filt)
                else:
                    a, b = lvref(p, unrec, name, filt), logref(e, filt)
                if a and b:
                    rows.append("(%s, %s)" % (a, b))
                else:
                    unrec.append("%s arm `%s => %s`" % (name, p, e))
            ok = True
        if not ok:
            unrec.append("%s not found" % name)
        return rows

    G.append("Definition gen_level_as_log : list (lv * lv) :=\n  [" + "; ".join(conv(r"impl AsLog for tracing_core::Level\s*\{", "as_log", False, False, "Level::as_log")) + "].")
    G.append("Definition gen_level_as_trace : list (lv * lv) :=\n  [" + "; ".join(conv(r"impl AsTrace for log::Level\s*\{", "as_trace", True, False, "log::Level::as_trace")) + "].")
    G.append("Definition gen_filter_as_log : list (option lv * option lv) :=\n  [" + "; ".join(conv(r"impl AsLog for tracing_core::LevelFilter\s*\{", "as_log", False, True, "LevelFilter::as_log")) + "].")
    G.append("Definition gen_filter_as_trace : list (option lv * option lv) :=\n  [" + "; ".join(conv(r"impl AsTrace for log::LevelFilter\s*\{", "as_trace", True, True, "log::LevelFilter::as_trace")) + "].")

    # 12. the third parser of level names in the tree: tracing-attributes/src/attr.rs `impl Parse for Level`
    #     (`#[instrument(level = ..)]`, `err(level = ..)`, `ret(level = ..)`), composed with `impl ToTokens for Level`
    #     (which says what tracing level each internal variant denotes).
    attr_section(repo, G, unrec)

    # 13. who publishes the maximum level: tracing-core/src/callsite.rs (std `mod inner`) rebuild_interest
    publisher_section(repo, md, G, unrec)

    G.append("Definition gen_unrecognised : list string :=\n  [" + "; ".join(coq_str(u) for u in unrec) + "].")
    text = "\n".join(G) + "\n"
    return text, unrec


if __name__ == "__main__":
    repo = sys.argv[1] if len(sys.argv) > 1 else "/repo"
    text, unrec = main(repo, None)
    sys.stdout.write(text)
    if unrec:
        sys.stderr.write("UNRECOGNISED:\n  " + "\n  ".join(unrec) + "\n")
