#!/usr/bin/env python3
"""Forwarding impls of tokio-rs/tracing  ->  coq/gen/Gen_forwarding.v                              (C09)

Reads, on every run, from the repository under check:
  tracing-core/src/collect.rs        trait Collect (method list + default bodies), impl Collect for Box<C> / Arc<C>
  tracing-core/src/dispatch.rs       Dispatch's own forwarding to `self.collector()` (incl. the event_enabled gate)
  tracing-core/src/callsite.rs       where on_register_dispatch is issued
  tracing-subscriber/src/subscribe/mod.rs      trait Subscribe, trait Filter, Option<S>, subscriber_impl_body! (Box<S>,
                                               Box<dyn Subscribe>), Vec<S>, Identity
  tracing-subscriber/src/subscribe/layered.rs  impl Collect for Layered, impl Subscribe for Layered, pick_interest, pick_level_hint
  tracing-subscriber/src/reload.rs             reload::Subscriber as Subscribe and as Filter
  tracing-subscriber/src/filter/subscriber_filters/mod.rs   filter_impl_body! (Arc/Box<dyn Filter>), Option<F>, Filtered
  tracing-subscriber/src/filter/subscriber_filters/combinator.rs   And / Or / Not
  tracing-subscriber/src/fmt/mod.rs            fmt::Collector

and emits one row (implementor, trait, method, class) per (impl block, trait method).  The class is decided by the
*shape* of the body (regex + bracket matching over comment-stripped text, see rsparse.py):

  Fwd          exactly one call of the same method on the single inner value with the same arguments in order
  FwdOpt d     Option: Some -> forward, None -> literal d
  FwdAll c     Vec: for-loop / all / the hand-written folds (interest: never if any, always iff all, else sometimes; hint: max)
  FwdLock d    reload: the same single call through try_lock!(self.inner.read()/write()) (blocking acquisition)
  FwdTryLock d the same through try_read()/try_write() (at the call site or in a macro of the same file): skipped when the lock is busy
  Missing      the impl does not override the method (the trait default applies; defaults are extracted too)
  Seq2/Gate/PickInterest/PickHint/NewSpan/CloneSpan/TryClose/SelfCall/EventGate/Downcast   the shapes of Layered / Dispatch
  Const d      calls nothing, returns the literal d
  Logic calls  not one of the above, but a body whose calls on self's fields could be listed (Filtered, combinators)
  Custom why   anything else.  Fails closed: Coq has no rule that makes a Custom row acceptable.

Nothing here decides whether a row is *right*: that is `C09_table_transparent` (Coq, against a hand-written expected
column) and, at run time, the row-by-row cross-check of driver/props/c09.py against the real crates."""
import os
import re
import sys

sys.path.insert(0, os.path.dirname(os.path.abspath(__file__)))
from rsparse import strip_comments, find_blocks, fns_in, norm, match_brace, coq_str  # noqa: E402

TRAITS = {"Collect": "TCollect", "Subscribe": "TSubscribe", "Filter": "TFilter"}


# ------------------------------------------------------------------------------------------------
# small text helpers

def clean(body):
    """Normalise a fn body: drop attributes, collapse whitespace, glue method chains (`x .m()` -> `x.m()`)."""
    # verification hooks are add-only statements under `#[cfg(tracing_verif)]` (absent from a normal build)
    b = re.sub(r"#\[cfg\((?:all\()?tracing_verif\b[^\]]*\]\s*[^;{}]*;", " ", body)
    b = re.sub(r"#!?\[[^\]]*\]", " ", b)
    b = norm(b)
    b = re.sub(r"\s+\.", ".", b)
    b = re.sub(r"\(\s+", "(", b)
    b = re.sub(r",?\s+\)", ")", b)
    b = re.sub(r",\)", ")", b)
    return b.strip()


def split_top(s, sep=","):
    out, cur, depth = [], [], 0
    i = 0
    while i < len(s):
        c = s[i]
        if c in "([{<" and not (c == "<" and (i == 0 or not (s[i - 1].isalnum() or s[i - 1] in ":_>"))):
            depth += 1
        elif c in ")]}>" and not (c == ">" and i > 0 and s[i - 1] in "-="):
            depth = max(0, depth - 1)
        if c == sep and depth == 0:
            out.append("".join(cur).strip())
            cur = []
        else:
            cur.append(c)
        i += 1
    if "".join(cur).strip():
        out.append("".join(cur).strip())
    return out


def params_of(sig):
    """(receiver, [param names]) from `fn name<..>(recv, a: T, b: U) -> R`."""
    op = sig.find("(")
    cp = match_brace(sig, op, "(", ")")
    parts = split_top(sig[op + 1:cp])
    if not parts:
        return None, []
    recv = norm(parts[0])
    names = []
    for p in parts[1:]:
        n = p.split(":", 1)[0].strip()
        n = re.sub(r"^mut\s+", "", n)
        names.append(n)
    return recv, names


def args_ok(argtext, params, extra=()):
    """Are the call's arguments exactly the fn's parameters, in order (a trailing `.clone()` allowed), followed by `extra`?"""
    args = [re.sub(r"\.clone\(\)$", "", a) for a in split_top(argtext)]
    want = [p.lstrip("_") for p in params] + list(extra)
    got = [a.lstrip("_") for a in args]
    return got == want


LITS = {
    "": "LUnit", "true": "LTrue", "false": "LFalse", "None": "LHintNone",
    "Interest::always()": "LAlways", "Interest::sometimes()": "LSometimes", "Interest::never()": "LNever",
    "Some(LevelFilter::OFF)": "LHintOff", "{ Some(LevelFilter::OFF) }": "LHintOff", "id.clone()": "LIdClone",
}


def lit(txt):
    t = txt.strip().rstrip(",").strip()
    if t in LITS:
        return LITS[t]
    return "(LOther %s)" % coq_str(t[:60])


def calls_on_self(b):
    """Ordered (field, method) pairs for `self.<field>.<method>(` in the body (fallback abstraction)."""
    return re.findall(r"\bself\.(\w+)\.(\w+)\(", b)


# ------------------------------------------------------------------------------------------------
# exact templates (normalised text).  A body that drifts from these becomes Custom.

T_VEC_RC = ("let mut interest = Interest::never(); for s in self { let new_interest = s.register_callsite(metadata); "
            "if (interest.is_sometimes() && new_interest.is_always()) || (interest.is_never() && !new_interest.is_never()) "
            "{ interest = new_interest; } } interest")
T_VEC_RC_FIXED = "if self.is_empty() { return Interest::always(); } " + T_VEC_RC
T_VEC_RC_ALL = ("let mut any_never = false; let mut all_always = true; for s in self { let interest = s.register_callsite(metadata); "
                "any_never |= interest.is_never(); all_always &= interest.is_always(); } "
                "if any_never { Interest::never() } else if all_always { Interest::always() } else { Interest::sometimes() }")
T_VEC_HINT = ("let mut max_level = LevelFilter::OFF; for s in self { let hint = s.max_level_hint()?; "
              "max_level = core::cmp::max(hint, max_level); } Some(max_level)")
T_NEW_SPAN = "let id = self.inner.new_span(span); self.subscriber.on_new_span(span, &id, self.ctx()); id"
T_CLONE_SPAN = ("let new = self.inner.clone_span(old); if &new != old { self.subscriber.on_id_change(old, &new, self.ctx()) }; new")
T_TRY_CLOSE = ("let subscriber = &self.inner as &dyn Collect; let mut guard = subscriber.downcast_ref::<Registry>()"
               ".map(|registry| registry.start_close(id.clone())); if self.inner.try_close(id.clone()) { "
               "{ if let Some(g) = guard.as_mut() { g.set_closing() }; } self.subscriber.on_close(id, self.ctx()); true } else { false }")
T_TRY_CLOSE_CFG = ('#[cfg(all(feature = "registry", feature = "std"))] let subscriber = &self.inner as &dyn Collect; '
                   '#[cfg(all(feature = "registry", feature = "std"))] let mut guard = subscriber.downcast_ref::<Registry>()'
                   '.map(|registry| registry.start_close(id.clone())); if self.inner.try_close(id.clone()) { '
                   '#[cfg(all(feature = "registry", feature = "std"))] { if let Some(g) = guard.as_mut() { g.set_closing() }; } '
                   'self.subscriber.on_close(id, self.ctx()); true } else { false }')
T_EVENT_GATE = "let collector = self.collector(); if collector.event_enabled(event) { collector.event(event); }"

T_PICK_INTEREST = ("if self.has_subscriber_filter { return inner(); } if outer.is_never() { filter::FilterState::take_interest(); "
                   "return outer; } let inner = inner(); if outer.is_sometimes() { return outer; } "
                   "if inner.is_never() && self.inner_has_subscriber_filter { return Interest::sometimes(); } inner")
T_PICK_HINT = ("if self.inner_is_registry { return outer_hint; } "
               "if self.has_subscriber_filter && self.inner_has_subscriber_filter { return Some(cmp::max(outer_hint?, inner_hint?)); } "
               "if self.has_subscriber_filter && inner_hint.is_none() { return None; } "
               "if self.inner_has_subscriber_filter && outer_hint.is_none() { return None; } "
               "if super::subscriber_is_none(&self.subscriber) { return cmp::max(outer_hint, Some(inner_hint?)); } "
               "if inner_is_none && inner_hint == Some(LevelFilter::OFF) { return outer_hint; } "
               "cmp::max(outer_hint, inner_hint)")
T_TRY_LOCK = ("($lock:expr) => { try_lock!($lock, else return) }; ($lock:expr, else $els:expr) => { "
              "if let ::core::result::Result::Ok(l) = $lock { l } else if std::thread::panicking() { $els } else { panic!(\"lock poisoned\") } };")
T_IS_NONE = "unsafe { %s.downcast_raw(TypeId::of::<NoneLayerMarker>()) }.is_some()"

DC = {
    "if id == TypeId::of::<Self>() { Some(NonNull::from(self).cast()) } else { None }": "DcSelf",
    "if id == TypeId::of::<Self>() { return Some(NonNull::from(self).cast()); } self.as_ref().downcast_raw(id)": "DcSelfOrFwd",
    "if id == TypeId::of::<Self>() { Some(NonNull::from(self).cast()) } else { self.inner.downcast_raw(id) }": "DcSelfOrFwd",
    "self.deref().downcast_raw(id)": "DcFwd",
    ("if id == TypeId::of::<Self>() { Some(NonNull::from(self).cast()) } else if id == TypeId::of::<NoneLayerMarker>() && self.is_none() "
     "{ Some(NonNull::from(&NONE_LAYER_MARKER).cast()) } else { self.as_ref().and_then(|inner| inner.downcast_raw(id)) }"): "DcOption",
    ("if id == TypeId::of::<Self>() { return Some(NonNull::from(self).cast()); } "
     "if filter::is_psf_downcast_marker(id) && self.iter().any(|s| s.downcast_raw(id).is_none()) { return None; } "
     "self.iter().find_map(|s| s.downcast_raw(id))"): "DcVec",
    ("if id == TypeId::of::<Self>() { return Some(NonNull::from(self).cast()); } "
     "if id == TypeId::of::<NoneLayerMarker>() && self.is_empty() { return Some(NonNull::from(&NONE_LAYER_MARKER).cast()); } "
     "if filter::is_psf_downcast_marker(id) && self.iter().any(|s| s.downcast_raw(id).is_none()) { return None; } "
     "self.iter().find_map(|s| s.downcast_raw(id))"): "DcVecNoneIfEmpty",
    ("if id == TypeId::of::<subscribe::NoneLayerMarker>() { return try_lock!(self.inner.read(), else return None).downcast_raw(id); } None"): "DcReload",
    ("if id == TypeId::of::<subscribe::NoneLayerMarker>() { return try_read!(self.inner, else return None).downcast_raw(id); } None"): "DcReloadTry",
    ("if id == TypeId::of::<Self>() { return Some(NonNull::from(self).cast()); } "
     "self.subscriber.downcast_raw(id).or_else(|| self.inner.downcast_raw(id))"): "DcLayeredC",
    ("match id { id if id == TypeId::of::<Self>() => Some(NonNull::from(self).cast()), "
     "id if filter::is_psf_downcast_marker(id) => self.subscriber.downcast_raw(id).and(self.inner.downcast_raw(id)), "
     "_ => self.subscriber.downcast_raw(id).or_else(|| self.inner.downcast_raw(id)), }"): "DcLayeredS",
    ("match id { id if id == TypeId::of::<Self>() => Some(NonNull::from(self).cast()), "
     "id if id == TypeId::of::<S>() => Some(NonNull::from(&self.subscriber).cast()), "
     "id if id == TypeId::of::<F>() => Some(NonNull::from(&self.filter).cast()), "
     "id if id == TypeId::of::<MagicPsfDowncastMarker>() => { Some(NonNull::from(&self.id).cast()) } _ => None, }"): "DcFiltered",
}


# ------------------------------------------------------------------------------------------------
# classification of one method body

_LOCAL_MACROS = {}     # macro_rules! defined in the file whose impl block is being classified: {name: body text}

SINGLE_RECV = r"self\.(?:as_ref\(\)|deref\(\)|deref_mut\(\)|inner|subscriber|a|collector\(\))"


def classify(name, sig, body, ctx_extra=()):
    """-> Coq term of type cls."""
    _, params = params_of(sig)
    b = clean(body)
    if name == "downcast_raw":
        d = DC.get(b)
        return "(Downcast %s)" % d if d else "(Custom %s)" % coq_str("downcast_raw body not recognised")
    # --- single forward
    m = re.fullmatch(SINGLE_RECV + r"\.(\w+)\((.*)\);?", b)
    if m and m.group(1) == name and args_ok(m.group(2), params):
        return "Fwd"
    # --- reload: one call through a lock guard.  FwdLock = the guard comes from the *blocking* `read()` / `write()` (through the
    #     crate's `try_lock!`, whose body is pinned as a helper); FwdTryLock = from `try_read()` / `try_write()`, at the call site or
    #     inside a macro defined in the same file: the callback is then skipped (the fallback literal) whenever the lock is busy.
    m = re.fullmatch(r"(\w+)!\(self\.inner(?:\.(\w+)\(\))?(?:, else return ?(.*?))?\)\.(\w+)\((.*)\);?", b)
    if m and m.group(4) == name and args_ok(m.group(5), params):
        mac, how = m.group(1), m.group(2)
        mode = None
        if mac == "try_lock" and how in ("read", "write"):
            mode = "FwdLock"
        elif how in ("try_read", "try_write"):
            mode = "FwdTryLock"
        elif how is None and mac in _LOCAL_MACROS:
            mb = _LOCAL_MACROS[mac]
            if re.search(r"\.try_(?:read|write)\(\)", mb):
                mode = "FwdTryLock"
            elif re.search(r"\$\w+\.(?:read|write)\(\)", mb):
                mode = "FwdLock"
        if mode:
            return "(%s %s)" % (mode, lit(m.group(3) or ""))
    # --- Option (Subscribe)
    m = re.fullmatch(r"if let Some\((?:ref |ref mut )?(\w+)\) = self \{ (\w+)\.(\w+)\((.*)\);? \}", b)
    if m and m.group(1) == m.group(2) and m.group(3) == name and args_ok(m.group(4), params):
        return "(FwdOpt LUnit)"
    m = re.fullmatch(r"match self \{ Some\((?:ref )?(\w+)\) => (\w+)\.(\w+)\((.*?)\), None => (.+?),? \}", b)
    if m and m.group(1) == m.group(2) and m.group(3) == name and args_ok(m.group(4), params):
        return "(FwdOpt %s)" % lit(m.group(5))
    # --- Option (Filter)
    m = re.fullmatch(r"self\.as_ref\(\)\.map\(\|(\w+)\| (\w+)\.(\w+)\((.*?)\)\)\.unwrap_or(?:_else)?\((.+)\)", b)
    if m and m.group(1) == m.group(2) and m.group(3) == name and args_ok(m.group(4), params):
        d = m.group(5)
        d = {"Interest::always": "Interest::always()"}.get(d, d)
        return "(FwdOpt %s)" % lit(d)
    m = re.fullmatch(r"self\.as_ref\(\)\.and_then\(\|(\w+)\| (\w+)\.(\w+)\((.*?)\)\)", b)
    if m and m.group(1) == m.group(2) and m.group(3) == name and args_ok(m.group(4), params):
        return "(FwdOpt LHintNone)"
    # --- Vec
    m = re.fullmatch(r"for (\w+) in self \{ (\w+)\.(\w+)\((.*)\);? \}", b)
    if m and m.group(1) == m.group(2) and m.group(3) == name and args_ok(m.group(4), params):
        return "(FwdAll CUnit)"
    m = re.fullmatch(r"self\.iter\(\)\.all\(\|(\w+)\| (\w+)\.(\w+)\((.*)\)\)", b)
    if m and m.group(1) == m.group(2) and m.group(3) == name and args_ok(m.group(4), params):
        return "(FwdAll CAll)"
    if b == T_VEC_RC and name == "register_callsite":
        return "(FwdAll CInterestHighest)"
    if b == T_VEC_RC_FIXED and name == "register_callsite":
        return "(FwdAll CInterestHighestOrAlways)"
    if b == T_VEC_RC_ALL and name == "register_callsite":
        return "(FwdAll CInterestAll)"
    if b == T_VEC_HINT and name == "max_level_hint":
        return "(FwdAll CHintMax)"
    # --- Layered
    m = re.fullmatch(r"self\.(inner|subscriber)\.(\w+)\((.*?)\); self\.(inner|subscriber)\.(\w+)\((.*?)\);?", b)
    if m and m.group(1) != m.group(4):
        first = {"side": m.group(1), "m": m.group(2), "args": m.group(3)}
        second = {"side": m.group(4), "m": m.group(5), "args": m.group(6)}
        ok = True
        for c in (first, second):
            # a Layered *collector* hands its subscriber the extra `self.ctx()` (callbacks that take a Context only)
            ok = ok and (args_ok(c["args"], params) or (c["side"] == "subscriber" and bool(ctx_extra) and args_ok(c["args"], params, ctx_extra)))
        if ok:
            inner = first if first["side"] == "inner" else second
            outer = second if first["side"] == "inner" else first
            return "(Seq2 %s %s %s)" % ("InnerOuter" if first["side"] == "inner" else "OuterInner", coq_str(inner["m"]), coq_str(outer["m"]))
    m = re.fullmatch(r"if self\.subscriber\.(\w+)\((.*?)\) \{ self\.inner\.(\w+)\((.*?)\) \} else \{ (filter::FilterState::clear_enabled\(\); )?false \}", b)
    if m and args_ok(m.group(2), params, ctx_extra) and args_ok(m.group(4), params):
        return "(Gate %s %s %s)" % (coq_str(m.group(1)), coq_str(m.group(3)), "true" if m.group(5) else "false")
    m = re.fullmatch(r"self\.pick_interest\(self\.subscriber\.(\w+)\((\w+)\), \|\| \{ self\.inner\.(\w+)\((\w+)\) \}\)", b)
    if m and [m.group(2)] == params and [m.group(4)] == params:
        return "(PickInterest %s %s)" % (coq_str(m.group(1)), coq_str(m.group(3)))
    m = re.fullmatch(r"self\.pick_level_hint\(self\.subscriber\.max_level_hint\(\), self\.inner\.max_level_hint\(\), super::(\w+)\(&self\.inner\)\)", b)
    if m and name == "max_level_hint":
        return "(PickHint %s)" % coq_str(m.group(1))
    if b == T_NEW_SPAN and name == "new_span":
        return "NewSpan"
    if b == T_CLONE_SPAN and name == "clone_span":
        return "CloneSpan"
    if b == T_TRY_CLOSE and name == "try_close":
        return "TryClose"
    m = re.fullmatch(r"self\.(\w+)\((.*)\);", b)
    if m and args_ok(m.group(2), params):
        return "(SelfCall %s)" % coq_str(m.group(1))
    if b == T_EVENT_GATE and name == "event":
        return "EventGate"
    rest = re.sub(r"^(?:let _ = [^;]*; ?)*", "", b).strip()
    if rest in LITS and "self" not in b:
        return "(Const %s)" % LITS[rest]
    calls = calls_on_self(b)
    if calls:
        return "(Logic [%s])" % "; ".join("(%s, %s)" % (coq_str(f), coq_str(mm)) for f, mm in calls)
    return "(Custom %s)" % coq_str(b[:80])


def classify_default(name, sig, body):
    if body is None:
        return "DRequired"
    b = clean(body)
    if name == "downcast_raw":
        return "DDowncastSelf" if DC.get(b) == "DcSelf" else "(DOther %s)" % coq_str(b[:60])
    # a body made only of `let _ = ...;` followed by an optional literal
    rest = re.sub(r"^(?:let _ = [^;]*; ?)*", "", b).strip()
    if rest in LITS:
        return "(DLit %s)" % LITS[rest]
    m = re.fullmatch(r"if self\.(\w+)\((.*?)\) \{ (.+?) \} else \{ (.+?) \}", b)
    if m and m.group(3) in LITS and m.group(4) in LITS:
        return "(DIfSelf %s %s %s)" % (coq_str(m.group(1)), LITS[m.group(3)], LITS[m.group(4)])
    m = re.fullmatch(r"self\.(\w+)\((.*?)\); (.+)", b)
    if m and m.group(3) in LITS:
        return "(DSeqSelf %s %s)" % (coq_str(m.group(1)), LITS[m.group(3)])
    return "(DOther %s)" % coq_str(b[:60])


# ------------------------------------------------------------------------------------------------

def register_counts(core_dispatch, core_callsite):
    """{constructor: number of on_register_dispatch notifications it issues} for Dispatch::new and Dispatch::from_static (None = not found)."""
    # callsite::register_dispatch, std variant: the fn whose body locks REGISTRY.dispatchers
    per_call = None
    for m in re.finditer(r"pub\(crate\) fn register_dispatch\((\w+): &Dispatch\)", core_callsite):
        ob = core_callsite.find("{", m.end())
        body = clean(core_callsite[ob + 1:match_brace(core_callsite, ob)])
        if "REGISTRY.dispatchers.write()" in body:
            per_call = len(re.findall(r"\b%s\.collector\(\)\.on_register_dispatch\(%s\);" % (m.group(1), m.group(1)), body))
    out = {}
    for name, sig in (("new", r"pub fn new<C>\(collector: C\) -> Self"), ("from_static", r"pub fn from_static\(collector: &'static \(dyn Collect \+ Send \+ Sync\)\) -> Self")):
        m = re.search(sig, core_dispatch)
        if not m:
            out[name] = None
            continue
        ob = core_dispatch.find("{", m.end())
        body = clean(core_dispatch[ob + 1:match_brace(core_dispatch, ob)])
        direct = len(re.findall(r"\bme\.collector\(\)\.on_register_dispatch\(&me\);", body))
        via = len(re.findall(r"crate::callsite::register_dispatch\(&me\);", body))
        other = len(re.findall(r"on_register_dispatch", body)) - direct
        out[name] = None if (per_call is None or other) else direct + via * per_call
    return out


def read(repo, rel):
    with open(os.path.join(repo, rel), encoding="utf-8") as f:
        return strip_comments(f.read())


def self_methods(fns):
    """Trait methods that take `&self` / `&mut self` (builder-style `self` methods are not callbacks)."""
    out = []
    for name, (sig, body) in fns.items():
        recv, _ = params_of(sig)
        if recv in ("&self", "&mut self"):
            out.append(name)
    return out


def one_block(src, header_re, what, unrec):
    blocks = list(find_blocks(src, header_re))
    if len(blocks) != 1:
        unrec.append("%s: expected exactly one block, found %d" % (what, len(blocks)))
        return None
    return blocks[0][1]


def main(repo, out):
    unrec = []
    core_collect = read(repo, "tracing-core/src/collect.rs")
    core_dispatch = read(repo, "tracing-core/src/dispatch.rs")
    core_callsite = read(repo, "tracing-core/src/callsite.rs")
    sub_mod = read(repo, "tracing-subscriber/src/subscribe/mod.rs")
    layered = read(repo, "tracing-subscriber/src/subscribe/layered.rs")
    reload_rs = read(repo, "tracing-subscriber/src/reload.rs")
    filt_mod = read(repo, "tracing-subscriber/src/filter/subscriber_filters/mod.rs")
    comb = read(repo, "tracing-subscriber/src/filter/subscriber_filters/combinator.rs")
    fmt_mod = read(repo, "tracing-subscriber/src/fmt/mod.rs")

    # ---- traits
    trait_src = {
        "Collect": (core_collect, r"pub trait Collect\b[^{;]*\{"),
        "Subscribe": (sub_mod, r"pub trait Subscribe<C>[^{;]*\{"),
        "Filter": (sub_mod, r"pub trait Filter<S>[^{;]*\{"),
    }
    trait_methods = {}
    defaults = []
    for t, (src, hdr) in trait_src.items():
        body = one_block(src, hdr, "trait " + t, unrec)
        if body is None:
            trait_methods[t] = []
            continue
        fns = fns_in(body)
        ms = self_methods(fns)
        trait_methods[t] = ms
        for mname in ms:
            sig, fb = fns[mname]
            d = classify_default(mname, sig, fb)
            if d.startswith("(DOther"):
                unrec.append("trait %s::%s default body: %s" % (t, mname, d))
            defaults.append((t, mname, d))

    # ---- macros that expand to method lists
    macros = {}
    for mac, src in (("subscriber_impl_body", sub_mod), ("filter_impl_body", filt_mod)):
        body = one_block(src, r"macro_rules!\s*%s\s*\{" % mac, "macro " + mac, unrec)
        macros[mac] = fns_in(body) if body is not None else {}

    rows = []

    def impl_rows(wname, trait, src, header_re, ctx_extra=(), macro=None):
        body = one_block(src, header_re, "impl %s for %s" % (trait, wname), unrec)
        if body is None:
            fns = {}
        else:
            fns = fns_in(body)
            if macro and re.search(r"\b%s!\s*[\({]" % macro, body):
                if fns:
                    unrec.append("impl %s for %s: methods next to %s!" % (trait, wname, macro))
                fns = dict(macros[macro])
            elif macro:
                unrec.append("impl %s for %s: expected %s!" % (trait, wname, macro))
        for mname in trait_methods[trait]:
            if mname in fns and fns[mname][1] is not None:
                sig, fb = fns[mname]
                c = classify(mname, sig, fb, ctx_extra)
            else:
                c = "Missing"
            if c.startswith("(Custom"):
                unrec.append("impl %s for %s::%s: %s" % (trait, wname, mname, c))
            rows.append((wname, trait, mname, c))
        for extra in fns:
            if extra not in trait_methods[trait]:
                unrec.append("impl %s for %s: fn %s is not a method of the trait" % (trait, wname, extra))

    # Collect
    impl_rows("Box<C>", "Collect", core_collect, r"impl\s*<C>\s*Collect for alloc::boxed::Box<C>[^{;]*\{")
    impl_rows("Arc<C>", "Collect", core_collect, r"impl\s*<C>\s*Collect for Arc<C>[^{;]*\{")
    impl_rows("fmt::Collector", "Collect", fmt_mod, r"impl\s*<N, E, F, W>\s*tracing_core::Collect for Collector<N, E, F, W>[^{;]*\{")
    impl_rows("Layered", "Collect", layered, r"impl\s*<S, C>\s*Collect for Layered<S, C>[^{;]*\{", ctx_extra=("self.ctx()",))
    # Subscribe
    impl_rows("Option<S>", "Subscribe", sub_mod, r"impl\s*<S, C>\s*Subscribe<C> for Option<S>[^{;]*\{")
    impl_rows("Box<S>", "Subscribe", sub_mod, r"impl\s*<S, C>\s*Subscribe<C> for Box<S>[^{;]*\{", macro="subscriber_impl_body")
    impl_rows("Box<dyn Subscribe>", "Subscribe", sub_mod,
              r"impl\s*<C>\s*Subscribe<C> for Box<dyn Subscribe<C> \+ Send \+ Sync \+ 'static>[^{;]*\{", macro="subscriber_impl_body")
    impl_rows("Vec<S>", "Subscribe", sub_mod, r"impl\s*<C, S>\s*Subscribe<C> for alloc::vec::Vec<S>[^{;]*\{")
    _LOCAL_MACROS.clear()
    for mm, mbody, _, _ in find_blocks(reload_rs, r"macro_rules!\s*(\w+)\s*\{"):
        _LOCAL_MACROS[mm.group(1)] = clean(mbody)
    impl_rows("reload::Subscriber", "Subscribe", reload_rs, r"impl\s*<S, C>\s*crate::Subscribe<C> for Subscriber<S>[^{;]*\{")
    impl_rows("Layered", "Subscribe", layered, r"impl\s*<C, A, B>\s*Subscribe<C> for Layered<A, B, C>[^{;]*\{")
    impl_rows("Identity", "Subscribe", sub_mod, r"impl\s*<C: Collect>\s*Subscribe<C> for Identity\s*\{")
    impl_rows("Filtered", "Subscribe", filt_mod, r"impl\s*<C, S, F>\s*Subscribe<C> for Filtered<S, F, C>[^{;]*\{")
    # Filter
    impl_rows("Arc<dyn Filter>", "Filter", filt_mod,
              r"impl\s*<S>\s*subscribe::Filter<S> for Arc<dyn subscribe::Filter<S> \+ Send \+ Sync \+ 'static>\s*\{", macro="filter_impl_body")
    impl_rows("Box<dyn Filter>", "Filter", filt_mod,
              r"impl\s*<S>\s*subscribe::Filter<S> for Box<dyn subscribe::Filter<S> \+ Send \+ Sync \+ 'static>\s*\{", macro="filter_impl_body")
    impl_rows("Option<F>", "Filter", filt_mod, r"impl\s*<F, S>\s*subscribe::Filter<S> for Option<F>[^{;]*\{")
    impl_rows("reload::Subscriber", "Filter", reload_rs, r"impl\s*<S, C>\s*crate::subscribe::Filter<C> for Subscriber<S>[^{;]*\{")
    _LOCAL_MACROS.clear()
    impl_rows("And", "Filter", comb, r"impl\s*<A, B, S>\s*Filter<S> for And<A, B, S>[^{;]*\{")
    impl_rows("Or", "Filter", comb, r"impl\s*<A, B, S>\s*Filter<S> for Or<A, B, S>[^{;]*\{")
    impl_rows("Not", "Filter", comb, r"impl\s*<A, S>\s*Filter<S> for Not<A, S>[^{;]*\{")

    # Dispatch: its public methods of the same names as Collect's, plus where on_register_dispatch is issued
    install_counts = {}
    dfns = {}
    for _, body, _, _ in find_blocks(core_dispatch, r"impl Dispatch\s*\{"):
        for k, v in fns_in(body).items():
            dfns.setdefault(k, v)
    for mname in trait_methods["Collect"]:
        if mname == "on_register_dispatch":
            # every constructor of a Dispatch must tell the collector about it exactly once: count the notifications each one
            # issues, directly or through callsite::register_dispatch (the std variant, the one that keeps the dispatcher list)
            install_counts.update(register_counts(core_dispatch, core_callsite))
            c = "Fwd" if install_counts.get("new") == 1 else \
                "(Custom %s)" % coq_str("Dispatch::new issues on_register_dispatch %s times" % install_counts.get("new"))
        elif mname in dfns and dfns[mname][1] is not None:
            recv, _ = params_of(dfns[mname][0])
            c = classify(mname, dfns[mname][0], dfns[mname][1]) if recv == "&self" else "Missing"
        else:
            c = "Missing"
        if c.startswith("(Custom"):
            unrec.append("Dispatch::%s: %s" % (mname, c))
        rows.append(("Dispatch", "Collect", mname, c))

    # helpers whose bodies the model mirrors verbatim
    helpers = []
    hb = {}
    for _, body, _, _ in find_blocks(layered, r"impl\s*<A, B, C>\s*Layered<A, B, C>[^{;]*\{"):
        hb.update(fns_in(body))
    for hname, tmpl in (("pick_interest", T_PICK_INTEREST), ("pick_level_hint", T_PICK_HINT)):
        ok = hname in hb and hb[hname][1] is not None and clean(hb[hname][1]) == tmpl
        helpers.append(("Layered::" + hname, ok))
        if not ok:
            unrec.append("Layered::%s body differs from the template the model mirrors" % hname)
    # Layered::try_close with its attributes kept: the `if self.inner.try_close(..) { .. } else { false }` decision must be outside any
    # cfg'd block (only the Registry close-guard statements are conditional), or a build without the `registry` feature behaves differently
    lc = {}
    for _, body, _, _ in find_blocks(layered, r"impl\s*<S, C>\s*Collect for Layered<S, C>[^{;]*\{"):
        lc.update(fns_in(body))
    ok = "try_close" in lc and lc["try_close"][1] is not None and re.sub(r"\s+\.", ".", norm(lc["try_close"][1])) == T_TRY_CLOSE_CFG
    helpers.append(("Layered::try_close cfg structure", ok))
    if not ok:
        unrec.append("Layered::try_close: the cfg(feature = \"registry\") structure differs from the template (the closed / not-closed decision must not sit inside a cfg block)")
    tl = {}
    for k, v in fns_in(sub_mod).items():
        tl[k] = v
    for hname, var in (("subscriber_is_none", "subscriber"), ("collector_is_none", "collector")):
        ok = hname in tl and tl[hname][1] is not None and clean(tl[hname][1]) == T_IS_NONE % var
        helpers.append(("subscribe::" + hname, ok))
        if not ok:
            unrec.append("subscribe::%s body differs from the template" % hname)

    # the lock protocol of the reload cell: `try_lock!` only unwraps the LockResult it is given (so `.read()` / `.write()` at the call
    # site block), and Handle::modify runs the closure under the write guard
    macros_rs = read(repo, "tracing-subscriber/src/macros.rs")
    tl_body = one_block(macros_rs, r"macro_rules!\s*try_lock\s*\{", "macro try_lock", unrec)
    ok = tl_body is not None and clean(tl_body) == T_TRY_LOCK
    helpers.append(("macros::try_lock", ok))
    # the ORDER of its branches: the lock result is inspected first and `std::thread::panicking()` only in the arm of a poisoned lock
    # ("lock_first").  If `panicking()` is consulted before the lock expression is evaluated, every callback made while the thread is
    # unwinding is skipped even though the lock is healthy ("panicking_first"); the model then treats ops run during unwinding accordingly.
    tl_order = "unknown"
    if ok:
        tl_order = "lock_first"
    elif tl_body is not None:
        arm = clean(tl_body).split("($lock:expr, else $els:expr) =>", 1)[-1]
        i_p, i_l = arm.find("std::thread::panicking()"), arm.find("$lock")
        if 0 <= i_p < i_l:
            tl_order = "panicking_first"
    if not ok:
        unrec.append("macros.rs try_lock! differs from the template (branch order: %s)" % tl_order)
    hfn = {}
    for _, body, _, _ in find_blocks(reload_rs, r"impl\s*<T>\s*Handle<T>\s*\{"):
        hfn.update(fns_in(body))
    ok = "modify" in hfn and hfn["modify"][1] is not None and bool(re.search(
        r"let mut lock = try_lock!\(inner\.write\(\), else return Err\(Error::poisoned\(\)\)\); f\(&mut \*lock\); drop\(lock\);", clean(hfn["modify"][1])))
    ok = ok and "reload" in hfn and hfn["reload"][1] is not None and clean(hfn["reload"][1]) == "self.modify(|object| { *object = new_value.into(); })"
    helpers.append(("reload::Handle::modify", ok))
    if not ok:
        unrec.append("reload::Handle::modify / reload: not `try_lock!(inner.write(), ..); f(&mut *lock); drop(lock);`")

    G = []
    G.append("(* GENERATED by translators/forwarding.py from tracing-core/src/{collect,dispatch,callsite}.rs and\n"
             "   tracing-subscriber/src/{subscribe/mod.rs, subscribe/layered.rs, reload.rs, filter/subscriber_filters/{mod,combinator}.rs,\n"
             "   fmt/mod.rs}.  Rewritten on every run; do not edit. *)")
    G.append("From TV Require Import Forwarding.Syntax.\nLocal Open Scope string_scope.\n")
    G.append("Definition gen_trait_methods : list (trait * list string) :=\n  [ " + "\n  ; ".join(
        "(%s, [%s])" % (TRAITS[t], "; ".join(coq_str(m) for m in trait_methods[t])) for t in ("Collect", "Subscribe", "Filter")) + " ].\n")
    G.append("Definition gen_defaults : list (trait * string * dflt) :=\n  [ " + "\n  ; ".join(
        "(%s, %s, %s)" % (TRAITS[t], coq_str(m), d) for t, m, d in defaults) + " ].\n")
    G.append("Definition gen_rows : list (string * trait * string * cls) :=\n  [ " + "\n  ; ".join(
        "(%s, %s, %s, %s)" % (coq_str(w), TRAITS[t], coq_str(m), c) for w, t, m, c in rows) + " ].\n")
    G.append("Definition gen_helpers : list (string * bool) :=\n  [ " + "; ".join(
        "(%s, %s)" % (coq_str(h), "true" if ok else "false") for h, ok in helpers) + " ].\n")
    G.append("Definition gen_install_counts : list (string * N) :=\n  [%s].\n" % "; ".join(
        "(%s, %s%%N)" % (coq_str(k), install_counts.get(k, 99) if install_counts.get(k) is not None else 99) for k in ("new", "from_static")))
    for k in ("new", "from_static"):
        if install_counts.get(k) != 1:
            unrec.append("Dispatch::%s issues on_register_dispatch %s times (expected once)" % (k, install_counts.get(k)))
    G.append("Definition gen_try_lock_order : string := %s.\n" % coq_str(tl_order))
    G.append("Definition gen_unrecognised : list string :=\n  [" + "; ".join(coq_str(u[:200]) for u in unrec) + "].")
    text = "\n".join(G) + "\n"
    if out:
        with open(out, "w") as f:
            f.write(text)
    return text, unrec


def table(repo):
    """Python view of the rows, for the driver: {(wrapper, trait, method): class-term}."""
    text, unrec = main(repo, None)
    rows = {}
    m = re.search(r"Definition gen_rows.*?:=\n(.*?)\]\.\n", text, re.S)
    for line in m.group(1).split("\n"):
        mm = re.match(r'\s*[\[;] \("([^"]*)", (T\w+), "([^"]*)", (.*)\)\s*$', line)
        if mm:
            rows[(mm.group(1), mm.group(2), mm.group(3))] = mm.group(4)
    return rows, unrec


if __name__ == "__main__":
    repo = sys.argv[1] if len(sys.argv) > 1 else "/repo"
    text, unrec = main(repo, None)
    sys.stdout.write(text)
    if unrec:
        sys.stderr.write("UNRECOGNISED:\n  " + "\n  ".join(unrec) + "\n")
