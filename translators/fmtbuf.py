"""C13 translator: reads the buffer / write protocol of `fmt_subscriber.rs::on_event` and emits
coq/gen/Gen_fmtbuf.v:

    clear_policy : policy        ClearAfterOnly | ClearBefore | ClearGuard   (BufferModel.v explains them)
    tee_runs_both : bool         `impl_tee!` calls BOTH writers of a `Tee` before propagating an error
                                 (true) or returns at the first error (false)   (WriterModel.tee_apply)
    pretty_root_falls_back : bool  Pretty's own span lookup `event.parent().and_then(..).or_else(lookup_current)` (true: an
                                 explicit-root event is printed inside the thread's current spans) or `ctx.parent_span()` (false)
    on_record_atomic : bool      on_record takes `span.extensions_mut()` BEFORE it reads the stored FormattedFields and keeps it until
                                 add_fields has appended in place (concurrent record calls on one span are serialised)
    record_unwind_poisons : bool on_record runs the recorded value's Debug under the extensions write guard AND the registry
                                 unwraps the lock result (`.expect("Mutex poisoned")`): a caught panic there makes the span unusable
    timer_fallback : bool        Format::format_timestamp prints "<unknown time>" when the timer returns Err (both the ANSI and the plain
                                 branch) instead of bailing with `?`; Full, Compact and Pretty call it exactly once, first
    json_timer_bails : bool      Format<Json>::format_event has `self.timer.format_time(..)?` (the record is dropped when the timer fails)
    gen_unrecognised : list string

The model in Fmt/BufferModel.v hard-wires the rest of the protocol (thread-local `RefCell<String>`,
`try_borrow_mut` with a fresh `String` fallback, format into it, on Ok ONE `make_writer_for(event.metadata())`
and ONE `write_all(.., buf.as_bytes())`, the `log_internal_errors` branch, the trailing `clear`).  Every one
of those shapes is checked here, in order; whatever is not found where expected is listed in
`gen_unrecognised`, which breaks `C13_translator_recognised_everything` and the translator tie (fails
closed).  Only the place(s) where the buffer is cleared select between the three policies."""
import os
import re
import sys

sys.path.insert(0, os.path.dirname(os.path.abspath(__file__)))
from rsparse import strip_comments, find_blocks, fns_in, norm, coq_str  # noqa: E402

FILE = "tracing-subscriber/src/fmt/fmt_subscriber.rs"
WFILE = "tracing-subscriber/src/fmt/writer.rs"
FMOD = "tracing-subscriber/src/fmt/format/mod.rs"
FPRETTY = "tracing-subscriber/src/fmt/format/pretty.rs"
CTXFILE = "tracing-subscriber/src/subscribe/context.rs"


def on_event_body(src):
    for m, b, _, _ in find_blocks(src, r"impl<C, N, E, W> subscribe::Subscribe<C> for Subscriber<C, N, E, W>[^{]*\{"):
        f = fns_in(b)
        if "on_event" in f and f["on_event"][1] is not None:
            return f["on_event"][1]
    return None


def analyse(repo):
    unrec = []
    src = strip_comments(open(os.path.join(repo, FILE)).read())
    body = on_event_body(src)
    if body is None:
        return "ClearAfterOnly", ["fn on_event of impl Subscribe for fmt::Subscriber not found"]
    t = norm(body)
    pos = 0

    def expect(rx, what, advance=True):
        nonlocal pos
        m = re.compile(rx).search(t, pos)
        if not m:
            unrec.append(what)
            return None
        if advance:
            pos = m.end()
        return m

    expect(r"thread_local! \{ static BUF: RefCell<String> = const \{ RefCell::new\(String::new\(\)\) \}; \}", "thread-local BUF: RefCell<String>")
    expect(r"BUF\.with\(\|buf\| \{", "BUF.with(|buf| {")
    expect(r"let borrow = buf\.try_borrow_mut\(\);", "try_borrow_mut")
    sel = expect(r"let mut buf = match borrow \{ Ok\(buf\) => \{ a = buf; &mut \*a \} _ => \{ b = String::new\(\); &mut b \} \};",
                 "buffer selection (thread-local, or a fresh String when already borrowed)")
    sel_end = pos
    fmt = expect(r"if self \.fmt_event \.format_event\( &ctx, format::Writer::new\(&mut buf\)\.with_ansi\(self\.is_ansi\), event, \) \.is_ok\(\) \{",
                 "format_event into the selected buffer")
    fmt_start = fmt.start() if fmt else pos
    between = t[sel_end:fmt_start]
    expect(r"let mut writer = self\.make_writer\.make_writer_for\(event\.metadata\(\)\);", "Ok branch: one make_writer_for(event.metadata())")
    expect(r"let res = io::Write::write_all\(&mut writer, buf\.as_bytes\(\)\);", "Ok branch: one write_all(buf.as_bytes())")
    ok_end = pos
    els = expect(r"\} else if self\.log_internal_errors \{", "else-if log_internal_errors branch")
    if els:
        okb = t[ok_end:els.start()]
        if re.search(r"make_writer|write_all|\.write\(|write!|writeln!|\.flush\(", okb):
            unrec.append("Ok branch: extra writer call after the write_all")
        # the io::Result of the write is ignored except for a report on stderr: no retry, no early return, no state
        if not re.fullmatch(r"\s*if self\.log_internal_errors \{ if let Err\(e\) = res \{ eprintln!\((?:[^()]|\([^()]*\))*\); \} \}\s*", okb):
            unrec.append("Ok branch: what follows the write_all is not `if log_internal_errors { if let Err(e) = res { eprintln!(..) } }`: `%s`" % okb.strip()[:100])
    expect(r"let mut writer = self\.make_writer\.make_writer_for\(event\.metadata\(\)\);", "error branch: make_writer_for(event.metadata())")
    expect(r"let res = io::Write::write_all\(&mut writer, err_msg\.as_bytes\(\)\);", "error branch: write_all(err_msg)")
    expect(r"if let Err\(e\) = res \{ eprintln!\((?:[^()]|\([^()]*\))*\); \}", "error branch: the write's result is only reported on stderr", advance=False)
    # the if/else chain closes, then the tail of the closure
    tail_m = re.compile(r"\} \} (.*)\}\);$").search(t, pos)
    tail = tail_m.group(1).strip() if tail_m else None
    if tail is None:
        unrec.append("tail of the BUF.with closure")
        tail = ""
    # ---- where is the buffer cleared?
    between_s = between.strip()
    guard = re.search(r"impl(?:<[^>]*>)? Drop for (\w+)", t)
    clear_before = False
    clear_guard = False
    if guard:
        # a drop guard owning/borrowing the buffer, created between selection and format_event, clearing in drop()
        gname = guard.group(1)
        drop_ok = re.search(r"fn drop\(&mut self\) \{[^}]*\.clear\(\);[^}]*\}", t) is not None
        made = re.search(r"let (?:mut )?\w+ = %s\b" % gname, between) is not None
        if drop_ok and made:
            clear_guard = True
        else:
            unrec.append("drop guard `%s` found but not in the expected shape (cleared in drop, created before format_event)" % gname)
    else:
        if between_s == "let ctx = self.make_ctx(ctx, event);":
            pass
        elif between_s in ("buf.clear(); let ctx = self.make_ctx(ctx, event);", "let ctx = self.make_ctx(ctx, event); buf.clear();"):
            clear_before = True
        else:
            unrec.append("statements between buffer selection and format_event: `%s`" % between_s[:120])
    clear_after = tail == "buf.clear();"
    if tail not in ("buf.clear();", "") or (tail == "" and not clear_guard):
        unrec.append("closure tail is `%s` (expected `buf.clear();`)" % tail[:80])
    if clear_guard:
        policy = "ClearGuard"
    elif clear_before:
        policy = "ClearBefore"
    else:
        policy = "ClearAfterOnly"
    if not clear_guard and not clear_after:
        unrec.append("the buffer is not cleared after the write")
    return policy, unrec


def block_of(src, header_re):
    for _, b, _, _ in find_blocks(src, header_re):
        return b
    return None


def analyse_writer(repo):
    """how the writer values forward io::Write (writer.rs): the Tee macro, Tee / EitherWriter / MutexGuardWriter impls"""
    unrec = []
    src = strip_comments(open(os.path.join(repo, WFILE)).read())
    both = False
    mac = block_of(src, r"macro_rules!\s+impl_tee\s*\{")
    if mac is None:
        unrec.append("macro impl_tee! not found")
    else:
        m = norm(mac)
        run_both = r"\(\$self_:ident\.\$f:ident\(\$\(\$arg:ident\),\*\)\) => \{ \{ let res_a = \$self_\.a\.\$f\(\$\(\$arg\),\*\); let res_b = \$self_\.b\.\$f\(\$\(\$arg\),\*\); \(res_a\?, res_b\?\) \} \}"
        short = r"\(\$self_:ident\.\$f:ident\(\$\(\$arg:ident\),\*\)\) => \{ \{? ?\(\$self_\.a\.\$f\(\$\(\$arg\),\*\)\?, \$self_\.b\.\$f\(\$\(\$arg\),\*\)\?\) ?\}? \}"
        if re.fullmatch(run_both, m):
            both = True
        elif re.fullmatch(short, m):
            both = False      # a recognised variant: `a`'s error returns before `b` is called
        else:
            unrec.append("impl_tee! body is neither `let res_a = a.f(); let res_b = b.f(); (res_a?, res_b?)` nor `(a.f()?, b.f()?)`: `%s`" % m[:140])
    tee = block_of(src, r"impl<A, B> io::Write for Tee<A, B>[^{]*\{")
    if tee is None:
        unrec.append("impl io::Write for Tee not found")
    else:
        f = fns_in(tee)
        want = {"write": r"let \(a, b\) = impl_tee!\(self\.write\(buf\)\); Ok\(std::cmp::max\(a, b\)\)",
                "flush": r"impl_tee!\(self\.flush\(\)\); Ok\(\(\)\)",
                "write_vectored": r"let \(a, b\) = impl_tee!\(self\.write_vectored\(bufs\)\); Ok\(std::cmp::max\(a, b\)\)",
                "write_all": r"impl_tee!\(self\.write_all\(buf\)\); Ok\(\(\)\)",
                "write_fmt": r"impl_tee!\(self\.write_fmt\(fmt\)\); Ok\(\(\)\)"}
        for name, rx in want.items():
            if name not in f or f[name][1] is None or not re.fullmatch(rx, norm(f[name][1])):
                unrec.append("Tee::%s is not the impl_tee! forwarding the model assumes" % name)
    ei = block_of(src, r"impl<A, B> io::Write for EitherWriter<A, B>[^{]*\{")
    if ei is None:
        unrec.append("impl io::Write for EitherWriter not found")
    else:
        f = fns_in(ei)
        for name, arg in (("write", "buf"), ("flush", ""), ("write_vectored", "bufs"), ("write_all", "buf"), ("write_fmt", "fmt")):
            rx = r"match self \{ EitherWriter::A\(a\) => a\.%s\(%s\), EitherWriter::B\(b\) => b\.%s\(%s\), \}" % (name, arg, name, arg)
            if name not in f or f[name][1] is None or not re.fullmatch(rx, norm(f[name][1])):
                unrec.append("EitherWriter::%s does not forward to the selected variant's %s" % (name, name))
    mg = block_of(src, r"impl<W> io::Write for MutexGuardWriter<'_, W>[^{]*\{")
    if mg is None:
        unrec.append("impl io::Write for MutexGuardWriter not found")
    else:
        f = fns_in(mg)
        for name, arg in (("write", "buf"), ("flush", ""), ("write_vectored", "bufs"), ("write_all", "buf"), ("write_fmt", "fmt")):
            if name not in f or f[name][1] is None or norm(f[name][1]) != "self.0.%s(%s)" % (name, arg):
                unrec.append("MutexGuardWriter::%s does not forward to the guarded writer" % name)
    return both, unrec


def fn_body_in_impl(src, impl_re, name):
    for _, b, _, _ in find_blocks(src, impl_re):
        f = fns_in(b)
        if name in f and f[name][1] is not None:
            return norm(f[name][1])
    return None


def analyse_scope(repo):
    """which spans each text formatter walks: the EVENT's scope (explicit parent first, nothing for an explicit root,
    else the current span) -- Context::event_span / event_scope, FmtContext::event_scope / parent_span, and their use in
    Format<Full>, Format<Compact>, Format<Pretty>; no sanitising pass between the formatter and the buffer"""
    unrec = []
    ctxs = strip_comments(open(os.path.join(repo, CTXFILE)).read())
    es = fn_body_in_impl(ctxs, r"impl<'a, C> Context<'a, C>[^{]*\{", "event_span")
    if es != "if event.is_root() { None } else if event.is_contextual() { self.lookup_current() } else { event.parent().and_then(|id| self.span(id)) }":
        unrec.append("Context::event_span is not `root -> None, contextual -> lookup_current, explicit -> span(parent)`: `%s`" % (es or "not found")[:120])
    esc = fn_body_in_impl(ctxs, r"impl<'a, C> Context<'a, C>[^{]*\{", "event_scope")
    if esc != "Some(self.event_span(event)?.scope())":
        unrec.append("Context::event_scope is not `Some(self.event_span(event)?.scope())`")
    subs = strip_comments(open(os.path.join(repo, FILE)).read())
    for name, want in (("parent_span", "self.ctx.event_span(self.event)"), ("event_scope", "self.ctx.event_scope(self.event)")):
        b = fn_body_in_impl(subs, r"impl<C, N> FmtContext<'_, C, N>[^{]*\{", name)
        if b != want:
            unrec.append("FmtContext::%s is not `%s`: `%s`" % (name, want, (b or "not found")[:80]))
    # make_ctx hands the formatter the event itself
    mk = fn_body_in_impl(subs, r"impl<C, N, E, W> Subscriber<C, N, E, W>[^{]*\{", "make_ctx")
    if mk is None or not re.fullmatch(r"FmtContext \{ ctx, fmt_fields: &self\.fmt_fields, event, \}", mk):
        unrec.append("Subscriber::make_ctx is not `FmtContext { ctx, fmt_fields: &self.fmt_fields, event }`")
    mods = strip_comments(open(os.path.join(repo, FMOD)).read())
    full = fn_body_in_impl(mods, r"impl<C, N, T> FormatEvent<C, N> for Format<Full, T>[^{]*\{", "format_event")
    if full is None or full.count("ctx.event_scope()") != 1 or "scope.from_root()" not in full or "lookup_current" in full or "current_span" in full:
        unrec.append("Format<Full>::format_event does not walk `ctx.event_scope()` root first")
    comp = fn_body_in_impl(mods, r"impl<C, N, T> FormatEvent<C, N> for Format<Compact, T>[^{]*\{", "format_event")
    if comp is None or comp.count("ctx.event_scope().into_iter().flat_map(Scope::from_root)") != 1 or "lookup_current" in comp or "current_span" in comp:
        unrec.append("Format<Compact>::format_event does not walk `ctx.event_scope()` root first")
    for nm, body in (("Full", full), ("Compact", comp)):
        if body is not None and body.count("ctx.format_fields(writer.by_ref(), event)") != 1:
            unrec.append("Format<%s>::format_event does not format the event's fields exactly once with the configured field formatter" % nm)
    prs = strip_comments(open(os.path.join(repo, FPRETTY)).read())
    pretty = fn_body_in_impl(prs, r"impl<C, N, T> FormatEvent<C, N> for Format<Pretty, T>[^{]*\{", "format_event")
    fallback = True
    if pretty is None:
        unrec.append("Format<Pretty>::format_event not found")
    else:
        own = "let span = event .parent() .and_then(|id| ctx.span(id)) .or_else(|| ctx.lookup_current());"
        via = "let span = ctx.parent_span();"
        if own in pretty and pretty.count("lookup_current") == 1:
            fallback = True
        elif via in pretty and "lookup_current" not in pretty:
            fallback = False
        else:
            unrec.append("Format<Pretty>::format_event: span lookup is neither its own `event.parent()..or_else(lookup_current)` nor `ctx.parent_span()`")
        if "let scope = span.into_iter().flat_map(|span| span.scope());" not in pretty or "from_root" in pretty:
            unrec.append("Format<Pretty>::format_event does not walk the span's scope leaf first")
        if pretty.count("event.record(&mut v);") != 1:
            unrec.append("Format<Pretty>::format_event does not record the event's fields exactly once")
    return fallback, unrec


def analyse_on_record(repo):
    """fmt::Subscriber::on_record: is the span's extensions WRITE lock held across the read - append - store of the formatted
    fields?  (same shape check as translators/json_fmt.py gen_on_record_atomic, C14)"""
    unrec = []
    subs = strip_comments(open(os.path.join(repo, FILE)).read())
    orb = fn_body_in_impl(subs, r"impl<C, N, E, W> subscribe::Subscribe<C> for Subscriber<C, N, E, W>[^{]*\{", "on_record") or ""
    atomic = bool(re.search(
        r'^let span = ctx\.span\(id\)\.expect\("[^"]*"\); let mut extensions = span\.extensions_mut\(\); '
        r'if let Some\(fields\) = extensions\.get_mut::<FormattedFields<N>>\(\) \{ let _ = self\.fmt_fields\.add_fields\(fields, values\); return; \}', orb)) \
        and orb.count("extensions_mut()") == 1 and ".extensions()" not in orb
    split = bool(re.search(r"span \.extensions\(\) \.get::<FormattedFields<N>>\(\)", orb)) and "extensions_mut().replace(" in orb
    if not atomic and not split:
        unrec.append("on_record: neither `extensions_mut()` held across `add_fields(fields, values)` nor the read-copy-replace form: `%s`" % orb[:120])
    nsb = fn_body_in_impl(subs, r"impl<C, N, E, W> subscribe::Subscribe<C> for Subscriber<C, N, E, W>[^{]*\{", "on_new_span") or ""
    if "if extensions.get_mut::<FormattedFields<N>>().is_none()" not in nsb or nsb.count("extensions_mut()") != 1:
        unrec.append("on_new_span: the span's fields are not formatted once, under `extensions_mut()`, guarded by `is_none()`")
    # registry/sharded.rs: SpanRef::extensions()/extensions_mut() unwrap the (std) lock result
    reg = strip_comments(open(os.path.join(repo, "tracing-subscriber/src/registry/sharded.rs")).read())
    nreg = norm(reg)
    ext = 'fn extensions(&self) -> Extensions<\'_> { Extensions::new(self.inner.extensions.read().expect("Mutex poisoned")) }' in nreg
    extm = 'fn extensions_mut(&self) -> ExtensionsMut<\'_> { ExtensionsMut::new(self.inner.extensions.write().expect("Mutex poisoned")) }' in nreg
    recover = "into_inner" in "".join(m.group(0) for m in re.finditer(r"fn extensions(?:_mut)?\(&self\)[^}]*\}", norm(reg)))
    if not (ext and extm) and not recover:
        unrec.append("registry/sharded.rs: extensions()/extensions_mut() neither unwrap the lock result with .expect(\"Mutex poisoned\") nor recover it")
    global _POISONS
    _POISONS = bool(atomic and ext and extm)
    return atomic, unrec


_POISONS = True


def analyse_on_close(repo):
    """fmt::Subscriber::on_close / on_new_span: which branch structure decides whether the configured `close` record is written?
    tree:   if trace_close() { if let Some(timing) = ext.get::<Timings>() { TIMED } else { PLAIN } }           -> gated = False
    other:  if trace_close() { if fmt_timing { if let Some(timing) = .. { TIMED } } else { PLAIN } }            -> gated = True
            (a span without the Timings extension gets no close record while timing is on)
    and on_new_span stores Timings only `if fmt_timing && trace_close() [&& not there yet]` (at span creation).  Anything else: unrecognised."""
    unrec = []
    subs = strip_comments(open(os.path.join(repo, FILE)).read())
    IMPL = r"impl<C, N, E, W> subscribe::Subscribe<C> for Subscriber<C, N, E, W>[^{]*\{"
    ocb = fn_body_in_impl(subs, IMPL, "on_close") or ""
    TIMED = (r'let Timings \{ busy, mut idle, last,? \} = \*timing; idle \+= \(Instant::now\(\) - last\)\.as_nanos\(\) as u64; '
             r'let t_idle = field::display\(TimingDisplay\(idle\)\); let t_busy = field::display\(TimingDisplay\(busy\)\); '
             r'with_event_from_span!\( id, span, "message" = "close", "time\.busy" = t_busy, "time\.idle" = t_idle, '
             r'\|event\| \{ drop\(extensions\); drop\(span\); self\.on_event\(&event, ctx\); \} \);')
    PLAIN = r'with_event_from_span!\(id, span, "message" = "close", \|event\| \{ drop\(extensions\); drop\(span\); self\.on_event\(&event, ctx\); \}\);'
    HEAD = r'^if self\.fmt_span\.trace_close\(\) \{ let span = ctx\.span\(&id\)\.expect\("[^"]*"\); let extensions = span\.extensions\(\); '
    IFLET = r'if let Some\(timing\) = extensions\.get::<Timings>\(\) \{ ' + TIMED + r' \}'
    tree = re.search(HEAD + IFLET + r' else \{ ' + PLAIN + r' \} \}$', ocb)
    gated = re.search(HEAD + r'if self\.fmt_span\.fmt_timing \{ ' + IFLET + r' \} else \{ ' + PLAIN + r' \} \}$', ocb)
    if not tree and not gated:
        unrec.append("on_close is neither `if trace_close() { if let Some(timing) = ext.get::<Timings>() { timed close } else { plain close } }` "
                     "nor the fmt_timing-gated form: `%s`" % ocb[:160])
    nsb = fn_body_in_impl(subs, IMPL, "on_new_span") or ""
    if not re.search(r'if self\.fmt_span\.fmt_timing && self\.fmt_span\.trace_close\(\) (&& extensions\.get_mut::<Timings>\(\)\.is_none\(\) )?'
                     r'\{ extensions\.insert\(Timings::new\(\)\); \}', nsb) or nsb.count("Timings::new()") != 1:
        unrec.append("on_new_span does not store Timings exactly `if fmt_timing && trace_close()` (at span creation)")
    if not re.search(r'if self\.fmt_span\.trace_new\(\) \{ with_event_from_span!\(id, span, "message" = "new", \|event\| \{ drop\(extensions\); drop\(span\); '
                     r'self\.on_event\(&event, ctx\); \}\); \}$', nsb):
        unrec.append("on_new_span does not end with `if trace_new() { new record through on_event }`")
    for nm, other in (("enter", "idle"), ("exit", "busy")):
        b = fn_body_in_impl(subs, IMPL, "on_" + nm) or ""
        if not re.search(r'^if self\.fmt_span\.trace_%s\(\) \|\| self\.fmt_span\.trace_close\(\) && self\.fmt_span\.fmt_timing \{' % nm, b) \
                or not re.search(r'if self\.fmt_span\.trace_%s\(\) \{ with_event_from_span!\(id, span, "message" = "%s", \|event\| \{ drop\(extensions\); '
                                 r'drop\(span\); self\.on_event\(&event, ctx\); \}\); \} \}$' % (nm, nm), b) or "Timings::new" in b:
            unrec.append("on_%s is not `if trace_%s() || trace_close() && fmt_timing { update Timings if present; if trace_%s() { %s record } }`" % (nm, nm, nm, nm))
    sse = None
    for _, b, _, _ in find_blocks(subs, r"impl<C, N, E, W> Subscriber<C, N, E, W>[^{]*\{"):
        f = fns_in(b)
        if "set_span_events" in f and f["set_span_events"][1] is not None:
            sse = norm(f["set_span_events"][1])
    if sse is None or not re.search(r'^self\.fmt_span = format::FmtSpanConfig \{ kind, fmt_timing: self\.fmt_span\.fmt_timing,? \}$', sse):
        unrec.append("set_span_events does not replace exactly the span-event kind (keeping fmt_timing): `%s`" % (sse or "not found")[:120])
    return bool(gated), unrec


def analyse_timer(repo):
    unrec = []
    mods = strip_comments(open(os.path.join(repo, FMOD)).read())
    ft = None
    for _, b_, _, _ in find_blocks(mods, r"impl<F, T> Format<F, T>[^{]*\{"):
        f = fns_in(b_)
        if "format_timestamp" in f and f["format_timestamp"][1] is not None:
            ft = norm(f["format_timestamp"][1])
    fallback = False
    if ft is None:
        unrec.append("Format::format_timestamp not found")
    else:
        n_fb = ft.count('if self.timer.format_time(writer).is_err() { writer.write_str("<unknown time>")?; }')
        n_calls = ft.count("self.timer.format_time(")
        if n_fb == n_calls and n_calls in (1, 2) and "format_time(writer)?" not in ft:
            fallback = True
        elif "self.timer.format_time(writer)?;" in ft and n_fb == 0:
            fallback = False      # a recognised variant: the timer's error fails format_event as a whole
        else:
            unrec.append("format_timestamp: the timer call is neither guarded by the `<unknown time>` fallback everywhere nor `?` everywhere: `%s`" % ft[:160])
        if not ft.startswith("if !self.display_timestamp { return Ok(()); }"):
            unrec.append("format_timestamp does not start with the display_timestamp guard")
    for nm, rx in (("Full", r"impl<C, N, T> FormatEvent<C, N> for Format<Full, T>[^{]*\{"), ("Compact", r"impl<C, N, T> FormatEvent<C, N> for Format<Compact, T>[^{]*\{")):
        body = fn_body_in_impl(mods, rx, "format_event") or ""
        if body.count("self.format_timestamp(&mut writer)?;") != 1 or "timer.format_time" in body:
            unrec.append("Format<%s>::format_event does not call format_timestamp exactly once" % nm)
    prs = strip_comments(open(os.path.join(repo, FPRETTY)).read())
    body = fn_body_in_impl(prs, r"impl<C, N, T> FormatEvent<C, N> for Format<Pretty, T>[^{]*\{", "format_event") or ""
    if body.count("self.format_timestamp(&mut writer)?;") != 1 or "timer.format_time" in body:
        unrec.append("Format<Pretty>::format_event does not call format_timestamp exactly once")
    js = strip_comments(open(os.path.join(repo, "tracing-subscriber/src/fmt/format/json.rs")).read())
    jb = fn_body_in_impl(js, r"impl<C, N, T> FormatEvent<C, N> for Format<Json, T>[^{]*\{", "format_event") or ""
    json_bails = "self.timer.format_time(&mut Writer::new(&mut timestamp))?;" in jb
    if not json_bails and '"<unknown time>"' not in jb:
        unrec.append("Format<Json>::format_event: the timer call is neither `?` nor guarded by a `<unknown time>` fallback")
    return fallback, json_bails, unrec


def main(repo, out):
    policy, unrec = analyse(repo)
    t_fallback, json_bails, unrec_t = analyse_timer(repo)
    unrec = unrec + unrec_t
    rec_atomic, unrec_r = analyse_on_record(repo)
    unrec = unrec + unrec_r
    both, unrec_w = analyse_writer(repo)
    pretty_fallback, unrec_s = analyse_scope(repo)
    unrec = unrec + unrec_w + unrec_s
    close_gated, unrec_c = analyse_on_close(repo)
    unrec = unrec + unrec_c
    lines = [
        "(** GENERATED by translators/fmtbuf.py from %s (fn on_event) -- do not edit. *)" % FILE,
        "From Coq Require Import String List.",
        "From TV Require Import Fmt.BufferModel.",
        "Import ListNotations.",
        "Local Open Scope string_scope.",
        "",
        "(** Where the thread-local format buffer is cleared in the tree under check. *)",
        "Definition clear_policy : policy := %s." % policy,
        "",
        "(** %s: `impl_tee!` (behind every io::Write method of `Tee`) calls both writers, then propagates an error. *)" % WFILE,
        "Definition tee_runs_both : bool := %s." % ("true" if both else "false"),
        "",
        "(** %s on_record: the extensions write lock is held across read - append - store of the span's formatted fields. *)" % FILE,
        "Definition on_record_atomic : bool := %s." % ("true" if rec_atomic else "false"),
        "",
        "(** %s format_timestamp: a failing timer is replaced by <unknown time>, the record is kept. *)" % FMOD,
        "Definition timer_fallback : bool := %s." % ("true" if t_fallback else "false"),
        "Definition json_timer_bails : bool := %s." % ("true" if json_bails else "false"),
        "",
        "(** a caught panic of a recorded value's Debug impl poisons the span's extensions lock (std locks). *)",
        "Definition record_unwind_poisons : bool := %s." % ("true" if _POISONS else "false"),
        "",
        "(** %s: Format<Pretty> looks its span up itself and falls back to the current span for an explicit root. *)" % FPRETTY,
        "Definition pretty_root_falls_back : bool := %s." % ("true" if pretty_fallback else "false"),
        "",
        "(** %s on_close: the close record is written only when the span carries Timings while fmt_timing is on (false: always when CLOSE is configured). *)" % FILE,
        "Definition close_timing_gated : bool := %s." % ("true" if close_gated else "false"),
        "",
        "Definition gen_unrecognised : list string := [%s]." % "; ".join(coq_str(u) for u in unrec),
        "",
    ]
    text = "\n".join(lines)
    if out:
        with open(out, "w") as f:
            f.write(text)
    return text, unrec


if __name__ == "__main__":
    repo = sys.argv[1] if len(sys.argv) > 1 else "/repo"
    text, unrec = main(repo, None)
    sys.stdout.write(text)
    if unrec:
        sys.stderr.write("UNRECOGNISED: %s\n" % unrec)
