"""C13 translator: reads the buffer / write protocol of `fmt_subscriber.rs::on_event` and emits
coq/gen/Gen_fmtbuf.v:

    clear_policy : policy        ClearAfterOnly | ClearBefore | ClearGuard   (BufferModel.v explains them)
    tee_runs_both : bool         `impl_tee!` calls BOTH writers of a `Tee` before propagating an error
                                 (true) or returns at the first error (false)   (WriterModel.tee_apply)
    gen_unrecognised : list string

The model in Fmt/BufferModel.v hard-wires the rest of the protocol (thread-local `RefCell<String>`,
`try_borrow_mut` with a fresh `String` fallback, format into it, on Ok ONE `make_writer_for(event.metadata())`
and ONE `write_all(.., buf.as_bytes())`, the `log_internal_errors` branch, the trailing `clear`).  Every one
of those shapes is checked here, in order; whatever is not found where expected is listed in
`gen_unrecognised`, which breaks `C13_translator_recognised_everything` and the translator tie (fails
closed).  Only the place(s) where the buffer is cleared select between the three policies."""
import os
import re
import sys

sys.path.insert(0, os.path.dirname(os.path.abspath(__file__)))
from rsparse import strip_comments, find_blocks, fns_in, norm, coq_str  # noqa: E402

FILE = "tracing-subscriber/src/fmt/fmt_subscriber.rs"
WFILE = "tracing-subscriber/src/fmt/writer.rs"


def on_event_body(src):
    for m, b, _, _ in find_blocks(src, r"impl<C, N, E, W> subscribe::Subscribe<C> for Subscriber<C, N, E, W>[^{]*\{"):
        f = fns_in(b)
        if "on_event" in f and f["on_event"][1] is not None:
            return f["on_event"][1]
    return None


def analyse(repo):
    unrec = []
    src = strip_comments(open(os.path.join(repo, FILE)).read())
    body = on_event_body(src)
    if body is None:
        return "ClearAfterOnly", ["fn on_event of impl Subscribe for fmt::Subscriber not found"]
    t = norm(body)
    pos = 0

    def expect(rx, what, advance=True):
        nonlocal pos
        m = re.compile(rx).search(t, pos)
        if not m:
            unrec.append(what)
            return None
        if advance:
            pos = m.end()
        return m

    expect(r"thread_local! \{ static BUF: RefCell<String> = const \{ RefCell::new\(String::new\(\)\) \}; \}", "thread-local BUF: RefCell<String>")
    expect(r"BUF\.with\(\|buf\| \{", "BUF.with(|buf| {")
    expect(r"let borrow = buf\.try_borrow_mut\(\);", "try_borrow_mut")
    sel = expect(r"let mut buf = match borrow \{ Ok\(buf\) => \{ a = buf; &mut \*a \} _ => \{ b = String::new\(\); &mut b \} \};",
                 "buffer selection (thread-local, or a fresh String when already borrowed)")
    sel_end = pos
    fmt = expect(r"if self \.fmt_event \.format_event\( &ctx, format::Writer::new\(&mut buf\)\.with_ansi\(self\.is_ansi\), event, \) \.is_ok\(\) \{",
                 "format_event into the selected buffer")
    fmt_start = fmt.start() if fmt else pos
    between = t[sel_end:fmt_start]
    expect(r"let mut writer = self\.make_writer\.make_writer_for\(event\.metadata\(\)\);", "Ok branch: one make_writer_for(event.metadata())")
    expect(r"let res = io::Write::write_all\(&mut writer, buf\.as_bytes\(\)\);", "Ok branch: one write_all(buf.as_bytes())")
    ok_end = pos
    els = expect(r"\} else if self\.log_internal_errors \{", "else-if log_internal_errors branch")
    if els:
        okb = t[ok_end:els.start()]
        if re.search(r"make_writer|write_all|\.write\(|write!|writeln!|\.flush\(", okb):
            unrec.append("Ok branch: extra writer call after the write_all")
        # the io::Result of the write is ignored except for a report on stderr: no retry, no early return, no state
        if not re.fullmatch(r"\s*if self\.log_internal_errors \{ if let Err\(e\) = res \{ eprintln!\((?:[^()]|\([^()]*\))*\); \} \}\s*", okb):
            unrec.append("Ok branch: what follows the write_all is not `if log_internal_errors { if let Err(e) = res { eprintln!(..) } }`: `%s`" % okb.strip()[:100])
    expect(r"let mut writer = self\.make_writer\.make_writer_for\(event\.metadata\(\)\);", "error branch: make_writer_for(event.metadata())")
    expect(r"let res = io::Write::write_all\(&mut writer, err_msg\.as_bytes\(\)\);", "error branch: write_all(err_msg)")
    expect(r"if let Err\(e\) = res \{ eprintln!\((?:[^()]|\([^()]*\))*\); \}", "error branch: the write's result is only reported on stderr", advance=False)
    # the if/else chain closes, then the tail of the closure
    tail_m = re.compile(r"\} \} (.*)\}\);$").search(t, pos)
    tail = tail_m.group(1).strip() if tail_m else None
    if tail is None:
        unrec.append("tail of the BUF.with closure")
        tail = ""
    # ---- where is the buffer cleared?
    between_s = between.strip()
    guard = re.search(r"impl(?:<[^>]*>)? Drop for (\w+)", t)
    clear_before = False
    clear_guard = False
    if guard:
        # a drop guard owning/borrowing the buffer, created between selection and format_event, clearing in drop()
        gname = guard.group(1)
        drop_ok = re.search(r"fn drop\(&mut self\) \{[^}]*\.clear\(\);[^}]*\}", t) is not None
        made = re.search(r"let (?:mut )?\w+ = %s\b" % gname, between) is not None
        if drop_ok and made:
            clear_guard = True
        else:
            unrec.append("drop guard `%s` found but not in the expected shape (cleared in drop, created before format_event)" % gname)
    else:
        if between_s == "let ctx = self.make_ctx(ctx, event);":
            pass
        elif between_s in ("buf.clear(); let ctx = self.make_ctx(ctx, event);", "let ctx = self.make_ctx(ctx, event); buf.clear();"):
            clear_before = True
        else:
            unrec.append("statements between buffer selection and format_event: `%s`" % between_s[:120])
    clear_after = tail == "buf.clear();"
    if tail not in ("buf.clear();", "") or (tail == "" and not clear_guard):
        unrec.append("closure tail is `%s` (expected `buf.clear();`)" % tail[:80])
    if clear_guard:
        policy = "ClearGuard"
    elif clear_before:
        policy = "ClearBefore"
    else:
        policy = "ClearAfterOnly"
    if not clear_guard and not clear_after:
        unrec.append("the buffer is not cleared after the write")
    return policy, unrec


def block_of(src, header_re):
    for _, b, _, _ in find_blocks(src, header_re):
        return b
    return None


def analyse_writer(repo):
    """how the writer values forward io::Write (writer.rs): the Tee macro, Tee / EitherWriter / MutexGuardWriter impls"""
    unrec = []
    src = strip_comments(open(os.path.join(repo, WFILE)).read())
    both = False
    mac = block_of(src, r"macro_rules!\s+impl_tee\s*\{")
    if mac is None:
        unrec.append("macro impl_tee! not found")
    else:
        m = norm(mac)
        run_both = r"\(\$self_:ident\.\$f:ident\(\$\(\$arg:ident\),\*\)\) => \{ \{ let res_a = \$self_\.a\.\$f\(\$\(\$arg\),\*\); let res_b = \$self_\.b\.\$f\(\$\(\$arg\),\*\); \(res_a\?, res_b\?\) \} \}"
        short = r"\(\$self_:ident\.\$f:ident\(\$\(\$arg:ident\),\*\)\) => \{ \{? ?\(\$self_\.a\.\$f\(\$\(\$arg\),\*\)\?, \$self_\.b\.\$f\(\$\(\$arg\),\*\)\?\) ?\}? \}"
        if re.fullmatch(run_both, m):
            both = True
        elif re.fullmatch(short, m):
            both = False      # a recognised variant: `a`'s error returns before `b` is called
        else:
            unrec.append("impl_tee! body is neither `let res_a = a.f(); let res_b = b.f(); (res_a?, res_b?)` nor `(a.f()?, b.f()?)`: `%s`" % m[:140])
    tee = block_of(src, r"impl<A, B> io::Write for Tee<A, B>[^{]*\{")
    if tee is None:
        unrec.append("impl io::Write for Tee not found")
    else:
        f = fns_in(tee)
        want = {"write": r"let \(a, b\) = impl_tee!\(self\.write\(buf\)\); Ok\(std::cmp::max\(a, b\)\)",
                "flush": r"impl_tee!\(self\.flush\(\)\); Ok\(\(\)\)",
                "write_vectored": r"let \(a, b\) = impl_tee!\(self\.write_vectored\(bufs\)\); Ok\(std::cmp::max\(a, b\)\)",
                "write_all": r"impl_tee!\(self\.write_all\(buf\)\); Ok\(\(\)\)",
                "write_fmt": r"impl_tee!\(self\.write_fmt\(fmt\)\); Ok\(\(\)\)"}
        for name, rx in want.items():
            if name not in f or f[name][1] is None or not re.fullmatch(rx, norm(f[name][1])):
                unrec.append("Tee::%s is not the impl_tee! forwarding the model assumes" % name)
    ei = block_of(src, r"impl<A, B> io::Write for EitherWriter<A, B>[^{]*\{")
    if ei is None:
        unrec.append("impl io::Write for EitherWriter not found")
    else:
        f = fns_in(ei)
        for name, arg in (("write", "buf"), ("flush", ""), ("write_vectored", "bufs"), ("write_all", "buf"), ("write_fmt", "fmt")):
            rx = r"match self \{ EitherWriter::A\(a\) => a\.%s\(%s\), EitherWriter::B\(b\) => b\.%s\(%s\), \}" % (name, arg, name, arg)
            if name not in f or f[name][1] is None or not re.fullmatch(rx, norm(f[name][1])):
                unrec.append("EitherWriter::%s does not forward to the selected variant's %s" % (name, name))
    mg = block_of(src, r"impl<W> io::Write for MutexGuardWriter<'_, W>[^{]*\{")
    if mg is None:
        unrec.append("impl io::Write for MutexGuardWriter not found")
    else:
        f = fns_in(mg)
        for name, arg in (("write", "buf"), ("flush", ""), ("write_vectored", "bufs"), ("write_all", "buf"), ("write_fmt", "fmt")):
            if name not in f or f[name][1] is None or norm(f[name][1]) != "self.0.%s(%s)" % (name, arg):
                unrec.append("MutexGuardWriter::%s does not forward to the guarded writer" % name)
    return both, unrec


def main(repo, out):
    policy, unrec = analyse(repo)
    both, unrec_w = analyse_writer(repo)
    unrec = unrec + unrec_w
    lines = [
        "(** GENERATED by translators/fmtbuf.py from %s (fn on_event) -- do not edit. *)" % FILE,
        "From Coq Require Import String List.",
        "From TV Require Import Fmt.BufferModel.",
        "Import ListNotations.",
        "Local Open Scope string_scope.",
        "",
        "(** Where the thread-local format buffer is cleared in the tree under check. *)",
        "Definition clear_policy : policy := %s." % policy,
        "",
        "(** %s: `impl_tee!` (behind every io::Write method of `Tee`) calls both writers, then propagates an error. *)" % WFILE,
        "Definition tee_runs_both : bool := %s." % ("true" if both else "false"),
        "",
        "Definition gen_unrecognised : list string := [%s]." % "; ".join(coq_str(u) for u in unrec),
        "",
    ]
    text = "\n".join(lines)
    if out:
        with open(out, "w") as f:
            f.write(text)
    return text, unrec


if __name__ == "__main__":
    repo = sys.argv[1] if len(sys.argv) > 1 else "/repo"
    text, unrec = main(repo, None)
    sys.stdout.write(text)
    if unrec:
        sys.stderr.write("UNRECOGNISED: %s\n" % unrec)
