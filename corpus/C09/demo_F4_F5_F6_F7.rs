use std::sync::{atomic::{AtomicUsize, Ordering::SeqCst}, Arc};
use tracing_core::{collect::{Collect, Interest}, span, Dispatch, Event, Metadata};
use tracing_subscriber::{prelude::*, subscribe::{Context, Subscribe}, registry, reload};

#[derive(Clone, Default)]
struct Cnt { reg: Arc<AtomicUsize>, sub: Arc<AtomicUsize>, ev: Arc<AtomicUsize>, veto: bool }
impl<C: Collect> Subscribe<C> for Cnt {
    fn on_register_dispatch(&self, _: &Dispatch) { self.reg.fetch_add(1, SeqCst); }
    fn on_subscribe(&mut self, _: &mut C) { self.sub.fetch_add(1, SeqCst); }
    fn event_enabled(&self, _: &Event<'_>, _: Context<'_, C>) -> bool { !self.veto }
    fn on_event(&self, _: &Event<'_>, _: Context<'_, C>) { self.ev.fetch_add(1, SeqCst); }
}
struct Coll(Arc<AtomicUsize>);
impl Collect for Coll {
    fn on_register_dispatch(&self, _: &Dispatch) { self.0.fetch_add(1, SeqCst); }
    fn register_callsite(&self, _: &'static Metadata<'static>) -> Interest { Interest::always() }
    fn enabled(&self, _: &Metadata<'_>) -> bool { true }
    fn new_span(&self, _: &span::Attributes<'_>) -> span::Id { span::Id::from_u64(1) }
    fn record(&self, _: &span::Id, _: &span::Record<'_>) {}
    fn record_follows_from(&self, _: &span::Id, _: &span::Id) {}
    fn event(&self, _: &Event<'_>) {}
    fn enter(&self, _: &span::Id) {}
    fn exit(&self, _: &span::Id) {}
    fn current_span(&self) -> span::Current { span::Current::unknown() }
}
fn main() {
    let n = Arc::new(AtomicUsize::new(0));
    let _d = Dispatch::new(Box::new(Coll(n.clone())));
    let _d2 = Dispatch::new(Arc::new(Coll(n.clone())));
    println!("F4 box+arc on_register_dispatch calls = {} (want 2)", n.load(SeqCst));
    let l = Cnt::default();
    let _d = Dispatch::new(registry().with(l.clone()));
    println!("F6 layer on_register_dispatch calls = {} (want 1)", l.reg.load(SeqCst));
    let l = Cnt { veto: true, ..Default::default() };
    let d = Dispatch::new(registry().with(vec![l.clone()]));
    tracing::dispatch::with_default(&d, || tracing::info!("x"));
    println!("F5 vetoed layer in Vec on_event calls = {} (want 0)", l.ev.load(SeqCst));
    let l = Cnt::default();
    let (r, _h) = reload::Subscriber::new(l.clone());
    let _d = Dispatch::new(registry().with(r));
    println!("F7 reload on_subscribe calls = {} (want 1)", l.sub.load(SeqCst));
}
