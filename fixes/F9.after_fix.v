
(** ---- appended by fixes/F9.flip.py after the F9 repair was committed to /repo ----
    The tree clears the buffer before formatting (or in a drop guard): the statement for the tree under
    check needs no hypothesis on the history — a caught panic during formatting affects no later record.
    (This compiles only when translators/fmtbuf.py finds a repaired policy in fmt_subscriber.rs.) *)
Theorem C13_one_factory_one_write_no_hypothesis : forall (A M : Type) (unw : M -> list A -> bool) (l : bool) (es : list (event A M)),
  snd (run_thread unw (Cfg Gen_fmtbuf.clear_policy l) [] es) = spec_actions (flat_map (records l) es).
Proof. intros A M unw l es. apply panic_safe_when_repaired. vm_compute. discriminate. Qed.
Print Assumptions C13_one_factory_one_write_no_hypothesis.

Theorem C13_F9_history_is_a_regression_case :
  snd (run_thread no_unwind (Cfg Gen_fmtbuf.clear_policy true) [] f9_history)
    = [AMake 1; AWrite 1 [105; 49; 10]; AMake 3; AWrite 3 [99; 51; 10]].
Proof. apply F9_history_repaired. vm_compute. discriminate. Qed.
Print Assumptions C13_F9_history_is_a_regression_case.
