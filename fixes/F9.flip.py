#!/usr/bin/env python3
"""Run ONCE, right after fixes/F9.patch has been committed to /repo:   python3 fixes/F9.flip.py <commit-sha>

  1. appends fixes/F9.after_fix.v (the hypothesis-free theorem for the tree under check + the F9 history as a
     regression lemma) to coq/theories/Properties/C13.v and regenerates coq/pins/Pins_C13.v;
  2. marks known_findings.d/F9.json as fixed (a re-observed F9 shape is then a VIOLATION again);
nothing else has to change: the model is parametric in the clearing policy, translators/fmtbuf.py reads the
policy of the tree on every run (it will now report ClearBefore), the correspondence follows it, and the F9
replay in corpus/C13/ turns into a passing regression case."""
import json
import os
import subprocess
import sys

HERE = os.path.dirname(os.path.abspath(__file__))
ROOT = os.path.dirname(HERE)
sha = sys.argv[1] if len(sys.argv) > 1 else "<sha>"
sys.path.insert(0, os.path.join(ROOT, "translators"))
import fmtbuf  # noqa: E402

policy, unrec = fmtbuf.analyse(os.environ.get("VERIF_REPO", "/repo"))
if policy == "ClearAfterOnly" or unrec:
    sys.exit("the tree still has policy %s (unrecognised: %s): commit fixes/F9.patch first" % (policy, unrec))
p = os.path.join(ROOT, "coq", "theories", "Properties", "C13.v")
s = open(p).read()
if "C13_one_factory_one_write_no_hypothesis" not in s:
    open(p, "w").write(s.rstrip("\n") + "\n" + open(os.path.join(HERE, "F9.after_fix.v")).read())
subprocess.run([sys.executable, os.path.join(ROOT, "driver", "mkpins.py"), "C13"], check=True)
k = os.path.join(ROOT, "known_findings.d", "F9.json")
d = json.load(open(k))
d["status"] = "fixed"
d["commit"] = sha
d.pop("why_not_fixed", None)
json.dump(d, open(k, "w"), indent=1)
print("flipped: policy in tree = %s; now run ./check C13" % policy)
