(* C20 volume driver around the extracted model (musl_model.ml, from coq/theories/Time/Musl.v).
   usage: c20_model (release|debug) <strings-out-file>  < descriptors
   Same descriptor language and the same output format as harness/time/src/bin/h_time.rs:
     P <sec> <nsec>                   |  R <sec0> <step> <count> <nsec>
   one output line per instant: the model's string, or `!panic` when the model returns None.
   Integers are parsed at run time into the extracted inductive Z; nothing is computed natively except
   the arithmetic progression sec0 + i*step (Int64; the driver never lets it overflow). *)
open Musl_model

let rec pos_of_bits (n : int64) : positive =
  (* n <> 0, read as an unsigned 64-bit pattern *)
  if Int64.equal n 1L then XH
  else
    let rest = pos_of_bits (Int64.shift_right_logical n 1) in
    if Int64.equal (Int64.logand n 1L) 1L then XI rest else XO rest

let z_of_int64 (n : int64) : z =
  if Int64.equal n 0L then Z0
  else if Int64.compare n 0L > 0 then Zpos (pos_of_bits n)
  else Zneg (pos_of_bits (Int64.neg n)) (* neg min_int = min_int = bit pattern of 2^63: still right *)

let rec int_of_pos = function XH -> 1 | XO p -> 2 * int_of_pos p | XI p -> (2 * int_of_pos p) + 1
let int_of_z = function Z0 -> 0 | Zpos p -> int_of_pos p | Zneg p -> - int_of_pos p

let () =
  let md = match Sys.argv.(1) with "release" -> release | "debug" -> debug | m -> failwith ("mode " ^ m) in
  let oc = open_out_bin Sys.argv.(2) in
  let buf = Buffer.create 64 in
  let emit sec nsec =
    Buffer.clear buf;
    (match format_system_time md (z_of_int64 sec) (z_of_int64 nsec) with
     | None -> Buffer.add_string buf "!panic"
     | Some cs -> List.iter (fun c -> Buffer.add_char buf (Char.chr (int_of_z c land 255))) cs);
    Buffer.add_char buf '\n';
    Buffer.output_buffer oc buf
  in
  (try
     while true do
       let line = input_line stdin in
       match String.split_on_char ' ' (String.trim line) |> List.filter (fun s -> s <> "") with
       | [ "P"; s; n ] -> emit (Int64.of_string s) (Int64.of_string n)
       | [ "R"; s0; step; count; n ] ->
           let s0 = Int64.of_string s0 and step = Int64.of_string step and n = Int64.of_string n in
           let count = int_of_string count in
           for i = 0 to count - 1 do
             emit (Int64.add s0 (Int64.mul (Int64.of_int i) step)) n
           done
       | [] -> ()
       | _ -> failwith ("bad descriptor: " ^ line)
     done
   with End_of_file -> ());
  close_out oc
