(* Extraction of the C20 model to OCaml for volume runs (millions of instants).  Only ExtrOcamlBasic
   (bool/option/list/prod/unit mapped to OCaml's own); Z, positive, N, nat stay the extracted inductives,
   so every arithmetic step is the Coq library's own definition.  Run by driver/props/c20.py (and
   driver/setup.d/c20_ocaml.py) with coqc in a scratch directory; the .ml lands in the cwd. *)
Require Extraction.
Require Import ExtrOcamlBasic.
From TV Require Import Time.Musl.
Extraction Language OCaml.
Extraction "musl_model.ml" format_system_time release debug.
