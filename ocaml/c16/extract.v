(* Extraction of the C16 model to OCaml for the volume runs (every period boundary of centuries of clock
   readings).  Only ExtrOcamlBasic (bool/option/list/prod/unit mapped to OCaml's own); Z, positive, N, nat,
   ascii, string stay the extracted inductives, so every arithmetic and string step is the Coq library's
   own definition.  Run by driver/props/c16.py with coqc in a scratch directory; the .ml lands in the cwd. *)
Require Extraction.
Require Import ExtrOcamlBasic.
From TV Require Import Appender.RollingModel.
Extraction Language OCaml.
Extraction "rolling_model.ml" init write_x observe.
