(* C16 volume driver around the extracted model (rolling_model.ml, from coq/theories/Appender/RollingModel.v).
   usage: c16_model <out-file>  < descriptors
   Same descriptor language and the same output format as `h_rolling sweep`:
     B <rot m|h|d|n> <max|-> <prefix|-> <suffix|-> <t0> <first> <step> <count>
   = an appender built at clock t0 in an empty directory (exclusive interface), then for i < count the two
   writes at clocks first+i*step-1 (one byte 'x') and first+i*step (one byte 'y').
   Output: a line "# <descriptor>", a line "<t0> <listing>", then one line "<clock> <listing>" per write, where
   <listing> = name:size of every directory entry, sorted by name, joined by ','.
   Integers are parsed at run time into the extracted inductives; nothing of the model is computed natively. *)
open Rolling_model

let rec pos_of_int (n : int) : positive =
  if n = 1 then XH else if n land 1 = 1 then XI (pos_of_int (n lsr 1)) else XO (pos_of_int (n lsr 1))
let z_of_int (n : int) : z = if n = 0 then Z0 else if n > 0 then Zpos (pos_of_int n) else Zneg (pos_of_int (-n))
let n_of_int (n : int) : n = if n = 0 then N0 else Npos (pos_of_int n)
let rec nat_of_int (n : int) : nat = if n <= 0 then O else S (nat_of_int (n - 1))

let ascii_of_char (ch : char) : ascii =
  let c = Char.code ch in
  let b i = c land (1 lsl i) <> 0 in
  Ascii (b 0, b 1, b 2, b 3, b 4, b 5, b 6, b 7)
let char_of_ascii (Ascii (b0, b1, b2, b3, b4, b5, b6, b7)) : char =
  let v b i = if b then 1 lsl i else 0 in
  Char.chr (v b0 0 + v b1 1 + v b2 2 + v b3 3 + v b4 4 + v b5 5 + v b6 6 + v b7 7)
let coq_string (s : Stdlib.String.t) : Rolling_model.string =
  let r = ref EmptyString in
  for i = Stdlib.String.length s - 1 downto 0 do r := String (ascii_of_char s.[i], !r) done;
  !r
let rec add_ocaml_string buf = function
  | EmptyString -> ()
  | String (a, r) -> Buffer.add_char buf (char_of_ascii a); add_ocaml_string buf r
let ocaml_string (s : Rolling_model.string) : Stdlib.String.t =
  let b = Buffer.create 32 in add_ocaml_string b s; Buffer.contents b

let () =
  let oc = open_out_bin Sys.argv.(1) in
  let buf = Buffer.create 256 in
  let emit t s =
    Buffer.clear buf;
    Buffer.add_string buf (string_of_int t);
    Buffer.add_char buf ' ';
    let entries = List.map (fun ((name, content), _) -> (ocaml_string name, List.length content)) (observe s) in
    let entries = List.sort compare entries in
    List.iteri (fun i (n, sz) ->
        if i > 0 then Buffer.add_char buf ',';
        Buffer.add_string buf n; Buffer.add_char buf ':'; Buffer.add_string buf (string_of_int sz)) entries;
    Buffer.add_char buf '\n';
    Buffer.output_buffer oc buf
  in
  (try
     while true do
       let line = Stdlib.String.trim (input_line stdin) in
       match Stdlib.String.split_on_char ' ' line |> List.filter (fun s -> s <> "") with
       | [ "B"; r; mx; p; sf; t0; first; step; count ] ->
           let opt s = if s = "-" then None else Some (coq_string s) in
           let c = { rot = (match r with "m" -> Minutely | "h" -> Hourly | "d" -> Daily | "n" -> Never | _ -> failwith ("rotation " ^ r));
                     prefix0 = opt p; suffix = opt sf;  (* `prefix` is renamed by the extraction: String.prefix exists *)
                     max_files = (if mx = "-" then None else Some (nat_of_int (int_of_string mx)));
                     recheck = true } in
           let t0 = int_of_string t0 and first = int_of_string first and step = int_of_string step and count = int_of_string count in
           output_string oc ("# " ^ line ^ "\n");
           let s = ref (init c [] N0 (z_of_int t0)) in
           emit t0 !s;
           for i = 0 to count - 1 do
             let b = first + (i * step) in
             s := write_x c !s (z_of_int (b - 1)) [ n_of_int 120 ];
             emit (b - 1) !s;
             s := write_x c !s (z_of_int b) [ n_of_int 121 ];
             emit b !s
           done
       | [] -> ()
       | _ -> failwith ("bad descriptor: " ^ line)
     done
   with End_of_file -> ());
  close_out oc
