"""Shared machinery for /verif checks (see DESIGN.md section 3).

Every property module `driver/props/cXX.py` exposes `run(ctx) -> Report`.  This library gives it:

  * Ctx                    tier / seed / repo path / scratch dirs / PRNG
  * gen_if_changed         write a generated file only when its content changed (keeps make quiet)
  * coq_prove              build the .vo closure of a property (full .vo, never -vos), then re-check
                           the pinned statements and `Print Assumptions` of every headline theorem
  * forbidden_scan         grep for Admitted / Axiom / ... over coq/
  * cargo_build / run_bin  build + run harness binaries against the *current* working tree of the repo
  * coq_eval               evaluate model terms with vm_compute in sharded coqc processes
  * parse_coq_term         parse Coq's printed values back into Python data
  * Report / finalize      verdict rules of the brief: KNOWN-FINDING / VIOLATION / no-failing-input-found
"""
import fcntl
import hashlib
import json
import os
import random
import re
import shutil
import subprocess
import sys
import time
from concurrent.futures import ThreadPoolExecutor

VERIF = os.path.dirname(os.path.dirname(os.path.abspath(__file__)))
COQ = os.path.join(VERIF, "coq")
CACHE = os.path.join(VERIF, ".cache")
EVID = os.path.join(VERIF, "evidence")
REPLAYS = os.path.join(EVID, "replays")
GUARD_CFG = "tracing_verif"
NCPU = os.cpu_count() or 4

COQ_FLAGS = ["-Q", os.path.join(COQ, "theories"), "TV", "-Q", os.path.join(COQ, "gen"), "TVGen"]


def set_coq_root(root):
    global COQ
    COQ = root
    COQ_FLAGS[:] = ["-Q", os.path.join(COQ, "theories"), "TV", "-Q", os.path.join(COQ, "gen"), "TVGen"]


# Axioms from Coq's own standard library that a theorem may depend on (DESIGN.md section 9).  Anything
# else reported by Print Assumptions fails the obligation.  Kept deliberately short.
AXIOM_ALLOW = {
    "functional_extensionality_dep",
    "FunctionalExtensionality.functional_extensionality_dep",
    "Coq.Logic.FunctionalExtensionality.functional_extensionality_dep",
}

FORBIDDEN = re.compile(
    r"\b(Admitted|admit|Axiom|Axioms|Parameter|Parameters|Conjecture|Conjectures|Hypothesis|Hypotheses|Variable|Variables|Admit Obligations)\b"
    r"|Unset\s+Guard|Unset\s+Positivity|Unset\s+Universe|bypass_check|type-in-type|impredicative-set|native_compute"
)


class Ctx:
    def __init__(self, prop, tier="quick", seed=None, repo=None, replay=None):
        self.prop = prop
        self.tier = tier
        self.seed = int(seed if seed is not None else os.environ.get("VERIF_SEED", "20260926") or 0)
        self.repo = os.path.abspath(repo or os.environ.get("VERIF_REPO", "/repo"))
        self.replay = replay
        self.rng = random.Random(self.seed)
        self.t0 = time.time()
        key = hashlib.sha1(self.repo.encode()).hexdigest()[:10]
        self.repo_key = "repo" if self.repo == "/repo" else key
        self.target_dir = os.environ.get("VERIF_CARGO_TARGET") or os.path.join(CACHE, "target-" + self.repo_key)
        if self.repo != "/repo":
            # a scratch tree (mutant testing): never touch /verif/coq/gen, work on a private copy of coq/
            root = os.path.join(CACHE, "coq-" + self.repo_key)
            os.makedirs(root, exist_ok=True)
            subprocess.run(["rsync", "-a", "--exclude", "Makefile*", "--exclude", ".Makefile.d", "--exclude", "_CoqProject",
                            os.path.join(VERIF, "coq") + "/", root + "/"], check=True)
            set_coq_root(root)
        self.work = os.path.join(CACHE, "work", self.repo_key, prop)
        os.makedirs(self.work, exist_ok=True)
        os.makedirs(REPLAYS, exist_ok=True)
        self.notes = []

    def thorough(self):
        return self.tier == "thorough"

    def log(self, *a):
        print("[%s %6.1fs]" % (self.prop, time.time() - self.t0), *a, file=sys.stderr, flush=True)


# ------------------------------------------------------------------------------------------------
# small utilities

def read(path):
    with open(path, encoding="utf-8") as f:
        return f.read()


def gen_if_changed(path, content):
    os.makedirs(os.path.dirname(path), exist_ok=True)
    try:
        if read(path) == content:
            return False
    except FileNotFoundError:
        pass
    tmp = path + ".tmp%d" % os.getpid()
    with open(tmp, "w", encoding="utf-8") as f:
        f.write(content)
    os.replace(tmp, path)
    return True


class flock:
    def __init__(self, name):
        os.makedirs(CACHE, exist_ok=True)
        self.path = os.path.join(CACHE, name + ".lock")

    def __enter__(self):
        self.f = open(self.path, "w")
        fcntl.flock(self.f, fcntl.LOCK_EX)

    def __exit__(self, *a):
        fcntl.flock(self.f, fcntl.LOCK_UN)
        self.f.close()


def sh(cmd, timeout, cwd=None, env=None, input=None):
    """Run under a timeout; returns (rc, stdout+stderr).  rc = 124 on timeout."""
    e = dict(os.environ)
    if env:
        e.update(env)
    try:
        p = subprocess.run(cmd, cwd=cwd, env=e, input=input, stdout=subprocess.PIPE, stderr=subprocess.STDOUT,
                           timeout=timeout, text=True, errors="replace")
        return p.returncode, p.stdout
    except subprocess.TimeoutExpired as ex:
        out = ex.stdout or ""
        if isinstance(out, bytes):
            out = out.decode("utf-8", "replace")
        return 124, out + "\n[timeout after %ss]" % timeout


# ------------------------------------------------------------------------------------------------
# Coq: build, pins, assumptions

def coq_makefile():
    """(Re)generate coq/Makefile from the .v files on disk.  _CoqProject is derived, not committed."""
    files = []
    for sub in ("theories", "gen"):
        for root, _, fs in os.walk(os.path.join(COQ, sub)):
            for f in sorted(fs):
                if f.endswith(".v"):
                    files.append(os.path.relpath(os.path.join(root, f), COQ))
    files.sort()
    proj = "-Q theories TV\n-Q gen TVGen\n-arg -w -arg -notation-overridden,-deprecated-hint-without-locality,-deprecated-instance-without-locality\n" + "\n".join(files) + "\n"
    changed = gen_if_changed(os.path.join(COQ, "_CoqProject"), proj)
    if changed or not os.path.exists(os.path.join(COQ, "Makefile")):
        rc, out = sh(["coq_makefile", "-f", "_CoqProject", "-o", "Makefile"], 120, cwd=COQ)
        if rc != 0:
            raise RuntimeError("coq_makefile failed:\n" + out)


def coq_make(targets, timeout=1500, jobs=NCPU):
    """make the given .vo targets (paths relative to coq/).  Full .vo compilation."""
    # The lock covers only Makefile + dependency-file regeneration (shared state); the target builds of
    # different properties touch disjoint .vo files and may run concurrently.
    with flock("coqmake-" + hashlib.sha1(COQ.encode()).hexdigest()[:8]):
        coq_makefile()
        sh(["make", ".Makefile.d"], 300, cwd=COQ)
    rc, out = sh(["make", "-j%d" % jobs] + list(targets), timeout, cwd=COQ)
    if rc != 0 and ("Makefile.d" in out[-2000:] or "inconsistent assumptions" in out):
        # lost a race with a concurrent make of a shared file: retry once
        time.sleep(2)
        rc, out = sh(["make", "-j%d" % jobs] + list(targets), timeout, cwd=COQ)
    return rc, out


PIN_RE = re.compile(r"^\s*Print Assumptions\s+([A-Za-z0-9_.']+)\s*\.", re.M)


def coq_pins(ctx, prop, timeout=600):
    """Compile coq/pins/Pins_<prop>.v (Check name : statement.  Print Assumptions name.) on every run.

    Returns dict: theorems -> {'closed': bool, 'axioms': [...]} plus rc/log.  The pins file is not part
    of the Makefile, so its output is produced on every run even when every .vo is cached."""
    src = os.path.join(COQ, "pins", "Pins_%s.v" % prop)
    text = read(src)
    names = PIN_RE.findall(text)
    work = os.path.join(ctx.work, "pins")
    os.makedirs(work, exist_ok=True)
    dst = os.path.join(work, "Pins_%s.v" % prop)
    shutil.copyfile(src, dst)
    rc, out = sh(["coqc", "-noglob"] + COQ_FLAGS + [dst], timeout, cwd=work)
    res = {"rc": rc, "log": out, "theorems": {}, "names": names}
    if rc != 0:
        return res
    # Split output per Print Assumptions, in order.
    chunks = re.split(r"(?m)^(?=Closed under the global context|Axioms:)", out)
    chunks = [c for c in chunks if c.startswith("Closed under") or c.startswith("Axioms:")]
    for i, n in enumerate(names):
        if i >= len(chunks):
            res["theorems"][n] = {"closed": False, "axioms": ["<no output>"]}
            continue
        c = chunks[i]
        if c.startswith("Closed under"):
            res["theorems"][n] = {"closed": True, "axioms": []}
        else:
            ax = re.findall(r"(?m)^([A-Za-z_][A-Za-z0-9_.']*)\s*:", c[len("Axioms:"):])
            res["theorems"][n] = {"closed": False, "axioms": ax}
    return res


def forbidden_scan():
    """Forbidden vernacular anywhere under coq/ (theories, gen, pins).  Comments are stripped first."""
    hits = []
    for sub in ("theories", "gen", "pins"):
        for root, _, fs in os.walk(os.path.join(COQ, sub)):
            for f in sorted(fs):
                if not f.endswith(".v"):
                    continue
                p = os.path.join(root, f)
                txt = strip_coq_comments(read(p))
                for i, line in enumerate(txt.split("\n"), 1):
                    m = FORBIDDEN.search(line)
                    if m:
                        # `Variable`/`Hypothesis` are allowed inside a Section (they are discharged).
                        if m.group(1) in ("Variable", "Variables", "Hypothesis", "Hypotheses") and in_section(txt, i):
                            continue
                        hits.append("%s:%d: %s" % (os.path.relpath(p, VERIF), i, line.strip()))
    return hits


def strip_coq_comments(s):
    out = []
    depth = 0
    i = 0
    instr = False
    while i < len(s):
        if depth == 0 and s[i] == '"':
            instr = not instr
            out.append(s[i])
            i += 1
            continue
        if not instr and s.startswith("(*", i):
            depth += 1
            i += 2
            continue
        if not instr and depth > 0 and s.startswith("*)", i):
            depth -= 1
            i += 2
            continue
        if depth == 0:
            out.append(s[i])
        elif s[i] == "\n":
            out.append("\n")
        i += 1
    return "".join(out)


def in_section(txt, lineno):
    depth = 0
    for i, line in enumerate(txt.split("\n"), 1):
        if i >= lineno:
            break
        if re.match(r"\s*Section\s+\w+", line):
            depth += 1
        elif re.match(r"\s*End\s+\w+", line) and depth > 0:
            depth -= 1
    return depth > 0


def coq_prove(ctx, prop, targets, extra_obligations=()):
    """Leg (A).  Returns a dict describing obligations / discharged / failures."""
    t = time.time()
    res = {"obligations": 0, "discharged": 0, "failed": [], "axioms": {}, "log_tail": "", "theorems": []}
    rc, out = coq_make(targets)
    ctx.log("coq make %s rc=%d (%.1fs)" % (" ".join(targets), rc, time.time() - t))
    if rc != 0:
        res["log_tail"] = out[-4000:]
        m = re.findall(r'File "([^"]+)", line (\d+)', out)
        res["failed"].append("coq-build:" + (("%s:%s" % m[-1]) if m else "make rc=%d" % rc))
        # Count what we can: every pinned theorem is an obligation that is not discharged now.
        try:
            names = PIN_RE.findall(read(os.path.join(COQ, "pins", "Pins_%s.v" % prop)))
        except FileNotFoundError:
            names = []
        res["obligations"] = len(names) + len(extra_obligations) + 1
        res["theorems"] = names
        return res
    pins = coq_pins(ctx, prop)
    res["theorems"] = pins["names"]
    res["obligations"] = len(pins["names"])
    if pins["rc"] != 0:
        res["failed"].append("pins:" + last_error(pins["log"]))
        res["log_tail"] = pins["log"][-4000:]
    else:
        for n in pins["names"]:
            info = pins["theorems"][n]
            bad = [a for a in info["axioms"] if a not in AXIOM_ALLOW]
            res["axioms"][n] = info["axioms"]
            if info["closed"] or not bad:
                res["discharged"] += 1
            else:
                res["failed"].append("assumptions:%s:%s" % (n, ",".join(bad)))
    hits = forbidden_scan()
    res["obligations"] += 1
    if hits:
        res["failed"].append("forbidden-vernacular:" + "; ".join(hits[:5]))
    else:
        res["discharged"] += 1
    if ctx.thorough() and not res["failed"]:
        # independent re-check of the compiled closure (thorough tier only: ~40 s and more)
        t2 = time.time()
        rc2, out2 = sh(["coqchk", "-o", "-silent"] + COQ_FLAGS + ["TV.Properties.%s" % prop], 1800, cwd=COQ)
        res["obligations"] += 1
        m = re.search(r"\* Axioms:(.*?)\n\s*\n\* Constants/Inductives relying on type-in-type:(.*?)\n\s*\n\* Constants/Inductives relying on unsafe \(co\)fixpoints:(.*?)\n\s*\n\* Inductives whose positivity is assumed:(.*?)\n", out2, re.S)
        if rc2 == 0 and m:
            ax = [a.strip() for a in m.group(1).strip().split("\n") if a.strip() and a.strip() != "<none>"]
            bad = [a for a in ax if a.split(".")[-1] not in AXIOM_ALLOW and a not in AXIOM_ALLOW]
            others = [g.strip() for g in m.groups()[1:] if g.strip() != "<none>"]
            res["coqchk"] = {"axioms": ax, "unsafe": others, "wall_s": round(time.time() - t2, 1)}
            if bad or others:
                res["failed"].append("coqchk:" + ",".join(bad + others)[:300])
            else:
                res["discharged"] += 1
        else:
            res["failed"].append("coqchk:rc=%d %s" % (rc2, last_error(out2)))
        ctx.log("coqchk rc=%d (%.1fs)" % (rc2, time.time() - t2))
    for name, ok in extra_obligations:
        res["obligations"] += 1
        if ok:
            res["discharged"] += 1
        else:
            res["failed"].append("generated-obligation:" + name)
    ctx.log("proof leg: %d/%d obligations, failed=%s" % (res["discharged"], res["obligations"], res["failed"]))
    return res


def last_error(log):
    lines = [l for l in log.strip().split("\n") if l.strip()]
    return " | ".join(lines[-6:])[:600]


# ------------------------------------------------------------------------------------------------
# Coq: evaluating the model

def coq_eval(ctx, requires, terms, prelude="", shards=None, timeout=900, tag="cases"):
    """Evaluate `terms` (list of (key, coq_term_string)) with vm_compute.  Returns {key: parsed value}.

    One .v file per shard; each case prints on exactly one line as `= (<idx>%N, <value>)`."""
    if not terms:
        return {}
    shards = shards or min(NCPU, max(1, len(terms) // 40))
    d = os.path.join(ctx.work, tag)
    shutil.rmtree(d, ignore_errors=True)
    os.makedirs(d)
    buckets = [[] for _ in range(shards)]
    for i, (k, t) in enumerate(terms):
        buckets[i % shards].append((i, t))
    files = []
    for s, b in enumerate(buckets):
        if not b:
            continue
        body = [requires, "Set Printing Width 100000000.", "Set Printing Depth 100000000.",
                "Unset Printing Notations.", "Set Printing Notations.", prelude]
        for i, t in b:
            body.append("Eval vm_compute in (%d%%N, (%s))." % (i, t))
        p = os.path.join(d, "%s_%d.v" % (tag, s))
        with open(p, "w") as f:
            f.write("\n".join(body) + "\n")
        files.append(p)

    def one(p):
        return sh(["coqc", "-noglob"] + COQ_FLAGS + [p], timeout, cwd=d)

    with ThreadPoolExecutor(max_workers=NCPU) as ex:
        outs = list(ex.map(one, files))
    results = {}
    for (rc, out), p in zip(outs, files):
        if rc != 0:
            raise ModelEvalError("coqc failed on %s: %s" % (p, last_error(out)))
        # join continuation lines: every result starts with "     = "
        for m in re.finditer(r"(?ms)^\s*= (.*?)^\s*: ", out):
            txt = " ".join(m.group(1).split())
            val = parse_coq_term(txt)
            idx, v = val
            results[terms[idx][0]] = v
    if len(results) != len(terms):
        raise ModelEvalError("model evaluation returned %d of %d results" % (len(results), len(terms)))
    return results


class ModelEvalError(Exception):
    pass


TOK = re.compile(r'\s*(?:(\d+)(?:%[A-Za-z_]+)?|(-\d+)(?:%[A-Za-z_]+)?|("(?:[^"]|"")*")(?:%[A-Za-z_]+)?|([A-Za-z_][A-Za-z0-9_.\']*)|(.))')


def _tokens(s):
    pos = 0
    out = []
    while pos < len(s):
        m = TOK.match(s, pos)
        if not m:
            break
        pos = m.end()
        if m.group(1) is not None:
            out.append(("n", int(m.group(1))))
        elif m.group(2) is not None:
            out.append(("n", int(m.group(2))))
        elif m.group(3) is not None:
            out.append(("s", m.group(3)[1:-1].replace('""', '"')))
        elif m.group(4) is not None:
            out.append(("i", m.group(4)))
        elif m.group(5) is not None and m.group(5).strip():
            out.append(("p", m.group(5)))
    return out


def parse_coq_term(s):
    """Numbers -> int, strings -> str, lists -> list, tuples -> tuple, constructor applications ->
    ('Ctor', args...) (nullary: 'Ctor'; true/false -> bool; None -> None; Some x -> ('Some', x))."""
    toks = _tokens(s)
    pos = [0]

    def peek():
        return toks[pos[0]] if pos[0] < len(toks) else ("e", None)

    def take():
        t = peek()
        pos[0] += 1
        return t

    def atom():
        k, v = take()
        if k == "n" or k == "s":
            return v
        if k == "i":
            if v == "true":
                return True
            if v == "false":
                return False
            if v == "None":
                return None
            return ("@", v)
        if k == "p" and v == "(":
            if peek() == ("p", "-"):  # (-5)%Z printed as (-5)
                take()
                n = take()[1]
                assert take() == ("p", ")")
                return -n
            items = [expr()]
            while peek() == ("p", ","):
                take()
                items.append(expr())
            assert take() == ("p", ")"), "expected )"
            if peek() == ("p", "%"):
                take()
                take()
            return items[0] if len(items) == 1 else tuple(items)
        if k == "p" and v == "[":
            items = []
            if peek() == ("p", "]"):
                take()
                return items
            items.append(expr())
            while peek() == ("p", ";"):
                take()
                items.append(expr())
            assert take() == ("p", "]"), "expected ]"
            if peek() == ("p", "%"):
                take()
                take()
            return items
        if k == "p" and v == "-":
            return -take()[1]
        raise ValueError("unexpected token %r in %r" % ((k, v), s[:200]))

    def expr():
        a = atom()
        if isinstance(a, tuple) and len(a) == 2 and a[0] == "@":
            args = []
            while True:
                k, v = peek()
                if k in ("n", "s", "i") or (k == "p" and v in "(["):
                    args.append(atom())
                else:
                    break
            args = [x[1] if isinstance(x, tuple) and len(x) == 2 and x[0] == "@" else x for x in args]
            return (a[1],) + tuple(args) if args else a[1]
        return a

    v = expr()
    return v


# Coq term printers used by the drivers

def coq_N(n):
    return "%d%%N" % n


def coq_Z(n):
    return "(%d)%%Z" % n


def coq_nat(n):
    return "%d%%nat" % n


def coq_bool(b):
    return "true" if b else "false"


def coq_list(items):
    return "[" + "; ".join(items) + "]"


def coq_bytes(bs):
    """list N of byte values."""
    return "[" + "; ".join("%d%%N" % b for b in bs) + "]"


def coq_opt(x):
    return "None" if x is None else "(Some %s)" % x


# ------------------------------------------------------------------------------------------------
# Rust harness

def harness_pkg(ctx, pkg):
    """Instantiate harness/<pkg>/Cargo.toml.in for ctx.repo under .cache (path deps point at the repo's
    *working tree*, so cargo rebuilds whatever changed there).  Returns the manifest path."""
    src = os.path.join(VERIF, "harness", pkg)
    dst = os.path.join(CACHE, "harness-" + ctx.repo_key, pkg)
    os.makedirs(dst, exist_ok=True)
    toml = read(os.path.join(src, "Cargo.toml.in")).replace("@REPO@", ctx.repo)
    gen_if_changed(os.path.join(dst, "Cargo.toml"), toml)
    lock_dst = os.path.join(dst, "Cargo.lock")
    if not os.path.exists(lock_dst):
        # /repo/Cargo.lock is git-ignored there; prefer it, fall back to the seed copy kept in /verif
        cand = os.path.join(ctx.repo, "Cargo.lock")
        if not os.path.exists(cand):
            cand = os.path.join(VERIF, "harness", "Cargo.lock.seed")
        shutil.copyfile(cand, lock_dst)
    link = os.path.join(dst, "src")
    if os.path.islink(link) and os.readlink(link) != os.path.join(src, "src"):
        os.unlink(link)
    if not os.path.exists(link):
        os.symlink(os.path.join(src, "src"), link)
    for extra in ("build.rs",):
        if os.path.exists(os.path.join(src, extra)):
            shutil.copyfile(os.path.join(src, extra), os.path.join(dst, extra))
    cfgdir = os.path.join(dst, ".cargo")
    os.makedirs(cfgdir, exist_ok=True)
    gen_if_changed(os.path.join(cfgdir, "config.toml"), "[net]\noffline = true\n")
    return os.path.join(dst, "Cargo.toml")


def cargo_build(ctx, pkg, bins, release=False, extra_rustflags="", features=None, timeout=1500, extra_env=None):
    """Build harness binaries with the hooks on.  Returns (ok, {bin: path}, log)."""
    manifest = harness_pkg(ctx, pkg)
    cmd = ["cargo", "build", "--offline", "--manifest-path", manifest]
    for b in bins:
        cmd += ["--bin", b]
    if release:
        cmd.append("--release")
    if features:
        cmd += ["--features", ",".join(features)]
    env = {
        "CARGO_NET_OFFLINE": "true",
        "CARGO_TARGET_DIR": ctx.target_dir,
        "RUSTFLAGS": ("--cfg %s -A warnings %s" % (GUARD_CFG, extra_rustflags)).strip(),
    }
    if extra_env:
        env.update(extra_env)
    t = time.time()
    rc, out = sh(cmd, timeout, env=env)
    ctx.log("cargo build %s %s%s rc=%d (%.1fs)" % (pkg, ",".join(bins), " --release" if release else "", rc, time.time() - t))
    prof = "release" if release else "debug"
    paths = {b: os.path.join(ctx.target_dir, prof, b) for b in bins}
    return rc == 0, paths, out


def run_bin(path, args=(), input=None, timeout=600, env=None):
    return sh([path] + list(args), timeout, input=input, env=env)


# ------------------------------------------------------------------------------------------------
# Known findings

def load_known():
    """known_findings.json (committed, never written at run time) plus one-entry files in known_findings.d/."""
    out = []
    p = os.path.join(VERIF, "known_findings.json")
    try:
        out += json.load(open(p))
    except FileNotFoundError:
        pass
    d = os.path.join(VERIF, "known_findings.d")
    if os.path.isdir(d):
        for f in sorted(os.listdir(d)):
            if f.endswith(".json"):
                e = json.load(open(os.path.join(d, f)))
                out += e if isinstance(e, list) else [e]
    return out


# ------------------------------------------------------------------------------------------------
# Report and verdict

class Report:
    def __init__(self, ctx):
        self.ctx = ctx
        self.proof = None            # dict from coq_prove
        self.ties = []               # [{'name','ok','detail','first_disagreement'}]
        self.violations = []         # [{'what','case','finding': id or None}]
        self.evaluations = 0
        self.nontrivial = set()
        self.rule = ""
        self.samples = []
        self.hist = {}
        self.assumptions = []
        self.trusted_base = []
        self.checker_cmd = "coq_makefile + make (full .vo) ; coqc pins/Pins_%s.v (Check + Print Assumptions)" % ctx.prop
        self.exhaustive = None
        self.traces_validated = 0
        self.extra = {}

    def tie(self, name, ok, detail="", first=None):
        self.ties.append({"name": name, "ok": bool(ok), "detail": detail, "first_disagreement": first})

    def violation(self, what, case, finding=None):
        self.violations.append({"what": what, "case": case, "finding": finding})

    def count(self, key, n=1):
        self.hist[key] = self.hist.get(key, 0) + n


def write_replay(ctx, name, payload):
    h = hashlib.sha1(json.dumps(payload, sort_keys=True, default=str).encode()).hexdigest()[:12]
    p = os.path.join(REPLAYS, "%s-%s-%s.json" % (ctx.prop, name, h))
    with open(p, "w") as f:
        json.dump(payload, f, indent=1, default=str)
    return p


def finalize(rep):
    ctx = rep.ctx
    known = {k["id"]: k for k in load_known() if k.get("property") == ctx.prop}
    lines = []
    exit_code = 0
    # 1. oracle violations
    seen_known = {}
    unknown = []
    for v in rep.violations:
        fid = v.get("finding")
        if fid and fid in known and known[fid].get("status") == "known":
            seen_known.setdefault(fid, v)
        else:
            unknown.append(v)
    for fid, v in sorted(seen_known.items()):
        lines.append("KNOWN-FINDING: property=%s %s %s" % (ctx.prop, fid, known[fid]["what"]))
    reported = set()
    for v in unknown:
        sig = v["what"]
        if sig in reported:
            continue
        reported.add(sig)
        if len(reported) > 5:
            break
        path = write_replay(ctx, "violation", {"property": ctx.prop, "kind": "failing-input", "what": v["what"],
                                                "case": v["case"], "seed": ctx.seed, "tier": ctx.tier,
                                                "replay_cmd": "./check %s --replay <this file>" % ctx.prop})
        lines.append("VIOLATION property=%s replay=%s" % (ctx.prop, path))
        exit_code = 1
    # 2. broken proof / tie without a failing input
    broken = []
    if rep.proof is not None and rep.proof["failed"]:
        broken += ["proof:" + f for f in rep.proof["failed"]]
    for t in rep.ties:
        if not t["ok"]:
            broken.append("tie:%s:%s" % (t["name"], t["detail"]))
    if broken and not unknown:
        path = write_replay(ctx, "unproved", {"property": ctx.prop, "kind": "no-failing-input-found",
                                               "no_longer_checks": broken,
                                               "first_disagreements": [t["first_disagreement"] for t in rep.ties if not t["ok"]],
                                               "proof_log_tail": (rep.proof or {}).get("log_tail", ""),
                                               "seed": ctx.seed, "tier": ctx.tier})
        lines.append("VIOLATION property=%s replay=%s no-failing-input-found" % (ctx.prop, path))
        exit_code = 1
    # 3. evidence
    pr = rep.proof or {"obligations": 0, "discharged": 0, "failed": ["no proof leg"], "axioms": {}, "theorems": []}
    ties_ok = sum(1 for t in rep.ties if t["ok"])
    cov = {
        "obligations": pr["obligations"] + len(rep.ties),
        "discharged": pr["discharged"] + ties_ok,
        "checker_cmd": rep.checker_cmd,
        "trusted_base": rep.trusted_base,
        "theorems": pr.get("theorems", []),
        "axioms_per_theorem": pr.get("axioms", {}),
        "proof_failures": pr["failed"],
        "ties": rep.ties,
        "evaluations": rep.evaluations,
        "distinct_nontrivial": len(rep.nontrivial),
        "rule": rep.rule,
        "samples": rep.samples[:8] if rep.samples else ["<none>"],
        "histogram": rep.hist,
        "traces_validated_against_impl": rep.traces_validated,
        "known_findings_reobserved": sorted(seen_known),
        "known_findings_listed_not_observed": sorted(k for k, v in known.items() if v.get("status") == "known" and k not in seen_known),
    }
    if rep.exhaustive is not None:
        cov["exhaustive"] = bool(rep.exhaustive)
    cov.update(rep.extra)
    ev = {
        "property_id": ctx.prop,
        "tier": ctx.tier,
        "seed": ctx.seed,
        "level": "proof",
        "coverage": cov,
        "assumptions": rep.assumptions,
        "wall_s": round(time.time() - ctx.t0, 2),
        "violations": len(unknown) + (1 if (broken and not unknown) else 0),
        "repo": ctx.repo,
        "notes": ctx.notes,
    }
    os.makedirs(EVID, exist_ok=True)
    if ctx.repo == "/repo":
        with open(os.path.join(EVID, "%s.json" % ctx.prop), "w") as f:
            json.dump(ev, f, indent=1, default=str)
    else:
        with open(os.path.join(ctx.work, "evidence.json"), "w") as f:
            json.dump(ev, f, indent=1, default=str)
    for l in lines:
        print(l)
    print("%s: %s (%d evaluations, %d distinct non-trivial, %d/%d obligations, %.1fs)" % (
        ctx.prop, "OK" if exit_code == 0 else "FAILED", rep.evaluations, len(rep.nontrivial),
        cov["discharged"], cov["obligations"], time.time() - ctx.t0))
    return exit_code
