#!/usr/bin/env python3
"""python3 driver/mkround5.py Cxx  -> driver/seedprompts/Cxx_round5.txt
Round-5 prompt (variants I/J) derived from the round-4 prompt: new scratch paths, new variant letters, and the summaries of
the round-4 changes (G/H) appended to the do-not-repeat list.  The agent still sees only the property text and its worktree."""
import json, os, re, sys
V = os.path.dirname(os.path.dirname(os.path.abspath(__file__)))
pid = sys.argv[1]
low = pid.lower()
t = open(os.path.join(V, "driver/seedprompts/%s_round4.txt" % pid)).read()
t = t.replace("/tmp/seed4_%s_out" % low, "/tmp/seed5_%s_out" % low).replace("/tmp/seed4_%s" % low, "/tmp/seed5_%s" % low)
t = t.replace("variant G and variant H", "variant I and variant J").replace("V in {G, H}", "V in {I, J}")
extra = []
for v in "GH":
    m = os.path.join(V, "seeded", "%s-%s" % (pid, v), "meta.json")
    if os.path.exists(m):
        s = json.load(open(m)).get("summary", "")
        extra.append("  - " + s[:420].replace("\n", " "))
marker = "\nResource limits:"
assert marker in t
t = t.replace(marker, "\n".join(extra) + "\n" + marker, 1) if extra else t
open(os.path.join(V, "driver/seedprompts/%s_round5.txt" % pid), "w").write(t)
print(len(t))
