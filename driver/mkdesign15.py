#!/usr/bin/env python3
"""Regenerates the table of seeded changes in DESIGN.md (between the SEEDED-TABLE markers) from seeded/*/meta.json and verdict.json."""
import json, os, re
HERE = os.path.dirname(os.path.abspath(__file__)); ROOT = os.path.dirname(HERE)
rows = []; stats = {"n": 0, "own_replay": 0, "other_replay": 0, "noinput": 0, "missed": 0, "noverdict": 0}
for sid in sorted(os.listdir(os.path.join(ROOT, "seeded"))):
    d = os.path.join(ROOT, "seeded", sid)
    if not os.path.exists(os.path.join(d, "patch.diff")):
        continue
    m = json.load(open(os.path.join(d, "meta.json")))
    v = json.load(open(os.path.join(d, "verdict.json"))) if os.path.exists(os.path.join(d, "verdict.json")) else {}
    needs = m.get("what_it_needs_to_manifest", "").replace("\n", " ")
    needs = needs[:170] + ("…" if len(needs) > 170 else "")
    files = ",".join(os.path.basename(f) for f in m.get("files_changed", []))
    checks = v.get("checks", {})
    ver = "; ".join("%s: %s" % (p, c["verdict"].replace("VIOLATION-with-replay", "VIOLATION + replay")) for p, c in checks.items()) or "(not swept yet)"
    first = ""
    for p, c in checks.items():
        fr = c.get("first_replay") or {}
        w = str(fr.get("what") or "")[:150].replace("\n", " ").replace("|", "/")
        if c["verdict"].startswith("VIOLATION-with") and w:
            first = w; break
    stats["n"] += 1
    own = checks.get(m["property"], {}).get("verdict")
    if not checks: stats["noverdict"] += 1
    elif own == "VIOLATION-with-replay": stats["own_replay"] += 1
    elif any(c["verdict"] == "VIOLATION-with-replay" for c in checks.values()): stats["other_replay"] += 1
    elif any(c["verdict"] == "no-failing-input-found" for c in checks.values()): stats["noinput"] += 1
    else: stats["missed"] += 1
    rows.append("| %s | %s | %s | %s | %s |" % (sid, files, needs.replace("|", "/"), ver, first))
head = ("%d kept changes: %d detected by their own property's check with a concrete replay, %d by a neighbouring property's check with a concrete replay "
        "(the mechanism belongs to that neighbour: `also_check` in meta.json; their own check reports a broken obligation or is silent), %d only as a broken obligation (`no-failing-input-found`), %d missed, %d not swept yet.\n\n" % (
            stats["n"], stats["own_replay"], stats["other_replay"], stats["noinput"], stats["missed"], stats["noverdict"]))
table = head + "| id | file | needs, to manifest | verdict of `./check` on HEAD + patch | first replay (abridged) |\n|---|---|---|---|---|\n" + "\n".join(rows) + "\n"
p = os.path.join(ROOT, "DESIGN.md"); s = open(p).read()
b, e = "<!-- SEEDED-TABLE-BEGIN -->", "<!-- SEEDED-TABLE-END -->"
assert b in s and e in s
s = s[:s.index(b) + len(b)] + "\n" + table + s[s.index(e):]
open(p, "w").write(s); print(head)
