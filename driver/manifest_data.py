BASELINE_OFF = "cd /repo && cargo nextest run --workspace --no-fail-fast --tool-config-file pb:/w/lib/nextest.toml --profile pb --test-threads 8 --offline || cargo test --workspace --no-fail-fast --offline"
HOOK_COMMITS = []
NOTES = ("Single entry point ./check <id> --tier quick|thorough. Every check: (A) Coq theorems re-checked (make + pins with Print Assumptions, "
         "forbidden-vernacular grep), (B) translator-regenerated coq/gen and/or model-vs-implementation correspondence, (C) oracle on the "
         "implementation producing concrete replays; known findings in known_findings.json. See DESIGN.md.")
NOT_YET = "not yet built in this session (design in DESIGN.md section 7); not claimed until its theorem, correspondence and oracle exist"
NOT_APPLICABLE = {}
CLAIMED = {
 "C19": {
  "technique": "Coq proof over translator-generated operator tables + exhaustive model/implementation correspondence",
  "text": "All 10 comparison operators on all 11x11 Level/LevelFilter pairs, set_max/current round trip, Display/FromStr round trip and the accepted "
          "language of FromStr for ALL byte strings are Coq theorems about an interpreter of data extracted from metadata.rs on every run "
          "(finite cases by kernel computation over the complete domain, the string language by induction). The real operators/parsers are "
          "run on the complete finite domain and a string corpus and compared with the model and with the spec order.",
  "note": "Trusted: Coq kernel (+vm_compute), translators/levels.py shape recognition (fails closed), harness h_levels.rs, std's usize::from_str / "
          "eq_ignore_ascii_case / Ord::min,max (modelled). Known finding F13 (empty string parses as ERROR) is excluded by hypothesis and refuted by C19_F13_refuted.",
 },
}
