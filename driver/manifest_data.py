BASELINE_OFF = "cd /repo && cargo nextest run --workspace --no-fail-fast --tool-config-file pb:/w/lib/nextest.toml --profile pb --test-threads 8 --offline || cargo test --workspace --no-fail-fast --offline"
HOOK_COMMITS = ["6d7118e", "df1ad69", "2b138bf", "518397e", "cc1de86"]
NOTES = ("Single entry point ./check <id> --tier quick|thorough. Every check: (A) Coq theorems re-checked (make + pins with Print Assumptions, "
         "forbidden-vernacular grep), (B) translator-regenerated coq/gen and/or model-vs-implementation correspondence, (C) oracle on the "
         "implementation producing concrete replays; known findings in known_findings.json. See DESIGN.md.")
NOT_YET = "not yet built in this session (design in DESIGN.md section 7); not claimed until its theorem, correspondence and oracle exist"
NOT_APPLICABLE = {}
CLAIMED = {}  # filled from driver/claims/Cxx.json: {"technique":..., "text":..., "note":...}
