#!/usr/bin/env python3
"""C20 oracle (Python side): what the timestamp of an instant must be, computed WITHOUT any code of
tracing-subscriber and without the Coq model.

The calendar conversion is CPython's own `datetime.date.fromordinal` (proleptic Gregorian, years 1..9999),
extended to every integer day by the 400-year periodicity of the Gregorian calendar (146097 days); the time
of day and the microseconds are floor divisions.  (The Rust harness carries a second, differently written
oracle — Howard Hinnant's civil_from_days — for volume; the two must agree.)

Checked on each observed string (property C20):
  fields   the string parses as [+-]Y{4,}-MM-DDThh:mm:ss.ffffffZ and year, month, day, hour, minute, second are
           those of the instant (UTC, proleptic Gregorian);
  micros   ffffff = floor(nsec / 1000)  (truncated, never rounded up);
  rfc3339  for years 0000..9999: exactly `YYYY-MM-DDThh:mm:ss.ffffffZ`, 27 bytes, no sign;
  order    two consecutively presented instants in non-decreasing time order, both within years 0000..9999,
           print in non-decreasing byte order;
  panic    the code must produce a string at all.

As a script:  c20_oracle.py <descriptor-file> <strings-file>   -> JSON lines (fail..., summary) on stdout."""
import datetime
import json
import re
import sys

EPOCH_ORDINAL = 719163          # datetime.date(1970, 1, 1).toordinal()
CYCLE = 146097
SHAPE = re.compile(r"^([+-]?)(\d{4,})-(\d\d)-(\d\d)T(\d\d):(\d\d):(\d\d)\.(\d{6})Z$")


def civil(days):
    """(year, month, day) of the day number `days` (days since 1970-01-01), any integer."""
    k, o = divmod(days + EPOCH_ORDINAL - 1, CYCLE)      # o in [0, 146097): day within years 1..400
    d = datetime.date.fromordinal(o + 1)
    return d.year + 400 * k, d.month, d.day


def days_from_civil(y, m, d):
    k, yy = divmod(y - 1, 400)
    return datetime.date(yy + 1, m, d).toordinal() + k * CYCLE - EPOCH_ORDINAL


def expected(sec, nsec):
    days, rem = divmod(sec, 86400)
    y, mo, d = civil(days)
    return (y, mo, d, rem // 3600, rem // 60 % 60, rem % 60, nsec // 1000)


def rfc3339(f):
    return "%04d-%02d-%02dT%02d:%02d:%02d.%06dZ" % f


def parse(s):
    m = SHAPE.match(s)
    if not m:
        return None
    sign, y = m.group(1), int(m.group(2))
    f = (-y if sign == "-" else y,) + tuple(int(x) for x in m.groups()[2:])
    return f, (sign == "" and len(m.group(2)) == 4)


def check_one(sec, nsec, got):
    """-> None when fine, else (what, detail)."""
    want = expected(sec, nsec)
    if got.startswith("!"):
        return ("panic", got)
    p = parse(got)
    if p is None:
        return ("shape", "not [+-]YYYY-MM-DDThh:mm:ss.ffffffZ")
    f, strict = p
    if f != want:
        what = "micros" if f[:6] == want[:6] else "fields"
        return (what, "expected %s" % (rfc3339(want) if 0 <= want[0] <= 9999 else list(want)))
    if 0 <= want[0] <= 9999 and got != rfc3339(want):
        return ("rfc3339-shape", "expected %s" % rfc3339(want))
    return None


def expand(desc_lines):
    """Descriptor lines -> iterator of (sec, nsec)."""
    for line in desc_lines:
        p = line.split()
        if not p:
            continue
        if p[0] == "P":
            yield int(p[1]), int(p[2])
        elif p[0] == "R":
            s0, step, count, nsec = int(p[1]), int(p[2]), int(p[3]), int(p[4])
            for i in range(count):
                yield s0 + i * step, nsec
        else:
            raise ValueError("bad descriptor %r" % line)


def count_instants(desc_lines):
    n = 0
    for line in desc_lines:
        p = line.split()
        if p:
            n += 1 if p[0] == "P" else int(p[3])
    return n


def check_stream(instants, strings, max_report=100):
    """-> (n, fails:[dict], n_fail, order_pairs)."""
    fails, n_fail, n, pairs = [], 0, 0, 0
    prev = None
    for (sec, nsec), got in zip(instants, strings):
        n += 1
        if got == "!unrepresentable":
            prev = None
            continue
        r = check_one(sec, nsec, got)
        if r is not None:
            n_fail += 1
            if len(fails) < max_report:
                fails.append({"what": r[0], "sec": sec, "nsec": nsec, "got": got, "detail": r[1]})
        if got.startswith("!"):
            prev = None
            continue
        in_rfc = -62167219200 <= sec < 253402300800          # 0000-01-01T00:00:00 .. 9999-12-31T23:59:59
        if prev is not None and prev[3] and in_rfc and (prev[0], prev[1]) <= (sec, nsec):
            pairs += 1
            if prev[2] > got:
                n_fail += 1
                if len(fails) < max_report:
                    fails.append({"what": "order", "sec": sec, "nsec": nsec, "got": got,
                                  "detail": "previous instant (%d, %d) printed %s" % (prev[0], prev[1], prev[2])})
        prev = (sec, nsec, got, in_rfc)
    return n, fails, n_fail, pairs


def main(argv):
    desc = open(argv[1]).read().split("\n")
    with open(argv[2], encoding="utf-8", errors="replace") as f:
        strings = (l.rstrip("\n") for l in f)
        n, fails, n_fail, pairs = check_stream(expand(desc), strings)
    for x in fails:
        print(json.dumps(dict(x, k="fail")))
    print(json.dumps({"k": "summary", "n": n, "fails": n_fail, "order_pairs": pairs, "expected_n": count_instants(desc)}))


if __name__ == "__main__":
    assert (0 - 62167219200) == days_from_civil(0, 1, 1) * 86400 and days_from_civil(10000, 1, 1) * 86400 == 253402300800
    main(sys.argv)
