#!/usr/bin/env python3
"""Regenerates MANIFEST.json from driver/manifest_data.py (keeps it schema-valid)."""
import json, os, sys
HERE = os.path.dirname(os.path.abspath(__file__))
sys.path.insert(0, HERE)
import manifest_data as md

props = [json.loads(l) for l in open(os.path.join(HERE, "..", "properties.jsonl"))]
ids = [p["id"] for p in props]
checks = []
import glob
for f in sorted(glob.glob(os.path.join(HERE, "claims", "C*.json"))):
    e = json.load(open(f))
    md.CLAIMED[os.path.basename(f)[:-5]] = e
for pid in ids:
    if pid not in md.CLAIMED:
        continue
    c = md.CLAIMED[pid]
    checks.append({
        "property_id": pid,
        "quick_cmd": "./check %s --tier quick" % pid,
        "thorough_cmd": "./check %s --tier thorough" % pid,
        "evidence_file": "/verif/evidence/%s.json" % pid,
        "replay_cmd_template": "./check %s --replay {path}" % pid,
        "engine": "coq-proof+correspondence",
        "level_claimed": {"category": "proof", "text": c["text"], "design_ref": c.get("design_ref", "DESIGN.md section 7, " + pid)},
        "level_note": c["note"],
        "technique": c["technique"],
    })
na = [{"property_id": pid, "reason": md.NOT_APPLICABLE.get(pid, md.NOT_YET)} for pid in ids if pid not in md.CLAIMED]
m = {
    "version": 1,
    "setup_cmd": "./setup",
    "hooks": {
        "guard": "--cfg tracing_verif (rustc cfg passed through RUSTFLAGS; no cargo feature)",
        "enable": "RUSTFLAGS=\"--cfg tracing_verif\" cargo build --offline (driver/vlib.py cargo_build)",
        "baseline_off_cmd": md.BASELINE_OFF,
        "source_commits": md.HOOK_COMMITS,
        "add_only": True,
    },
    "engines": [{"name": "coq-proof+correspondence", "path": "/verif/check",
                 "serves_properties": [c["property_id"] for c in checks],
                 "kind_free_text": "Coq 8.16 theorems over executable Gallina models (coq/theories), tied to /repo on every run by translators (coq/gen regenerated) and/or a differential correspondence between the model (vm_compute) and the real crates (harness/), plus a property oracle on the implementation trace that produces replays"}],
    "checks": checks,
    "notes": md.NOTES,
    "not_applicable": na,
}
json.dump(m, open(os.path.join(HERE, "..", "MANIFEST.json"), "w"), indent=1)
print("MANIFEST.json: %d checks, %d not claimed" % (len(checks), len(na)))
