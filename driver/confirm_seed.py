#!/usr/bin/env python3
"""python3 driver/confirm_seed.py <PROP> <VARIANT> <worktree> <seed_out_dir> [--check] [--skip-suite]

Independent confirmation of a seeded change produced by a fresh sub-agent (DESIGN 13 / brief):
  1. the patch applies to the unmodified worktree and the workspace compiles,
  2. the existing suite gives exactly the baseline pass set (507; /root/.vp/BASELINE.json stable_pass),
  3. the demonstration fails with the change and passes without it,
  4. (--check) ./check <PROP> --repo <worktree> is run against the patched tree and the verdict recorded.
Keeps it as /verif/seeded/<PROP>-<VARIANT>/ {patch.diff, demo/, meta.json}.  The worktree is left clean."""
import json
import os
import re
import shutil
import subprocess
import sys
import time

VERIF = os.path.dirname(os.path.dirname(os.path.abspath(__file__)))


def sh(cmd, cwd=None, timeout=3600, env=None):
    e = dict(os.environ)
    e.update(env or {})
    p = subprocess.run(cmd, cwd=cwd, shell=isinstance(cmd, str), stdout=subprocess.PIPE, stderr=subprocess.STDOUT, text=True,
                       errors="replace", timeout=timeout, env=e)
    return p.returncode, p.stdout


def pass_set(wt):
    junit = os.path.join(wt, "target", "nextest", "pb", "junit.xml")
    if os.path.exists(junit):
        os.unlink(junit)
    rc, out = sh("cargo nextest run --workspace --no-fail-fast --tool-config-file pb:/w/lib/nextest.toml --profile pb --test-threads 8 --offline",
                 cwd=wt, timeout=3000)
    sys.path.insert(0, "/w/lib")
    import parse_tests
    passed, failed, other, _ = parse_tests.parse_junit([junit])
    return passed, out


def main():
    prop, var, wt, outdir = sys.argv[1:5]
    do_check = "--check" in sys.argv
    skip_suite = "--skip-suite" in sys.argv
    src = os.path.join(outdir, var)
    patch = os.path.join(src, "patch.diff")
    meta = json.load(open(os.path.join(src, "meta.json")))
    res = {"confirmed_at": time.strftime("%Y-%m-%dT%H:%M:%S"), "steps": {}}
    assert not [l for l in sh("git status --porcelain", cwd=wt)[1].splitlines() if not l.startswith("??")], "worktree not clean"
    rc, out = sh(["git", "apply", "--check", patch], cwd=wt)
    res["steps"]["applies"] = rc == 0
    assert rc == 0, out
    # demo WITHOUT the change
    demo = os.path.join(src, "demo")
    demo_cmd = meta.get("demo_cmd", "cargo run --offline")
    env = {"CARGO_NET_OFFLINE": "true", "CARGO_TARGET_DIR": os.path.join(wt, "target-demo")}
    if "tracing_verif" in open(os.path.join(src, "meta.json")).read() or "tracing_verif" in "".join(
            open(os.path.join(dp, f), errors="replace").read() for dp, _, fs in os.walk(demo) for f in fs if f.endswith((".rs", ".toml", ".txt", ".sh"))):
        env["RUSTFLAGS"] = "--cfg tracing_verif"
    runner = "cargo test --offline" if "cargo test" in demo_cmd else "cargo run --offline -q"
    rc0, out0 = sh(runner, cwd=demo, env=env, timeout=1800)
    res["steps"]["demo_without_change_passes"] = rc0 == 0
    sh(["git", "apply", patch], cwd=wt)
    try:
        rc1, out1 = sh(runner, cwd=demo, env=env, timeout=1800)
        res["steps"]["demo_with_change_fails"] = rc1 != 0
        res["demo_tail_with_change"] = out1[-1500:]
        if not skip_suite:
            base = set(json.load(open("/root/.vp/BASELINE.json"))["stable_pass"])
            got, log = pass_set(wt)
            missing = sorted(base - got)
            res["steps"]["suite_pass_count"] = len(got)
            res["steps"]["suite_baseline_missing"] = missing[:10]
            res["steps"]["suite_extra_passing"] = sorted(got - base)[:10]
            res["steps"]["suite_same_507"] = (got == base)
        if do_check:
            rc2, out2 = sh([os.path.join(VERIF, "check"), prop, "--repo", wt], cwd=VERIF, timeout=3000,
                           env={"VERIF_CARGO_TARGET": os.path.join(wt, "target-verif")})
            lines = [l for l in out2.splitlines() if l.startswith(("VIOLATION", "KNOWN-FINDING", prop + ":"))]
            res["check"] = {"exit": rc2, "lines": lines[:8]}
            # keep the first replay for the record
            m = re.search(r"replay=(\S+)", out2)
            if m and os.path.exists(m.group(1)):
                res["check"]["first_replay"] = json.load(open(m.group(1)))
    finally:
        sh("git checkout -q -- . ", cwd=wt)
        shutil.rmtree(os.path.join(wt, "target-demo"), ignore_errors=True)
    dst = os.path.join(VERIF, "seeded", "%s-%s" % (prop, var))
    shutil.rmtree(dst, ignore_errors=True)
    os.makedirs(dst)
    shutil.copy(patch, os.path.join(dst, "patch.diff"))
    shutil.copytree(demo, os.path.join(dst, "demo"), ignore=shutil.ignore_patterns("target", "Cargo.lock"))
    meta["confirmation"] = res
    meta["what_i_ran"] = ("driver/confirm_seed.py: git apply; demo without/with the change (%s); full nextest suite pass-set vs BASELINE.json; "
                          "./check %s --repo <patched worktree>" % (runner, prop))
    json.dump(meta, open(os.path.join(dst, "meta.json"), "w"), indent=1)
    print(json.dumps(res, indent=1)[:3000])


if __name__ == "__main__":
    main()
