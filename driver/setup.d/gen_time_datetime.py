# executed by ./setup (after gen_time_consts.py: files run in name order) with `ctx`, `vlib` in scope:
# regenerate coq/gen/Gen_datetime.v (C20: the statements of datetime.rs's From<SystemTime> and Display)
import importlib, os
_m = importlib.import_module("datetime_rs")
_text, _unrec = _m.main(ctx.repo, None)
vlib.gen_if_changed(os.path.join(vlib.COQ, "gen", "Gen_datetime.v"), _text)
if _unrec:
    ctx.log("datetime_rs: unrecognised: %s" % _unrec)
