# executed by ./setup with `ctx`, `vlib` in scope: regenerate coq/gen/Gen_sched_points.v (yield points of the C04 / C12 sources)
import importlib, os, sys
sys.path.insert(0, os.path.join(vlib.VERIF, "translators"))
_m = importlib.import_module("sched_points")
_text, _unrec = _m.main(ctx.repo, None)
vlib.gen_if_changed(os.path.join(vlib.COQ, "gen", "Gen_sched_points.v"), _text)
if _unrec:
    ctx.log("sched_points: unrecognised: %s" % _unrec)
