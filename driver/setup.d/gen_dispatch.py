# executed by ./setup with `ctx` and `vlib` in scope: regenerate coq/gen/Gen_dispatch.v (C01, C02)
import importlib
import os
_m = importlib.import_module("dispatch_shape")
_text, _unrec = _m.main(ctx.repo, None)
vlib.gen_if_changed(os.path.join(vlib.COQ, "gen", "Gen_dispatch.v"), _text)
if _unrec:
    ctx.log("dispatch_shape: unrecognised: %s" % _unrec)
