# executed by ./setup with `ctx`, `vlib` in scope: regenerate coq/gen/Gen_directive.v (C11)
import importlib, os
_m = importlib.import_module("directive")
_text, _unrec = _m.main(ctx.repo, None)
vlib.gen_if_changed(os.path.join(vlib.COQ, "gen", "Gen_directive.v"), _text)
if _unrec:
    ctx.log("directive: unrecognised: %s" % _unrec)
