# executed by ./setup with `ctx`, `vlib` in scope: write the C17 corpus of twins (harness/attr/src/corpus_*.rs)
# before the harness packages are built, and regenerate coq/gen/Gen_attr.v (gen_block template skeletons).
import importlib, os, sys
sys.path.insert(0, os.path.join(vlib.VERIF, "driver"))
_c17 = importlib.import_module("props.c17")
_c17.write_corpora()
_m = importlib.import_module("attr_templates")
_text, _unrec = _m.main(ctx.repo, None)
vlib.gen_if_changed(os.path.join(vlib.COQ, "gen", "Gen_attr.v"), _text)
if _unrec:
    ctx.log("attr_templates: unrecognised: %s" % _unrec)
