# executed by ./setup with `ctx` and `vlib` in scope: regenerate coq/gen/Gen_fmtbuf.v (C13)
import importlib
import os
_m = importlib.import_module("fmtbuf")
_text, _unrec = _m.main(ctx.repo, None)
vlib.gen_if_changed(os.path.join(vlib.COQ, "gen", "Gen_fmtbuf.v"), _text)
