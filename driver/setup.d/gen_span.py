# executed by ./setup with `ctx` and `vlib` in scope: regenerate coq/gen/Gen_span.v (C03)
import importlib
import os
_m = importlib.import_module("span_shapes")
_text, _unrec = _m.main(ctx.repo, None)
vlib.gen_if_changed(os.path.join(vlib.COQ, "gen", "Gen_span.v"), _text)
if _unrec:
    ctx.log("span_shapes: unrecognised: %s" % _unrec)
