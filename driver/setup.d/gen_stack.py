# executed by ./setup with `ctx`, `vlib` in scope: regenerate coq/gen/Gen_stack.v (C07)
import importlib, os
_m = importlib.import_module("stack_flags")
_text, _unrec = _m.main(ctx.repo, None)
vlib.gen_if_changed(os.path.join(vlib.COQ, "gen", "Gen_stack.v"), _text)
if _unrec:
    ctx.log("stack_flags: unrecognised: %s" % _unrec)
