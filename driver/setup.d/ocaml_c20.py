# executed by ./setup (after gen_time_consts.py: files run in name order) with `ctx`, `vlib` in scope:
# extract Time/Musl.v to OCaml and build the C20 volume driver into .cache/ocaml-c20-<key>/ (see ocaml/c20/).
import importlib, os, sys
sys.path.insert(0, os.path.join(vlib.VERIF, "driver"))
_c20 = importlib.import_module("props.c20")
_exe, _log = _c20.build_ocaml_model(ctx)
ctx.log("C20 extracted model: %s (%s)" % (_exe, _log))
if _exe is None:
    raise RuntimeError("C20 extracted model did not build: " + _log)
