# executed by ./setup with `ctx`, `vlib` in scope: regenerate coq/gen/Gen_nonblocking.v (C15)
import importlib
import os
_m = importlib.import_module("nonblocking")
_text, _unrec = _m.main(ctx.repo, None)
vlib.gen_if_changed(os.path.join(vlib.COQ, "gen", "Gen_nonblocking.v"), _text)
if _unrec:
    ctx.log("nonblocking: unrecognised: %s" % _unrec)
