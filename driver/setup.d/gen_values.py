# executed by ./setup with `ctx`, `vlib` in scope: regenerate coq/gen/Gen_values.v (C10 tables) and the
# deterministic macro-invocation corpus of the C10 harness (harness/fields/src/gen/*.rs)
import importlib, os, sys
_m = importlib.import_module("values")
_text, _unrec = _m.main(ctx.repo, None)
vlib.gen_if_changed(os.path.join(vlib.COQ, "gen", "Gen_values.v"), _text)
if _unrec:
    ctx.log("values: unrecognised: %s" % _unrec)
sys.path.insert(0, os.path.join(vlib.VERIF, "driver", "props"))
_c = importlib.import_module("c10_corpus")
_files = _c.rust_files(_c.build())
for _name, _t in _files.items():
    vlib.gen_if_changed(os.path.join(vlib.VERIF, "harness", "fields", "src", "gen", _name), _t)
