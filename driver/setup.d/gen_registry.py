# executed by ./setup with `ctx` and `vlib` in scope: regenerate coq/gen/Gen_registry.v (C05, C06)
import importlib
import os
_m = importlib.import_module("registry_shapes")
_text, _unrec = _m.main(ctx.repo, None)
vlib.gen_if_changed(os.path.join(vlib.COQ, "gen", "Gen_registry.v"), _text)
if _unrec:
    ctx.log("registry_shapes: unrecognised: %s" % _unrec)
