# executed by ./setup with `ctx`, `vlib` in scope: regenerate coq/gen/Gen_logbridge.v (C18)
import importlib, os
_m = importlib.import_module("logbridge")
_text, _unrec = _m.main(ctx.repo, None)
vlib.gen_if_changed(os.path.join(vlib.COQ, "gen", "Gen_logbridge.v"), _text)
if _unrec:
    ctx.log("logbridge: unrecognised: %s" % _unrec)
