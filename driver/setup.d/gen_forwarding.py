# executed by ./setup with `ctx`, `vlib` in scope: regenerate coq/gen/Gen_forwarding.v (C09)
import importlib, os
_m = importlib.import_module("forwarding")
_text, _unrec = _m.main(ctx.repo, None)
vlib.gen_if_changed(os.path.join(vlib.COQ, "gen", "Gen_forwarding.v"), _text)
if _unrec:
    ctx.log("forwarding: unrecognised: %s" % _unrec)
