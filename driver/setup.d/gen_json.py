# executed by ./setup with `ctx` and `vlib` in scope: regenerate coq/gen/Gen_json.v (C14)
import importlib
import os
_m = importlib.import_module("json_fmt")
_text, _unrec = _m.main(ctx.repo, None)
vlib.gen_if_changed(os.path.join(vlib.COQ, "gen", "Gen_json.v"), _text)
