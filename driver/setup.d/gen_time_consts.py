# executed by ./setup with `ctx`, `vlib` in scope: regenerate coq/gen/Gen_time_consts.v (C20, C16 constants)
import importlib, os
_m = importlib.import_module("time_consts")
_text, _unrec = _m.main(ctx.repo, None)
vlib.gen_if_changed(os.path.join(vlib.COQ, "gen", "Gen_time_consts.v"), _text)
if _unrec:
    ctx.log("time_consts: unrecognised: %s" % _unrec)
