# executed by ./setup with `ctx`, `vlib` in scope: C19's attribute-level-parser harness (harness/lvlattr) includes two
# generated case files that live next to the *instantiated* Cargo.toml.  Write a small all-accepted set so that both
# binaries build during setup; every `./check C19` rewrites them with the cases of that run.
import importlib, os, sys
sys.path.insert(0, os.path.join(vlib.VERIF, "driver"))
_c19 = importlib.import_module("props.c19")
_cases = [{"form": "span", "tok": '"iNfO"', "sem": ["str", "iNfO"]}, {"form": "span", "tok": "1", "sem": ["int", 1]},
          {"form": "ret", "tok": '"warn"', "sem": ["str", "warn"]}, {"form": "err", "tok": "Level::DEBUG", "sem": ["path", 4]}]
_dir = os.path.dirname(vlib.harness_pkg(ctx, "lvlattr"))
for _name, _runner in (("cases_probe.rs", False), ("cases_run.rs", True)):
    _p = os.path.join(_dir, _name)
    if not os.path.exists(_p):
        vlib.gen_if_changed(_p, _c19.attr_file(_cases, range(len(_cases)), _runner)[0])
