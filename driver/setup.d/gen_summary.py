# executed by ./setup with `ctx`, `vlib` in scope: regenerate coq/gen/Gen_summary.v (C08)
import importlib, os
_m = importlib.import_module("summary_shapes")
_text, _unrec = _m.main(ctx.repo, None)
vlib.gen_if_changed(os.path.join(vlib.COQ, "gen", "Gen_summary.v"), _text)
if _unrec:
    ctx.log("summary_shapes: unrecognised: %s" % _unrec)
