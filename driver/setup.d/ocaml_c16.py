# executed by ./setup (after gen_rolling.py: files run in name order) with `ctx`, `vlib` in scope:
# extract Appender/RollingModel.v to OCaml and build the C16 volume driver into .cache/ocaml-c16-<key>/ (see ocaml/c16/).
import importlib, os, sys
sys.path.insert(0, os.path.join(vlib.VERIF, "driver"))
_c16 = importlib.import_module("props.c16")
_exe, _log = _c16.build_ocaml_model(ctx)
ctx.log("C16 extracted model: %s (%s)" % (_exe, _log))
if _exe is None:
    raise RuntimeError("C16 extracted model did not build: " + _log)
