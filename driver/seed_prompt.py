#!/usr/bin/env python3
"""Prints the prompt given to a fresh, independent sub-agent that is asked for a property-breaking change (it sees only the
property text and its own scratch worktree - nothing from /verif)."""
import json, sys
pid = sys.argv[1]; wt = sys.argv[2]; out = sys.argv[3]
p = [json.loads(l) for l in open('/verif/properties.jsonl') if json.loads(l)['id'] == pid][0]
text = p.get('statement') or p.get('text')
print(f"""You are helping to evaluate a verification tool for the Rust project tokio-rs/tracing (the unreleased 0.2 line: `Collect`/`Subscribe` naming). Your job is to play the role of a developer who introduces a subtle regression.

You have your own scratch git worktree of the repository at `{wt}` (a detached checkout; Cargo.lock is in place; the sandbox is OFFLINE: always use `cargo ... --offline`). Work ONLY inside `{wt}` and `{out}`. Do NOT read or list anything under `/verif` and do NOT touch `/repo` — your result must be independent of them.

The semantic property under study ("{p.get('title')}"):

    {text}

Produce TWO different, independent changes (variant A and variant B) to the library source code (not to tests) under `{wt}`, each of which
  1. still compiles (whole workspace: `cargo build --workspace --offline`),
  2. still passes the existing test suite — run at least `cargo test -p <every crate you touched and the crates depending on it that are relevant> --offline --no-fail-fast` with the features those crates' tests need (e.g. `-p tracing-subscriber --features env-filter,json,tracing-log`), and compare with the same run on the unmodified tree: the set of passing tests must be the same (a few tests fail on the unmodified tree already: tracing-core `value_sets_with_fields_from_other_callsites_are_empty`, the tracing-journald `journal::*` tests, tracing-attributes `ui::async_instrument` — ignore those),
  3. BREAKS the property above, and
  4. is REALISTIC and SUBTLE: the kind of slip or well-meant "optimisation"/"clean-up" a maintainer could make and a reviewer could miss, which needs something specific to manifest — a particular interleaving, a fault or panic at a particular point, a multi-step sequence of operations, an unusual input or configuration, or two cooperating sites that each look fine alone. NOT a change that ordinary use would expose at once (the existing tests pass, after all), not a deleted feature, not something guarded by an obviously suspicious condition (no magic constants, no "if name == ...").

For each variant also write a demonstration: a small standalone cargo package (path dependencies on the crates in `{wt}`, an empty `[workspace]` table in its Cargo.toml, edition 2018 or 2021, only dependencies that are already in `{wt}/Cargo.lock`) whose `cargo run --offline` (or `cargo test --offline`) exits non-zero WITH your change applied and exits 0 WITHOUT it, printing what went wrong in terms of the property. Verify both directions yourself.

Deliver, for variant V in {{A, B}}, exactly these files:
  `{out}/V/patch.diff`   — `git -C {wt} diff` of ONLY that variant's change (the two variants are separate patches, each applying to the clean tree),
  `{out}/V/demo/`        — the demonstration package (Cargo.toml, src/…; no target dir),
  `{out}/V/meta.json`    — {{"property": "{pid}", "variant": "V", "summary": "...what was changed and why it breaks the property...", "files_changed": [...], "what_it_needs_to_manifest": "...", "existing_tests": "...what you ran and the result...", "demo_cmd": "cargo run --offline" or "cargo test --offline"}}.
Leave the worktree CLEAN at the end (`git -C {wt} checkout -- .`; no untracked source files), and remove build output you created outside `{wt}/target` (you may leave `{wt}/target`). Your final message: two short paragraphs, one per variant, saying what the change is and what it needs to manifest.""")
