"""C12 — After a reload returns, every thread filters with the new value.

Leg A: theorems of coq/theories/Properties/C12.v about the micro-step model Dispatch/Sched_Model.v (reload =
       [upgrade weak; write-lock the cell; assign; unlock; rebuild_interest_cache], every schedule).
Leg B: (i) operation-granularity correspondence on the real tracing-subscriber reload layer, used as a global layer
       (`registry().with(reload_layer)`) and as a per-layer filter (`layer.with_filter(reload_filter)`), reloading
       between LevelFilter / Targets / EnvFilter / DynFilterFn / None values, with emissions from a callsite pool on
       1-3 threads; (ii) forced schedules of a reload racing with emissions (and other reloads / drops) through the
       H3 yield points (skipped and recorded when the repository has no yield call sites).
Leg C: oracle on the implementation's observations: after `reload` returned every emission (any thread, cached or
       not) is delivered iff the NEW value accepts it and MAX_LEVEL is not below the new hint; an emission racing
       with reloads is judged by one of the values in play (old or new); a reload on a dropped collector returns
       Err(is_dropped) and changes nothing."""
import json
import os
import sys

import vlib
from vlib import Report, coq_prove, cargo_build

from props import sched_common as sc
from props.c04 import detect_hooks, compare_and_judge, tail, interleavings, load_corpus

R_KINDS = ["level", "level", "targets", "env", "dyn", "none"]


def rand_rspec(rng):
    k = rng.choice(R_KINDS)
    if k == "level":
        return (k, rng.choice([0, 1, 2, 3, 4, 5]))
    if k in ("targets", "env"):
        return (k, rng.randint(0, 5), rng.randint(0, 5))
    if k == "dyn":
        h = rng.randint(1, 5)
        return (k, rng.randint(0, h), h)
    return ("none",)


def gen_history(rng, malformed=False):
    n = rng.randint(1, 3)
    filters = [rand_rspec(rng) for _ in range(rng.randint(3, 7))]
    ncoll = rng.randint(1, 3)
    css = rng.sample(range(sc.NCS), rng.randint(3, 8))
    ops = []
    kinds = {}
    for c in range(ncoll):
        kinds[c] = rng.choice(["rlayer", "rlayer2", "rlayer2", "rfilter"])
        ops.append((rng.randrange(n), ("new", c, rng.randrange(len(filters)), kinds[c])))
    for t in range(n):
        if rng.random() < 0.85:
            ops.append((t, ("setdefault", rng.randrange(ncoll))))
    for _ in range(rng.randint(6, 36)):
        t = rng.randrange(n)
        r = rng.random()
        if malformed and r < 0.2:
            op = rng.choice([("reload", 9, 0), ("drop", rng.randrange(ncoll)), ("close",), ("reload", rng.randrange(ncoll), rng.randrange(len(filters)))])
        elif r < 0.55:
            op = ("emit", rng.choice(css))
        elif r < 0.85:
            op = ("reload", rng.randrange(ncoll), rng.randrange(len(filters)))
        elif r < 0.89:
            op = ("drop", rng.randrange(ncoll))
        elif r < 0.93:
            op = ("setdefault", rng.randrange(ncoll))
        elif r < 0.96:
            op = ("close",)
        elif r < 0.98:
            op = ("rebuild",)
        else:
            c = ncoll
            ncoll += 1
            kinds[c] = "plain"
            op = ("new", c, rng.randrange(len(filters)), "plain") if all(f[0] != "env" for f in filters) else ("emit", rng.choice(css))
            if op[0] != "new":
                ncoll -= 1
        if op[0] == "reload" and kinds.get(op[1]) == "plain":
            op = ("emit", rng.choice(css))
        ops.append((t, op))
    probes = [(t, ("emit", cs)) for t in range(n) for cs in css[:4]]
    return {"n": n, "filters": filters, "pre": ops, "progs": [[] for _ in range(n)], "sched": [], "post": probes}


def flips_cached_verdict(case):
    """a reload that flips the verdict of a callsite already hit"""
    hit = set()
    val = {}
    f = case["filters"]
    for _, op in case["pre"]:
        if op[0] == "new":
            val.setdefault(op[1], op[2])
        elif op[0] == "emit":
            hit.add(op[1])
        elif op[0] == "reload" and op[1] in val:
            old, new = f[val[op[1]]], f[op[2]]
            if any(sc.accepts(old, cs) != sc.accepts(new, cs) for cs in hit):
                return True
            val[op[1]] = op[2]
    return False


def gen_scenario(rng):
    n = rng.choice([2, 2, 3])
    filters = [rand_rspec(rng) for _ in range(rng.randint(2, 4))]
    css = rng.sample(range(sc.NCS), rng.randint(1, 3))
    kind = rng.choice(["rlayer", "rlayer2", "rfilter"])
    pre = [(0, ("new", 0, rng.randrange(len(filters)), kind))]
    two = rng.random() < 0.25
    if two:
        pre.append((0, ("new", 1, rng.randrange(len(filters)), rng.choice(["rlayer", "rlayer2", "rfilter"]))))
    for t in range(n):
        pre.append((t, ("setdefault", rng.randrange(2) if two else 0)))
    for cs in css:
        if rng.random() < 0.75:
            pre.append((rng.randrange(n), ("emit", cs)))
    progs = []
    for t in range(n):
        p = []
        for _ in range(rng.randint(1, 2)):
            r = rng.random()
            if (t == 0 and not p) or r < 0.35:
                p.append(("reload", rng.randrange(2) if two else 0, rng.randrange(len(filters))))
            elif r < 0.9:
                p.append(("emit", rng.choice(css)))
            elif r < 0.95:
                p.append(("drop", 0))
            else:
                p.append(("rebuild",))
        progs.append(p)
    post = [(t, ("emit", cs)) for t in range(n) for cs in css]
    post.append((0, ("reload", 0, rng.randrange(len(filters)))))
    post += [(t, ("emit", cs)) for t in range(n) for cs in css[:2]]
    return {"n": n, "filters": filters, "pre": pre, "progs": progs, "sched": [], "post": post}


def schedules_for(rng, n, how_many):
    out = []
    for _ in range(how_many):
        order = list(range(n))
        rng.shuffle(order)
        r = rng.random()
        if r < 0.5:
            a = order[0]
            s = [a] * rng.randint(0, 22)
            for b in order[1:]:
                s += [b] * 70
            s += [a] * 70
        elif r < 0.85:
            a, b = order[0], order[1]
            s = [a] * rng.randint(0, 18) + [b] * rng.randint(0, 12) + [a] * rng.randint(0, 18)
            for c in order[2:]:
                s += [c] * rng.randint(0, 60)
            s += [b] * 70 + [a] * 70
        else:
            s = []
            for _ in range(rng.randint(4, 14)):
                s += [rng.randrange(n)] * rng.choice([1, 1, 2, 3, 5])
        out.append(s + tail(n, 160))
    return out


def exhaustive_scenarios():
    """one reload against one emission at an already cached callsite: EVERY interleaving of their yield-granularity steps
    (reload: 13 steps with one dispatcher and one registered callsite, 17 with two dispatchers)"""
    mk = lambda kind, filters, pre_extra, cs: {
        "n": 2, "filters": filters,
        "pre": pre_extra + [(0, ("new", 0, 0, kind)), (0, ("setdefault", 0)), (1, ("setdefault", 0)), (1, ("emit", cs))],
        "progs": [[("reload", 0, 1)], [("emit", cs)]],
        "post": [(1, ("emit", cs)), (0, ("emit", cs))]}
    return [
        ("less-verbose-vs-cached-always", mk("rlayer", [("level", 5), ("level", 2)], [], 3), 13, 3),
        # a second collector (never for target a, hint TRACE) keeps MAX_LEVEL up so that the emission reaches the cache
        ("more-verbose-vs-cached-never", mk("rlayer", [("level", 2), ("level", 5), ("targets", 0, 5)], [(0, ("new", 1, 2, "plain"))], 3), 17, 2),
        ("dyn-vs-cached-sometimes", mk("rfilter", [("dyn", 5, 5), ("dyn", 1, 5)], [], 3), 13, 4),
    ]


# ------------------------------------------------------------------------------------------------
# assumption check: a reloadable EnvFilter with span-scoped directives, changed by reload (whole value) and by modify (in place),
# behaves after every step like a FRESH EnvFilter parsed from the same directive list (harness/sched/src/bin/h_envreload.rs)

ENV_BASE = ["warn", "info", "error", "off", "a=debug", "b=trace", "a=info,b=warn"]
ENV_DYN = ["[req{id=1}]=debug", "[req{id=2}]=debug", "[req{id=3}]=trace", "[req]=trace", "[req]=info", "a[req{id=1}]=trace",
           "[job]=debug", "[job]=trace", "[req{id=2}]=info", "b[job]=trace", "[req{id=1}]=warn"]


F12_SHAPED = {"[req{id=1}]=warn"}


def gen_env_case(rng):
    """steps: ('init', [d]) ('reload', [d]) ('modify', d) ('newdispatch',) ('rebuild',) ('probe', t)"""
    cur = [rng.choice(ENV_BASE)] + rng.sample(ENV_DYN, rng.choice([0, 1, 1, 2]))
    steps = [("init", list(cur))]
    if rng.random() < 0.85:
        steps.append(("probe", rng.randrange(2)))       # the callsites are known to the filter BEFORE it changes
    for _ in range(rng.randint(1, 4)):
        r = rng.random()
        if r < 0.55:
            steps.append(("modify", rng.choice(ENV_DYN + ENV_DYN + ENV_BASE[:4] + ["a=trace", "b=error"])))
        elif r < 0.8:
            steps.append(("reload", [rng.choice(ENV_BASE)] + rng.sample(ENV_DYN, rng.choice([0, 1, 2]))))
        elif r < 0.9:
            steps.append(("newdispatch",))
        else:
            steps.append(("rebuild",))
        steps.append(("probe", 0))
        steps.append(("probe", 1))
    # a layer answering `sometimes` sits above the reloadable filter (seeded C12-I).  Not when a span directive is less verbose than
    # the span it names (`[req{id=1}]=warn`, `req` is an INFO span): there EnvFilter's register_callsite says `always` and its
    # `enabled` says false - known finding F12 (C08 / C11) - so whether the span exists depends on which of the two is consulted,
    # and the comparison with the plain stack would report F12, not anything about reloading.
    used = [d for st in steps if st[0] in ("init", "reload") for d in st[1]] + [st[1] for st in steps if st[0] == "modify"]
    if rng.random() < 0.4 and not any(d in F12_SHAPED for d in used):
        steps[0] = ("inits", steps[0][1])
    return steps


def env_text(steps):
    out = []
    for st in steps:
        if st[0] in ("init", "inits", "reload"):
            out.append("%s %s" % (st[0], ",".join(st[1])))
        elif st[0] == "modify":
            out.append("modify %s" % st[1])
        elif st[0] == "probe":
            out.append("probe %d" % st[1])
        else:
            out.append(st[0])
    return "\n".join(out) + "\n"


def env_probes(binpath, text, path):
    with open(path, "w") as f:
        f.write(text)
    rc, out = vlib.run_bin(binpath, [path], timeout=120)
    probes, errors = [], []
    for line in out.splitlines():
        if not line.startswith("{"):
            continue
        try:
            o = json.loads(line)
        except ValueError:
            errors.append(line[:200])
            continue
        if o.get("k") == "probe":
            probes.append((o["t"], o["d"], o["max"]))
        elif o.get("k") in ("error", "panic"):
            errors.append(line[:200])
    return rc, probes, errors


ENV_CORPUS = [
    # seeded C12-D: the span callsite is known to the filter, then a directive for the same span is added IN PLACE
    [("init", ["warn", "[req{id=1}]=debug"]), ("probe", 0), ("modify", "[req{id=2}]=debug"), ("probe", 0), ("probe", 1)],
    [("init", ["error", "[req]=info"]), ("probe", 1), ("modify", "[req]=trace"), ("probe", 0), ("probe", 1), ("modify", "[job]=debug"), ("probe", 1)],
    [("init", ["info"]), ("probe", 0), ("modify", "[job]=trace"), ("probe", 0), ("reload", ["warn", "[req{id=3}]=trace"]), ("probe", 1), ("probe", 0)],
    # a layer answering `sometimes` above the reloadable filter: the reloaded filter must still be told about every callsite (seeded C12-I)
    [("inits", ["warn"]), ("probe", 0), ("reload", ["warn", "[req]=debug"]), ("probe", 0), ("probe", 1), ("modify", "[job]=trace"), ("probe", 1)],
]


def env_stream(ctx, rep, binpath, n):
    d = os.path.join(ctx.work, "env")
    os.makedirs(d, exist_ok=True)
    cases = list(ENV_CORPUS) + [gen_env_case(ctx.rng) for _ in range(n)]
    jobs = []
    for i, steps in enumerate(cases):
        jobs.append((i, steps))

    def one(job):
        i, steps = job
        rc, probes, errors = env_probes(binpath, env_text(steps), os.path.join(d, "e%04d.case" % i))
        res = {"rc": rc, "errors": errors, "diffs": []}
        cur, k = [], 0
        for j, st in enumerate(steps):
            if st[0] in ("init", "inits", "reload"):
                cur = list(st[1])
            elif st[0] == "modify":
                cur = cur + [st[1]]
            elif st[0] == "probe":
                if k >= len(probes):
                    res["errors"].append("probe %d missing" % k)
                    break
                got = probes[k]
                k += 1
                # the reference: a fresh process, the filter parsed from the same directives, probed on the same thread - always under the
                # plain recording layer: a layer that answers `sometimes` and accepts everything (`inits`) filters nothing, so it must not
                # change what is delivered either (and a change that breaks both alike cannot hide behind a like-for-like reference)
                _, ref, rerr = env_probes(binpath, env_text([("init", cur), ("probe", st[1])]), os.path.join(d, "e%04d_r%02d.case" % (i, j)))
                if rerr or len(ref) != 1:
                    res["errors"].append("reference failed: %s" % rerr)
                    continue
                rank = {"off": 0, "error": 1, "warn": 2, "info": 3, "debug": 4, "trace": 5}
                # deliveries must be exactly the fresh filter's; the global max level may only be too HIGH (an unrelated collector
                # that came and went leaves it up), never below what the fresh filter needs
                if got[1] != ref[0][1] or rank.get(got[2].lower(), -1) < rank.get(ref[0][2].lower(), 9):
                    last = next((x for x in reversed(steps[:j]) if x[0] in ("modify", "reload", "init", "inits")), None)
                    res["diffs"].append({"after_step": list(last) if last else None, "probe_thread": st[1], "directives": cur,
                                         "observed": got[1], "observed_max": got[2], "fresh_filter": ref[0][1], "fresh_max": ref[0][2]})
        return res

    from concurrent.futures import ThreadPoolExecutor
    with ThreadPoolExecutor(max_workers=max(2, vlib.NCPU // 2)) as ex:
        results = list(ex.map(one, jobs))
    for (i, steps), res in zip(jobs, results):
        rep.evaluations += 1
        txt = env_text(steps)
        for st in steps:
            rep.count("env-op:" + st[0])
        if any(st[0] == "modify" and "[" in st[1] for st in steps):
            rep.nontrivial.add(("env", txt))
        if res["rc"] != 0 or res["errors"]:
            rep.violation("EnvFilter reload/modify history failed to run: rc=%s %s" % (res["rc"], res["errors"][:2]), {"case": txt})
        for df in res["diffs"][:1]:
            ctxs = [a for a, b in zip(df["observed"], df["fresh_filter"]) if a != b]
            rep.violation("after %s returned, emissions on thread %d are not judged by the new filter value: observed %s (max level %s) but a fresh "
                          "EnvFilter parsed from the same directives [%s] gives %s (max level %s)"
                          % (" ".join(str(x) for x in (df["after_step"] or [])), df["probe_thread"], ctxs, df["observed_max"],
                             ",".join(df["directives"]), [b for a, b in zip(df["observed"], df["fresh_filter"]) if a != b], df["fresh_max"]),
                          {"case": txt, "first_difference": df, "replay": "harness/sched h_envreload <case file>"})
    rep.count("env-filter-histories", len(cases))


def run(ctx):
    rep = Report(ctx)
    rep.rule = ("op-granularity histories: non-trivial = contains a reload that flips the verdict (old value vs new value) of a callsite that was "
                "already hit; distinct = distinct case text. forced schedules: non-trivial = a preemption while some thread is inside an operation; "
                "distinct = distinct (scenario, schedule)")
    rep.trusted_base = [
        "Coq 8.16.1 kernel + vm_compute", "harness/sched/h_sched.rs (observing Collect / Filter wrappers around registry().with(reload layer) and layer.with_filter(reload filter), deterministic scheduler)",
        "hooks/H3_core.patch (add-only yield points; reload.rs: before the cell's write lock, between unlock and rebuild, before each cell read)",
        "driver/props/sched_common.py: Python specification of LevelFilter / Targets / EnvFilter(static directives) / DynFilterFn / None verdicts and hints",
        "tracing-subscriber's Layered / Filtered / Registry composition is trusted to present the reloadable value's answers as the collector's answers (C07-C09's subject); the correspondence exercises it"]
    rep.assumptions = [
        "sequential consistency; lock poisoning not modelled (no callback panics)",
        "the reloadable value's callbacks are pure functions of the value (register_callsite / enabled / max_level_hint read the cell once each)",
        "the collector has one reloadable cell; reload of a Filtered *layer* (documented restriction of Handle::reload) is not exercised",
        "forced schedules do not preempt while the cell's write lock is held (no yield point inside; the theorems do)"]
    # ---- translator: the yield points of the modelled sources (static tie, proved equal to the model's in Sched_Points.v)
    sys.path.insert(0, os.path.join(vlib.VERIF, "translators"))
    import sched_points
    text, unrec = sched_points.main(ctx.repo, None)
    vlib.gen_if_changed(os.path.join(vlib.COQ, "gen", "Gen_sched_points.v"), text)
    rep.tie("translator:Gen_sched_points", not unrec, "; ".join(unrec[:4]), unrec[:1] or None)
    rep.proof = coq_prove(ctx, "C12", ["theories/Properties/C12.vo"])
    ok, paths, log = cargo_build(ctx, "sched", ["h_sched", "h_envreload"])
    if not ok:
        rep.tie("build:h_sched", False, vlib.last_error(log))
        return rep
    binpath = paths["h_sched"]
    hooks, seen, _ = detect_hooks(ctx, binpath)
    ctx.notes.append("H3 yield call sites %s in %s (yield ids seen by the canary: %s)" % ("present" if hooks else "ABSENT: forced-schedule part skipped", ctx.repo, seen))
    rep.extra["h3_hooks_present"] = hooks
    if hooks:
        sc.calibrate_locks(ctx, rep, binpath)
    thorough = ctx.thorough()
    rng = ctx.rng

    n_hist = 1400 if thorough else 220
    corpus = load_corpus(hooks, "C12")
    hist = [c for _, c in corpus if not any(c["progs"])]
    hist += [gen_history(rng, malformed=(i % 7 == 6)) for i in range(n_hist)]
    impl = sc.run_impl(ctx, binpath, hist, "hist")
    model = None
    try:
        model = sc.model_eval(ctx, hist, "mhist")
    except Exception as ex:
        rep.tie("model-eval:histories", False, str(ex)[:300])
    compare_and_judge(ctx, rep, hist, impl, model, "histories", lambda c, im, fl: flips_cached_verdict(c))
    for c in hist:
        rep.count("threads:%d" % c["n"])
        for _, op in c["pre"]:
            if op[0] == "new":
                rep.count("stack:" + op[3])
            if op[0] == "reload" and op[2] < len(c["filters"]):
                rep.count("reload-to:" + c["filters"][op[2]][0])

    if hooks:
        cases = [c for _, c in corpus if any(c["progs"])]
        n_scen = 220 if thorough else 40
        per = 10 if thorough else 6
        for _ in range(n_scen):
            base = gen_scenario(rng)
            for s in schedules_for(rng, base["n"], per):
                cases.append(dict(base, sched=s))
        ex_names = []
        for name, base, na, nb in exhaustive_scenarios():
            ils = list(interleavings(na, nb))
            if not thorough:
                ils = rng.sample(ils, 50)
            else:
                ex_names.append("%s:%d" % (name, len(ils)))
            for il in ils:
                cases.append(dict(base, sched=il + tail(2, 30)))
        fam = sc.family_cases(sc.c12_families(), rng, thorough) + sc.c12_return_before_rebuild_cases()
        cases += fam
        rep.count("race-family-schedules", len(fam))
        rep.extra["race_families"] = sorted({c["family"] for c in fam})
        impl = sc.run_impl(ctx, binpath, cases, "sched")
        model = None
        try:
            model = sc.model_eval(ctx, cases, "msched")
        except Exception as ex:
            rep.tie("model-eval:schedules", False, str(ex)[:300])
        n_racing = [0]

        def nt(c, im, fl):
            if fl.get("racing_reload"):
                n_racing[0] += 1
            return bool(fl.get("preempted"))
        compare_and_judge(ctx, rep, cases, impl, model, "forced-schedules", nt)
        sc.worlds_wf(ctx, rep, hist + cases, "wf")
        unfinished = sum(1 for im in impl if im["finished"] is False)
        # a schedule that ends before every thread has finished is a property of the GENERATOR, not of tracing: such a case is not
        # judged beyond its scheduled part (no post-phase oracle, no model comparison) and is counted here; the harness then lets the
        # threads run free, and a thread that does not finish within 30 s is still reported as a hang (violation, case = replay)
        rep.count("schedule-ended-early (not judged)", unfinished)
        rep.count("forced-schedules", len(cases))
        rep.count("emissions-overlapping-a-reload", n_racing[0])
        if thorough:
            rep.extra["exhaustive_interleavings"] = ex_names
    else:
        rep.count("forced-schedules-skipped-no-hooks")
    # ---- EnvFilter with span-scoped directives, reload and in-place modify, against a fresh filter
    env_stream(ctx, rep, paths["h_envreload"], 260 if thorough else 45)
    rep.samples = [{"history": sc.case_text(hist[min(2, len(hist) - 1)])[:700]}]
    return rep
