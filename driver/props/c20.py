"""C20 — The default timestamp is the correct UTC calendar time for every instant.

Leg A: theorems of coq/theories/Properties/C20.v over Time/Musl.v = the *generated* Gen_time_consts.v (constants) and
       Gen_datetime.v (every statement of From<SystemTime>::from and Display::fmt, translated from the source on every
       run by translators/datetime_rs.py) in the vocabulary of Time/MuslBase.v, against the specification Time/Civil.v.
Leg B: translators (constants + statements, every run) + correspondence: the strings the real code prints (hook H2) vs the model,
       (a) a few thousand instants evaluated by the Coq kernel (coq_eval, vm_compute), (b) every instant of the run
       through the model extracted to OCaml (built here from the current Musl.vo), debug and release builds.
Leg C: oracle on the implementation's strings: CPython's datetime (driver/c20_oracle.py) on every instant, plus an
       independently written Hinnant civil_from_days inside the harness; fields, microsecond truncation, RFC 3339
       shape for years 0000..9999, byte order of consecutive instants, no panic.
Leg D: statelessness ("for every instant": the text is a function of the instant alone).  harness h_time_state presents
       instants as the FIRST call on a FRESH thread (boundary set: every listed boundary's day and its neighbours at
       00:00:00 / 12:00 / 23:59:59, both ends of i64, a random sample), a few as the first call of a fresh PROCESS, and a
       sample in two orders, with immediate repeats, and interleaved with same-day / 400-year-apart / 2^32-day-apart
       neighbours on one thread; every call is compared with the stateless model (a Gallina function of the instant;
       extracted OCaml, byte for byte) and the Python oracle, and all calls of one instant must agree."""
import filecmp
import glob
import hashlib
import itertools
import json
import os
import shutil
import sys
from concurrent.futures import ThreadPoolExecutor

import vlib
from vlib import Report, coq_prove, cargo_build, run_bin, coq_eval, gen_if_changed

sys.path.insert(0, os.path.join(vlib.VERIF, "translators"))
sys.path.insert(0, os.path.join(vlib.VERIF, "driver"))
import time_consts as tc  # noqa: E402
import datetime_rs as dtr  # noqa: E402
import c20_oracle as orc  # noqa: E402

I64_MIN, I64_MAX = -2 ** 63, 2 ** 63 - 1
NS = 10 ** 9
SPECIAL_NS = [0, 1, 999, 1000, 1001, 499_999, 500_000, 999_499, 999_500, 999_999, 1_000_000, 123_456_789,
              500_000_500, 999_999_499, 999_999_500, 999_999_999]
TODS = [(0, 0), (43200, 500_000_500), (86399, 999_999_999)]
OCAML_DIR = os.path.join(vlib.VERIF, "ocaml", "c20")


def ts(y, m=1, d=1, h=0, mi=0, s=0):
    return orc.days_from_civil(y, m, d) * 86400 + h * 3600 + mi * 60 + s


# ------------------------------------------------------------------------------------------------
# default-configuration leg: what a fmt layer built WITHOUT naming a timer prints (clock not controlled)

import re as _re_default
TS_RE = _re_default.compile(r"\d{4}-\d\d-\d\dT\d\d:\d\d:\d\d\.\d{6}Z")


def default_leg(ctx, rep, model_exe, profiles):
    """harness/time_default: 24 configurations (collector builder, layers on a registry, stand-alone event formatters; full /
    compact / pretty / JSON; span-lifecycle records) that never name a timer.  Per record: clock read t0, the record, clock
    read t1.  Oracle: the record carries an RFC 3339 microsecond UTC timestamp s with text(t0) <= s <= text(t1) in byte order
    (C20_window_sandwich: met by the text of every instant of the window; C20_window_tight: nothing but the text of an
    instant of the window, to the microsecond, meets it).  text(t0), text(t1) come from the real code through hook H2 and are
    tied to the model here.  The clock cannot be replayed: a (configuration, kind) is reported only when it fails in two
    separate runs (a clock stepped backwards between two reads is the one legitimate cause of a miss)."""
    n = 3 if not ctx.thorough() else 25
    for prof in profiles:
        ok, paths, log = cargo_build(ctx, "time_default", ["h_time_default"], release=(prof == "release"))
        if not ok:
            rep.tie("build:h_time_default-" + prof, False, vlib.last_error(log))
            continue
        fails_by_run = []
        n_samples = 0
        tie_bad = None
        for attempt in range(2):
            rc, out = run_bin(paths["h_time_default"], [str(n)], timeout=600)
            rows = []
            for l in out.splitlines():
                if l.startswith("{"):
                    try:
                        rows.append(json.loads(l))
                    except ValueError:
                        rc = rc or 99
            if rc != 0 or not rows:
                rep.tie("run:h_time_default-" + prof, False, "rc=%s %s" % (rc, vlib.last_error(out)))
                break
            fails = {}
            insts = []
            for r in rows:
                key = (r["cfg"], r["kind"])
                t0, t1 = tuple(r["t0"]), tuple(r["t1"])
                insts += [(t0, r["f0"]), (t1, r["f1"])]
                if t1 < t0:
                    rep.count("default-config:clock-stepped-back(sample skipped)")
                    continue
                n_samples += 1
                if attempt == 0:
                    rep.count("default-config:%s" % r["kind"])
                found = TS_RE.findall(r["out"])
                if not found:
                    fails.setdefault(key, ("no-timestamp", r, "the record carries no RFC 3339 microsecond UTC timestamp"))
                elif not (r["f0"] <= found[0] <= r["f1"]):
                    fails.setdefault(key, ("wrong-instant", r, "printed %s, the clock read %s before and %s after the record" % (found[0], r["f0"], r["f1"])))
                elif len(r["f0"]) != 27 or len(r["f1"]) != 27:
                    fails.setdefault(key, ("wrong-instant", r, "window texts are not 27 bytes"))
            fails_by_run.append(fails)
            # tie: the hook's text of t0/t1 = the model's text
            if model_exe and tie_bad is None:
                work = os.path.join(ctx.work, "default-" + prof)
                os.makedirs(work, exist_ok=True)
                mo = os.path.join(work, "model.%d" % attempt)
                rcm, outm = vlib.sh([model_exe, prof, mo], 600, input="".join("P %d %d\n" % x for x, _ in insts))
                ml = open(mo, errors="replace").read().split("\n")[:-1] if rcm == 0 else []
                for (x, f), m in itertools.zip_longest(insts, ml, fillvalue=None):
                    if m != f:
                        tie_bad = {"case": {"sec": x[0], "nsec": x[1], "profile": prof, "descriptors": ["P %d %d" % x]}, "impl": f, "model": m}
                        break
                rep.evaluations += len(insts)
                rep.traces_validated += len(insts) if tie_bad is None else 0
            if not fails:
                break
        else:
            # both runs had failures: report what failed in both
            both = set(fails_by_run[0]) & set(fails_by_run[1])
            for key in sorted(both)[:6]:
                kind, r, detail = fails_by_run[1][key]
                rep.violation("default-config %s: `%s` (%s record, no timer named) — %s [%s build]" % (kind, key[0], key[1], detail, prof),
                              {"kind": "default-config", "what": kind, "cfg": key[0], "record": key[1], "t0": r["t0"], "t1": r["t1"],
                               "text_t0": r["f0"], "text_t1": r["f1"], "written": r["out"], "profile": prof,
                               "note": "the clock is not controlled in this leg: re-running the check re-runs the configuration"})
        rep.tie("correspondence:default-config-window-texts:" + prof, tie_bad is None,
                "hook text of every window end = the model's (%d samples)" % n_samples, tie_bad)
        rep.count("default-config samples:" + prof, n_samples)


# ------------------------------------------------------------------------------------------------
# case generation

def boundaries(ctx):
    """name -> second count of an instant around which calendar conversions typically break."""
    rng = ctx.rng
    B = {"epoch": 0}
    for y in [-401, -400, -100, -4, -1, 0, 1, 4, 100, 400, 1000, 1582, 1600, 1700, 1800, 1900, 1901, 1969, 1970, 1972,
              1999, 2000, 2001, 2004, 2024, 2038, 2100, 2200, 2300, 2400, 2401, 9999, 10000, 10001]:
        B["year %d" % y] = ts(y)
    for y in [-400, -4, 0, 4, 100, 400, 1600, 1900, 1996, 2000, 2023, 2024, 2100, 2400, 9996, 10000]:
        B["feb28|29 %d" % y] = ts(y, 2, 28) + 86400      # the instant Feb 28 ends (Feb 29 or Mar 1 begins)
        B["mar1 %d" % y] = ts(y, 3, 1)
    # the 400/100/4-year cycle structure counted from 2000-03-01 (where musl-style algorithms anchor)
    anchor = orc.days_from_civil(2000, 3, 1)
    for k in [-5, -2, -1, 0, 1, 2, 19]:
        B["400y-cycle %d" % k] = (anchor + 146097 * k) * 86400
    for k in [1, 2, 3]:
        B["century %d" % k] = (anchor + 36524 * k) * 86400
    for k in [1, 24, 25, 26]:
        B["4y-block %d" % k] = (anchor + 1461 * k) * 86400
    B["i32::MAX secs"] = 2 ** 31 - 1
    B["i32::MIN secs"] = -2 ** 31
    B["u32::MAX secs"] = 2 ** 32 - 1
    B["i32::MAX days"] = (2 ** 31) * 86400
    B["i32::MIN days"] = -(2 ** 31) * 86400
    B["i32::MAX days since 2000-03-01"] = (2 ** 31 + anchor) * 86400
    B["i32::MIN days since 2000-03-01"] = (-(2 ** 31) + anchor) * 86400
    n_rand = 40 if not ctx.thorough() else 160
    for _ in range(n_rand):
        y = rng.randint(-6000, 14000)
        m = rng.choice([1, 3, 3, rng.randint(1, 12)])
        B["random %d-%02d-01" % (y, m)] = ts(y, m, 1)
    for _ in range(n_rand // 2):
        y = rng.randint(-29 * 10 ** 10, 29 * 10 ** 10)
        m = rng.choice([1, 3])
        B["random far %d-%02d-01" % (y, m)] = ts(y, m, 1)
    return B


def truncation_instants(ctx):
    """Instants at which a counter of the conversion (year, day number, second count; counted from the epoch and from
    2000-03-01) is k * 2^w + r for the usual truncation widths w = 16, 31, 32 (i16/u16/i32/u32 casts) and a small residue r:
    a narrowing cast somewhere in the code maps such a value onto an ordinary one (year 2^32 + 2024 -> 2024).
    Years: EVERY multiple of 2^32 and 2^31 inside the range of SystemTime (|k| <= 68 resp. 136), a sample of the 2^16 ones;
    residues 0, 1, 1970, 2024, 9999, 10000, -1; start / middle / end of the year.  Days and seconds: a sample of k, r in -1, 0, 1.
    -> sorted list of (sec, nsec)."""
    rng = ctx.rng
    th = ctx.thorough()
    out = set()

    def put(sec, nsec):
        if I64_MIN <= sec <= I64_MAX:
            out.add((sec, nsec))
    YMAX = 292277026596
    ks = {}
    ks[32] = [k for k in range(-(YMAX >> 32) - 1, (YMAX >> 32) + 2) if k]
    ks[31] = [k for k in range(-(YMAX >> 31) - 1, (YMAX >> 31) + 2) if k]
    k16 = set(range(-8, 9)) | {s * 2 ** e for e in range(4, 23) for s in (-1, 1)}
    k16 |= {rng.randint(-(YMAX >> 16), YMAX >> 16) for _ in range(60 if not th else 600)}
    ks[16] = sorted(k for k in k16 if k)
    for w, kl in ks.items():
        for k in kl:
            for r in (0, 1, 1970, 2024, 9999, 10000, -1):
                y = k * 2 ** w + r
                if abs(y) > YMAX + 1:
                    continue
                put(ts(y), 0)                                           # start of the year
                put(ts(y, 7, 2, 12), 500_000_500)                       # middle
                put(ts(y, 12, 31, 23, 59, 59), NS - 1)                  # end (and the next year's start follows via r+1 / r = 0, -1)
    anchor = orc.days_from_civil(2000, 3, 1)
    DMAX = 2 ** 63 // 86400
    for w in (16, 31, 32):
        kd = set(range(-8, 9)) | {s * 2 ** e for e in range(4, 48 - w) for s in (-1, 1)}
        kd |= {rng.randint(-(DMAX >> w), DMAX >> w) for _ in range(40 if not th else 400)}
        for k in kd:
            for r in (-1, 0, 1):
                for base in (0, anchor):
                    d = k * 2 ** w + r + base
                    put(d * 86400, 0)
                    put(d * 86400 + 43200, 1)
                    put(d * 86400 + 86399, NS - 1)
        ksec = set(range(-8, 9)) | {s * 2 ** e for e in range(4, 63 - w) for s in (-1, 1)}
        ksec |= {rng.randint(-(2 ** (63 - w)), 2 ** (63 - w)) for _ in range(40 if not th else 400)}
        for k in ksec:
            for r in (-1, 0, 1):
                for base in (0, anchor * 86400):
                    put(k * 2 ** w + r + base, rng.choice(SPECIAL_NS))
    return sorted(out)


class Cases:
    def __init__(self):
        self.desc = []          # (category, descriptor line, count)
        self.windows = {}       # nsec -> list of (lo, hi) second intervals that are non-trivial by construction
        self.explicit_nontrivial = set()

    def P(self, cat, sec, nsec):
        if I64_MIN <= sec <= I64_MAX:
            self.desc.append((cat, "P %d %d" % (sec, nsec), 1))

    def R(self, cat, s0, step, count, nsec):
        # clip to i64
        while count > 0 and s0 < I64_MIN:
            s0 += step
            count -= 1
        while count > 0 and s0 + (count - 1) * step > I64_MAX:
            count -= 1
        if count > 0:
            self.desc.append((cat, "R %d %d %d %d" % (s0, step, count, nsec), count))

    def total(self):
        return sum(c for _, _, c in self.desc)


def near(sec, bsecs_sorted):
    """within 2 days of a listed boundary"""
    import bisect
    i = bisect.bisect_left(bsecs_sorted, sec)
    for j in (i - 1, i):
        if 0 <= j < len(bsecs_sorted) and abs(bsecs_sorted[j] - sec) <= 2 * 86400:
            return True
    return False


def generate(ctx, rep):
    rng = ctx.rng
    th = ctx.thorough()
    C = Cases()
    # 0. corpus first
    for f in sorted(glob.glob(os.path.join(vlib.VERIF, "corpus", "C20", "*.txt"))):
        for line in open(f):
            line = line.split("#")[0].strip()
            if line:
                n = 1 if line.startswith("P") else int(line.split()[3])
                C.desc.append(("corpus", line, n))
    B = boundaries(ctx)
    bs = sorted(set(B.values()))
    W = 300 if not th else 3600        # seconds each side
    D = 400 if not th else 1000        # days each side
    # 1. every second around each boundary; sub-second part rotates through the special values
    for i, b in enumerate(bs):
        nsec = SPECIAL_NS[i % len(SPECIAL_NS)]
        C.R("window-seconds", b - W, 1, 2 * W, nsec)
        C.windows.setdefault(nsec, []).append((max(b - W, I64_MIN), min(b + W, I64_MAX + 1)))
        # the second roll-over with the largest / smallest sub-second part (order, truncation)
        C.P("rollover", b - 1, 999_999_999)
        C.P("rollover", b, 0)
        C.P("rollover", b, 999)
        C.P("rollover", b, 1000)
        # 2. every day around the boundary at three times of day
        for tod, ns2 in TODS:
            day0 = (b // 86400 - D) * 86400 + tod
            C.R("window-days", day0, 86400, 2 * D, ns2)
    # 3. the ends of the range of SystemTime
    C.R("i64-extremes", I64_MIN, 1, W, 0)
    C.R("i64-extremes", I64_MIN, 1, W, 999_999_999)
    C.R("i64-extremes", I64_MAX - W + 1, 1, W, 0)
    C.R("i64-extremes", I64_MAX - W + 1, 1, W, 999_999_999)
    C.R("i64-extremes", I64_MIN, 86400, D, 1)
    C.R("i64-extremes", I64_MAX - (D - 1) * 86400, 86400, D, 1)
    # 4. instants before 1970 with and without a sub-second part
    n_pre = 3000 if not th else 60000
    pre = []
    for _ in range(n_pre):
        mag = rng.randint(1, 10 ** rng.randint(1, 18))
        sec = -min(mag, 2 ** 63)
        nsec = rng.choice([0, 0, rng.choice(SPECIAL_NS), rng.randint(0, NS - 1)])
        pre.append((sec, nsec))
    # 5. random instants over the whole range (uniform, and log-uniform in magnitude), random sub-second part
    n_rnd = 20000 if not th else 400000
    rnd = []
    for i in range(n_rnd):
        if i % 2:
            sec = rng.randint(I64_MIN, I64_MAX)
        else:
            sec = rng.choice([-1, 1]) * rng.randint(0, 2 ** rng.randint(1, 63) - 1)
        nsec = rng.choice([rng.choice(SPECIAL_NS), rng.randint(0, NS - 1), rng.randint(0, NS - 1)])
        rnd.append((sec, nsec))
    for cat, lst in (("pre-1970", pre), ("random", rnd)):
        for sec, nsec in sorted(set(lst)):
            C.P(cat, sec, nsec)
            if (sec < 0 and nsec != 0) or near(sec, bs):
                C.explicit_nontrivial.add((sec, nsec))
    # 5b. counters at multiples of the usual truncation widths (2^16, 2^31, 2^32 years / days / seconds) + small residues
    for sec, nsec in truncation_instants(ctx):
        C.P("truncation-widths", sec, nsec)
        C.explicit_nontrivial.add((sec, nsec))
    # 6. day sweeps
    if th:
        d0, d1 = orc.days_from_civil(1, 1, 1), orc.days_from_civil(9999, 12, 31)
        for tod, ns2 in TODS:
            C.R("sweep 0001..9999", d0 * 86400 + tod, 86400, d1 - d0 + 1, ns2)
        rep.extra["complete_day_sweep"] = "every day 0001-01-01..9999-12-31 at 00:00:00.0, 12:00:00.5000005, 23:59:59.999999999"
    else:
        # one whole 400-year cycle (every day of it), placed at a seed-dependent year, at the last second of the day
        y0 = rng.randint(1, 9599)
        C.R("sweep 400y", ts(y0) + 86399, 86400, 146097, 999_999_999)
        rep.extra["cycle_day_sweep"] = "every day of the 400 years starting %04d-01-01 at 23:59:59.999999999" % y0
    return C, B


def nontrivial_count(C, B):
    """|{instants within 2 days of a listed boundary}| over the second-level windows (interval union per sub-second
    value) + the explicit non-trivial instants + 5 days x 3 times of day per boundary in the day windows."""
    n = len(C.explicit_nontrivial)
    for nsec, ivs in C.windows.items():
        ivs.sort()
        cur_lo, cur_hi = None, None
        for lo, hi in ivs:
            if cur_hi is None or lo > cur_hi:
                if cur_hi is not None:
                    n += cur_hi - cur_lo
                cur_lo, cur_hi = lo, hi
            else:
                cur_hi = max(cur_hi, hi)
        if cur_hi is not None:
            n += cur_hi - cur_lo
    n += len(set(B.values())) * 5 * len(TODS)
    return n


class Counted:
    """A set-like object whose size is computed (finalize only takes len())."""
    def __init__(self, n):
        self.n = n

    def __len__(self):
        return self.n


def make_shards(desc, nshards, chunk=40000):
    """Split long progressions into chunks, deal the chunks round-robin (file order kept inside a shard)."""
    items = []
    for cat, line, n in desc:
        p = line.split()
        if p[0] == "R" and n > chunk:
            s0, step, count, nsec = int(p[1]), int(p[2]), int(p[3]), int(p[4])
            off = 0
            while off < count:
                c = min(chunk, count - off)
                items.append(("R %d %d %d %d" % (s0 + off * step, step, c, nsec), c))
                off += c
        else:
            items.append((line, n))
    # contiguous blocks of roughly equal instant count: keeps neighbouring instants neighbours (order oracle)
    total = sum(n for _, n in items)
    per = max(1, -(-total // nshards))
    shards, cur, cur_n = [], [], 0
    for line, n in items:
        cur.append(line)
        cur_n += n
        if cur_n >= per:
            shards.append(cur)
            cur, cur_n = [], 0
    if cur:
        shards.append(cur)
    return shards


# ------------------------------------------------------------------------------------------------
# the extracted model

def build_ocaml_model(ctx):
    """coqc extract.v (against the current Musl.vo) + ocamlopt, cached by content hash.  -> (path|None, log)"""
    rc, out = vlib.coq_make(["theories/Time/Musl.vo"])
    if rc != 0:
        return None, "coq make Musl.vo: " + vlib.last_error(out)
    h = hashlib.sha1()
    for p in [os.path.join(vlib.COQ, "theories", "Time", "Musl.v"), os.path.join(vlib.COQ, "theories", "Time", "MuslBase.v"),
              os.path.join(vlib.COQ, "theories", "Time", "Ints.v"), os.path.join(vlib.COQ, "gen", "Gen_time_consts.v"),
              os.path.join(vlib.COQ, "gen", "Gen_datetime.v"), os.path.join(OCAML_DIR, "extract.v"), os.path.join(OCAML_DIR, "main.ml")]:
        h.update(open(p, "rb").read())
    key = h.hexdigest()[:16]
    d = os.path.join(vlib.CACHE, "ocaml-c20-" + ctx.repo_key, key)
    exe = os.path.join(d, "c20_model")
    if os.path.exists(exe):
        return exe, "cached"
    with vlib.flock("ocaml-c20-" + ctx.repo_key):
        if os.path.exists(exe):
            return exe, "cached"
        tmp = d + ".tmp%d" % os.getpid()
        shutil.rmtree(tmp, ignore_errors=True)
        os.makedirs(tmp)
        for f in ("extract.v", "main.ml"):
            shutil.copyfile(os.path.join(OCAML_DIR, f), os.path.join(tmp, f))
        rc, out = vlib.sh(["coqc", "-noglob"] + vlib.COQ_FLAGS + ["extract.v"], 300, cwd=tmp)
        if rc != 0:
            return None, "extraction: " + vlib.last_error(out)
        rc, out = vlib.sh(["ocamlfind", "ocamlopt", "-O3", "-unsafe", "-inline", "200", "musl_model.mli", "musl_model.ml", "main.ml",
                           "-o", "c20_model"], 300, cwd=tmp)
        if rc != 0:
            return None, "ocamlopt: " + vlib.last_error(out)
        shutil.rmtree(d, ignore_errors=True)
        os.makedirs(os.path.dirname(d), exist_ok=True)
        os.replace(tmp, d)
        # keep only the newest few builds
        olds = sorted(glob.glob(os.path.join(os.path.dirname(d), "*")), key=os.path.getmtime)
        for o in olds[:-3]:
            shutil.rmtree(o, ignore_errors=True)
    return exe, "built"


# ------------------------------------------------------------------------------------------------
# running one profile

def nth_instant(desc_lines, k):
    return next(itertools.islice(orc.expand(desc_lines), k, None))


def run_profile(ctx, rep, prof, h_time, model_exe, shards):
    """-> dict(n, py_fails, rs_fails, n_py_fail, n_rs_fail, pairs, disagreements, errors, samples)"""
    work = os.path.join(ctx.work, "run-" + prof)
    shutil.rmtree(work, ignore_errors=True)
    os.makedirs(work)
    oracle_py = os.path.join(vlib.VERIF, "driver", "c20_oracle.py")

    def one(i):
        lines = shards[i]
        text = "\n".join(lines) + "\n"
        dfile = os.path.join(work, "s%d.desc" % i)
        impl_out = os.path.join(work, "s%d.impl" % i)
        model_out = os.path.join(work, "s%d.model" % i)
        with open(dfile, "w") as f:
            f.write(text)
        res = {"i": i, "errors": [], "rs": [], "py": [], "diff": None, "samples": []}
        rc, out = run_bin(h_time, [impl_out], input=text, timeout=3000)
        if rc != 0:
            res["errors"].append("h_time rc=%d %s" % (rc, vlib.last_error(out)))
            return res
        res["rs"] = [json.loads(l) for l in out.splitlines() if l.startswith("{")]
        rc, out = vlib.sh([sys.executable, oracle_py, dfile, impl_out], 3000)
        if rc != 0:
            res["errors"].append("c20_oracle.py rc=%d %s" % (rc, vlib.last_error(out)))
        else:
            res["py"] = [json.loads(l) for l in out.splitlines() if l.startswith("{")]
        if model_exe:
            rc, out = vlib.sh([model_exe, prof, model_out], 3000, input=text)
            if rc != 0:
                res["errors"].append("c20_model rc=%d %s" % (rc, vlib.last_error(out)))
            elif not filecmp.cmp(impl_out, model_out, shallow=False):
                with open(impl_out, errors="replace") as fa, open(model_out, errors="replace") as fb:
                    k = 0
                    ndiff = 0
                    first = None
                    for la, lb in itertools.zip_longest(fa, fb):
                        if la != lb:
                            ndiff += 1
                            if first is None:
                                first = (k, (la or "<missing>").rstrip("\n"), (lb or "<missing>").rstrip("\n"))
                        k += 1
                sec, nsec = nth_instant(lines, first[0])
                res["diff"] = {"n": ndiff, "case": {"sec": sec, "nsec": nsec, "profile": prof, "descriptors": ["P %d %d" % (sec, nsec)]},
                               "impl": first[1], "model": first[2]}
        if i == 0:
            with open(impl_out, errors="replace") as fa:
                strs = [l.rstrip("\n") for l in itertools.islice(fa, 3)]
            res["samples"] = [{"instant": list(x), "printed": s, "profile": prof} for x, s in zip(orc.expand(lines), strs)]
        for p in (impl_out, model_out):
            try:
                os.unlink(p)
            except OSError:
                pass
        return res

    with ThreadPoolExecutor(max_workers=vlib.NCPU) as ex:
        results = list(ex.map(one, range(len(shards))))
    return results



# ------------------------------------------------------------------------------------------------
# leg D: statelessness

def state_scenarios(ctx, B):
    """-> [(category, [(sec, nsec), ...])]: each entry is formatted on its own fresh thread, in order."""
    rng = ctx.rng
    th = ctx.thorough()
    ok = lambda x: I64_MIN <= x <= I64_MAX   # noqa: E731
    S = []
    # (a) first call on a fresh thread: the day of every boundary and its neighbours, three times of day
    bs = sorted(set(B.values()))
    firsts = []
    for b in bs:
        day = b // 86400
        for dd in (-1, 0, 1):
            for i, (tod, ns2) in enumerate(TODS):
                firsts.append(((day + dd) * 86400 + tod, ns2 if dd else SPECIAL_NS[(i * 5 + dd) % len(SPECIAL_NS)]))
    firsts += [(I64_MIN, 0), (I64_MIN, 1), (I64_MIN, NS - 1), (I64_MIN + 1, 0), (I64_MAX, 0), (I64_MAX, NS - 1), (I64_MAX - 1, 0),
               (0, 0), (-1, NS - 1), (-1, 0), (1, 1)]
    n_rand = 600 if not th else 6000
    for i in range(n_rand):
        if i % 3 == 0:
            sec = rng.randint(I64_MIN, I64_MAX)
        elif i % 3 == 1:
            sec = rng.choice([-1, 1]) * rng.randint(0, 2 ** rng.randint(1, 63) - 1)
        else:
            sec = rng.randint(ts(-100), ts(10100))
        firsts.append((sec, rng.choice([0, rng.choice(SPECIAL_NS), rng.randint(0, NS - 1)])))
    firsts = [x for x in dict.fromkeys(firsts) if ok(x[0])]
    for x in firsts:
        S.append(("fresh-thread-first-call", [x]))
    # first call, then the same instant again, then a neighbour day, then the first again
    key = [x for x in firsts if abs(x[0] - ts(2000, 3, 1)) <= 2 * 86400 or abs(x[0]) <= 2 * 86400 or x[0] in (I64_MIN, I64_MAX)]
    for x in key + rng.sample(firsts, min(len(firsts), 150 if not th else 1500)):
        y = (x[0] + 86400 if ok(x[0] + 86400) else x[0] - 86400, 0)
        S.append(("fresh-thread-repeat", [x, x, y, x]))
    # (b) a sample in two orders, with immediate repeats, and interleaved with confusable neighbours
    pool = rng.sample(firsts, min(len(firsts), 400 if not th else 2500))
    S.append(("one-thread-order-1", list(pool)))
    S.append(("one-thread-order-2", list(reversed(pool))))
    sh = list(pool)
    rng.shuffle(sh)
    S.append(("one-thread-immediate-repeats", [x for y in sh for x in (y, y)]))
    conf = []
    for x in sh[: (120 if not th else 800)]:
        sec, nsec = x
        same_day = ((sec // 86400) * 86400 + rng.randint(0, 86399), rng.randint(0, NS - 1))
        for other in (same_day, (sec + 146097 * 86400 * rng.choice([-1, 1, 2]), nsec), (sec + (2 ** 32) * 86400, nsec),
                      (sec - (2 ** 32) * 86400, nsec), (sec + (2 ** 31) * 86400, nsec), (sec + 86400, nsec), (sec - 1, NS - 1)):
            if ok(other[0]):
                conf += [x, other, x]
    S.append(("one-thread-confusable-neighbours", conf))
    return S


def state_leg(ctx, rep, prof, bin_path, model_exe, scenarios, per_process):
    """Run the scenarios (one process; plus `per_process` scenarios one process each) and compare every call with the
    stateless model and the Python oracle.  A failing call is reported with the thread's call sequence up to it."""
    work = os.path.join(ctx.work, "state-" + prof)
    shutil.rmtree(work, ignore_errors=True)
    os.makedirs(work)
    runs = [("all", scenarios)] + [("proc%d" % i, [sc]) for i, sc in enumerate(per_process)]
    errors = []
    n_calls = 0
    seen = {}                     # instant -> (string, context) : all calls of one instant must print the same
    n_viol = 0
    agg = {"threads": [0, 0, None], "processes": [0, 0, None]}      # calls, threads, first disagreement with the model

    def report(kind, seq, j, got, detail, panic_msg=None, first_in_process=False):
        nonlocal n_viol
        n_viol += 1
        if n_viol > 8:
            return
        sec, nsec = seq[j]
        where = "call %d of a fresh thread%s" % (j + 1, " in a fresh process" if first_in_process else "")
        rep.violation("%s: instant (%d s, %d ns) as %s printed %r — %s [%s build]" % (kind, sec, nsec, where, got, detail, prof),
                      {"kind": kind, "sec": sec, "nsec": nsec, "impl": got, "detail": detail, "panic_message": panic_msg, "profile": prof,
                       "thread_calls": [list(x) for x in seq[: j + 1]], "fresh_process": bool(first_in_process),
                       "descriptors": ["P %d %d" % x for x in seq[: j + 1]]})

    for tag, scs in runs:
        text = "".join("T " + " ".join("%d %d" % x for x in seq) + "\n" for _, seq in scs)
        flat = [(k, j) for k, (_, seq) in enumerate(scs) for j in range(len(seq))]
        impl_out = os.path.join(work, tag + ".impl")
        rc, out = run_bin(bin_path, [impl_out], input=text, timeout=1200)
        if rc != 0:
            errors.append("h_time_state[%s] rc=%d %s" % (tag, rc, vlib.last_error(out)))
            continue
        meta = [json.loads(l) for l in out.splitlines() if l.startswith("{")]
        summ = [m for m in meta if m["k"] == "summary"]
        panics = {(m["thread"], m["call"]): m["msg"] for m in meta if m["k"] == "panic"}
        strs = open(impl_out, errors="replace").read().split("\n")[:-1]
        if not summ or summ[0]["bad_lines"] or summ[0]["threads"] != len(scs) or len(strs) != len(flat):
            errors.append("h_time_state[%s]: %s, %d strings for %d calls" % (tag, summ, len(strs), len(flat)))
            continue
        model = None
        if model_exe:
            mo = os.path.join(work, tag + ".model")
            desc = "".join("P %d %d\n" % scs[k][1][j] for k, j in flat)
            rc, out = vlib.sh([model_exe, prof, mo], 1200, input=desc)
            if rc != 0:
                errors.append("c20_model[%s] rc=%d %s" % (tag, rc, vlib.last_error(out)))
            else:
                model = open(mo, errors="replace").read().split("\n")[:-1]
        n_calls += len(flat)
        model_bad = None
        for idx, (k, j) in enumerate(flat):
            cat, seq = scs[k]
            x, got = seq[j], strs[idx]
            if got == "!unrepresentable":
                continue
            r = orc.check_one(x[0], x[1], got)
            if r is not None:
                report(r[0] if r[0] != "panic" else "panic", seq, j, got, r[1] if r[0] != "panic" else panics.get((k, j), "!panic"),
                       panic_msg=panics.get((k, j)), first_in_process=(tag != "all" and j == 0))
            elif x in seen and seen[x][0] != got:
                report("state-dependent", seq, j, got, "the same instant printed %r as %s" % seen[x], first_in_process=(tag != "all" and j == 0))
            seen.setdefault(x, (got, "call %d of a `%s` thread" % (j + 1, cat)))
            if model is not None and model[idx] != got and model_bad is None:
                model_bad = {"case": {"sec": x[0], "nsec": x[1], "profile": prof, "thread_calls": [list(y) for y in seq[: j + 1]],
                                      "descriptors": ["P %d %d" % y for y in seq[: j + 1]]}, "impl": got, "model": model[idx]}
        if model is not None:
            grp = agg["threads" if tag == "all" else "processes"]
            grp[0] += len(flat)
            grp[1] += len(scs)
            grp[2] = grp[2] or model_bad
    for what, (nc, nt, bad) in agg.items():
        if nc:
            rep.tie("correspondence:stateless-model-vs-impl:fresh-%s:%s" % (what, prof), bad is None,
                    "%d calls on %d fresh threads%s" % (nc, nt, " (one process each)" if what == "processes" else ""), bad)
    if errors:
        rep.tie("run:state-" + prof, False, "; ".join(errors[:3]))
    rep.evaluations += n_calls
    rep.traces_validated += n_calls if (model_exe and not errors) else 0
    rep.count("statelessness:calls:" + prof, n_calls)
    return n_calls


def run(ctx):
    rep = Report(ctx)
    th = ctx.thorough()
    rep.rule = ("instants (tv_sec, tv_nsec) of SystemTime; there is no malformed input (every i64 x [0,1e9) pair is a valid "
                "instant and is representable on this platform). Streams: every second in a window around each of ~100 fixed + "
                "seeded-random boundaries (years, 28/29 Feb, 1 Mar, the 400/100/4-year cycle starts counted from 2000-03-01, "
                "i32/u32 second and day limits), every day around them at three times of day, second roll-overs, both ends of "
                "i64, pre-1970 instants with/without sub-second part, uniform and log-uniform random instants with special "
                "sub-second values (x999, x500 rounding traps), every year k*2^32+r and k*2^31+r in range (r in 0,1,1970,2024,9999,10000,-1; start/middle/end of year) "
                "and a sample of k*2^16 years and of day / second counts at multiples of 2^16, 2^31, 2^32 (narrowing-cast windows), a whole 400-year day sweep (quick) / every day 0001..9999 x 3 "
                "(thorough); statelessness: each boundary day +-1 at three times of day, both ends of i64 and a random sample as the first call on a fresh "
                "thread (16 also as the first call of a fresh process), a sample in two orders, with immediate repeats and interleaved with same-day / "
                "400-year / 2^32-day neighbours on one thread. non-trivial = within 2 days of a listed boundary, or before 1970 with tv_nsec != 0, or a truncation-width instant; distinct = distinct instant")
    rep.trusted_base = [
        "Coq 8.16.1 kernel + vm_compute (no native_compute)",
        "translators/time_consts.py (constants of datetime.rs) and translators/datetime_rs.py (every statement of From<SystemTime>::from and "
        "Display::fmt -> Gen_datetime.v; a recursive-descent reader of the Rust subset the file is written in); both fail closed "
        "(C20_source_recognised) and are exercised by the model-vs-implementation correspondence on every run",
        "coq/theories/Time/MuslBase.v: the meaning given to Rust's integer operations per build profile (wrap / overflow panic / debug_assert), "
        "std's SystemTime::duration_since and core::fmt's `{}` / `{:0w}` of integers",
        "Coq extraction to OCaml + ocamlopt + ocaml/c20/main.ml (volume path only; cross-checked against vm_compute on the coq_eval subset every run)",
        "harness h_time.rs / h_time_state.rs (build SystemTime = UNIX_EPOCH +/- Duration, call the hook __verif_format_system_time; the latter on a fresh thread per scenario)",
        "std: SystemTime::duration_since / Duration accessors (modelled by std_duration_since_epoch), fmt padding of integers",
        "Python oracle: CPython datetime.date.fromordinal + 400-year periodicity; Rust oracle: Hinnant civil_from_days",
        "harness h_time_default.rs (24 fmt configurations that name no timer; SystemTime::now() read before and after each record; the clock itself is not controlled)",
    ]
    rep.assumptions = [
        "SystemTime is std's unix Timespec {tv_sec: i64, tv_nsec < 1e9}; duration_since(UNIX_EPOCH) as modelled (Ok(secs,nanos) / Err(distance back))",
        "the platform is 64-bit (usize = u64)",
        "outside years 0000..9999 RFC 3339 defines no form: the oracle accepts a sign and more than four year digits there, and the order clause is only demanded inside 0000..9999",
        "UTC without leap seconds (Unix time), as SystemTime defines it",
    ]
    # ---- leg B1: translator
    text, unrec = tc.main(ctx.repo, None)
    gen_if_changed(os.path.join(vlib.COQ, "gen", "Gen_time_consts.v"), text)
    rep.tie("translator:Gen_time_consts", not unrec, "; ".join(unrec[:4]), unrec[:1] or None)
    text, unrec = dtr.main(ctx.repo, None)
    gen_if_changed(os.path.join(vlib.COQ, "gen", "Gen_datetime.v"), text)
    rep.tie("translator:Gen_datetime", not unrec, "; ".join(unrec[:4]), unrec[:1] or None)
    rep.count("translated Rust operations (monadic steps in Gen_datetime.v)", text.count(" <- "))
    # the translator reacts to edits of the source: follows them or refuses them, never ignores them (synthetic edits, text only)
    n_self, self_fail = dtr.selftest(ctx.repo)
    rep.tie("translator-selftest:Gen_datetime", not self_fail, "%d synthetic source edits; %s" % (n_self, "; ".join(self_fail[:3]) or "each followed or refused as expected"),
            self_fail[:1] or None)
    # ---- leg A
    rep.proof = coq_prove(ctx, "C20", ["theories/Properties/C20.vo"])
    # ---- model binaries
    model_exe, mlog = build_ocaml_model(ctx)
    ctx.log("ocaml model: %s" % mlog)
    if model_exe is None:
        rep.tie("build:extracted-model", False, mlog)
    # ---- cases
    if ctx.replay:
        rp = json.load(open(ctx.replay))
        case = rp.get("case") or {}
        lines = case.get("descriptors") or ["P %d %d" % (case["sec"], case["nsec"])]
        C = Cases()
        for l in lines:
            C.desc.append(("replay", l, 1 if l.startswith("P") else int(l.split()[3])))
        B = {}
        seq = [tuple(x) for x in case.get("thread_calls") or []]
        scenarios = [("replay", seq)] if seq else []
        per_process = [("replay", seq)] if seq and case.get("fresh_process") else []
    else:
        C, B = generate(ctx, rep)
        scenarios = state_scenarios(ctx, B)
        lp = ts(2000, 3, 1)
        per_process = [("fresh-process-first-call", [x]) for x in
                       [(lp, 0), (lp + 43200, 500_000_500), (lp + 86399, NS - 1), (lp - 1, NS - 1), (lp + 86400, 0), (0, 0), (-1, NS - 1),
                        (I64_MIN, 0), (I64_MAX, NS - 1), (ts(1970, 1, 1) + 86399, 1), (ts(0, 3, 1), 0), (ts(2400, 3, 1), 0), (ts(1600, 3, 1), 0),
                        (ts(2000, 2, 29), 0), (ts(2100, 3, 1), 0), (ts(1, 1, 1), 0)]]
    for cat, seq in scenarios + per_process:
        rep.count("statelessness:" + cat, len(seq))
    for cat, _, n in C.desc:
        rep.count("instants:" + cat, n)
    total = C.total()
    ctx.log("%d instants in %d descriptors" % (total, len(C.desc)))
    shards = make_shards(C.desc, vlib.NCPU * (1 if total < 2_000_000 else 3))
    # ---- implementation + model + oracles, per build profile
    all_fail_keys = {}
    for prof in ("debug", "release"):
        ok, paths, log = cargo_build(ctx, "time", ["h_time", "h_time_state"], release=(prof == "release"))
        if not ok:
            rep.tie("build:h_time-" + prof, False, vlib.last_error(log))
            continue
        if scenarios:
            nst = state_leg(ctx, rep, prof, paths["h_time_state"], model_exe, scenarios, per_process)
            ctx.log("%s: statelessness leg, %d calls on %d fresh threads + %d fresh processes done" % (prof, nst, len(scenarios), len(per_process)))
        results = run_profile(ctx, rep, prof, paths["h_time"], model_exe, shards)
        ctx.log("%s: implementation, extracted model and both oracles on %d instants done" % (prof, total))
        n = 0
        errors, diffs = [], []
        rs_keys, py_keys = set(), set()
        n_rs = n_py = 0
        rs_detail = {}
        for r in results:
            errors += r["errors"]
            if r["diff"]:
                diffs.append(r["diff"])
            for x in r["rs"]:
                if x["k"] == "summary":
                    n += x["n"]
                    n_rs += x["fails"]
                    rep.count("order-pairs:" + prof, x["order_pairs"])
                    if x["bad_lines"]:
                        errors.append("harness rejected %d descriptor lines" % x["bad_lines"])
                else:
                    rs_keys.add((x["what"], x["sec"], x["nsec"]))
                    rs_detail[(x["sec"], x["nsec"])] = x.get("detail", "")
            for x in r["py"]:
                if x["k"] == "summary":
                    n_py += x["fails"]
                    if x["n"] != x["expected_n"]:
                        errors.append("shard %d: %d strings for %d instants" % (r["i"], x["n"], x["expected_n"]))
                else:
                    py_keys.add((x["what"], x["sec"], x["nsec"]))
                    fail = dict(x, detail_rs=rs_detail.get((x["sec"], x["nsec"]), ""))
                    fid = None      # F20 is repaired in /repo (a774a84): a fixed finding suppresses nothing
                    prev = None
                    desc = ["P %d %d" % (x["sec"], x["nsec"])]
                    if x["what"] == "order":
                        import re as _re
                        m = _re.search(r"\((-?\d+), (\d+)\)", x["detail"])
                        if m:
                            desc = ["P %s %s" % m.groups()] + desc
                    rep.violation("%s: instant (%d s, %d ns) printed %r — %s [%s build]%s"
                                  % (x["what"], x["sec"], x["nsec"], x["got"], x["detail"] or fail["detail_rs"], prof,
                                     "" if fid else ""),
                                  {"kind": x["what"], "sec": x["sec"], "nsec": x["nsec"], "impl": x["got"], "detail": x["detail"],
                                   "panic_message": fail["detail_rs"] if x["what"] == "panic" else None,
                                   "profile": prof, "descriptors": desc}, finding=fid)
            rep.samples += r["samples"]
        rep.evaluations += n
        rep.traces_validated += n if (model_exe and not errors) else 0
        if errors:
            rep.tie("run:" + prof, False, "; ".join(errors[:3]))
        if n != total and not errors:
            rep.tie("enumeration-complete:" + prof, False, "%d strings for %d instants" % (n, total))
        # the two oracles must tell the same story
        capped = n_rs > 100 or n_py > 100
        agree = (n_rs == n_py) and (capped or rs_keys == py_keys)
        rep.tie("oracle-cross-check:" + prof, agree,
                "rust(Hinnant)=%d python(datetime)=%d failures" % (n_rs, n_py),
                None if agree else {"only_rust": sorted(rs_keys - py_keys)[:3], "only_python": sorted(py_keys - rs_keys)[:3]})
        if model_exe:
            nd = sum(d["n"] for d in diffs)
            rep.tie("correspondence:extracted-model-vs-impl:" + prof, not diffs and not errors,
                    "%d of %d instants differ" % (nd, n), diffs[0] if diffs else None)
        all_fail_keys[prof] = py_keys

    # ---- default-configuration leg (no timer named; clock not controlled)
    rp_kind = (json.load(open(ctx.replay)).get("case") or {}).get("kind") if ctx.replay else None
    if not ctx.replay or rp_kind == "default-config":
        default_leg(ctx, rep, model_exe, ("debug", "release") if ctx.thorough() or ctx.replay else ("debug",))
        ctx.log("default-configuration leg done")
    # ---- the Coq kernel's own evaluation of the model on a subset (and of the extraction against it)
    if not ctx.replay:
        sub = coq_subset(ctx, C, B)
    else:
        sub = list(orc.expand([l for _, l, _ in C.desc]))[:300]
    kernel_check(ctx, rep, sub, model_exe)
    ctx.log("kernel evaluation of %d instants done" % len(sub))
    rep.nontrivial = Counted(nontrivial_count(C, B)) if not ctx.replay else set()
    rep.exhaustive = False
    return rep


def coq_subset(ctx, C, B):
    rng = ctx.rng
    sub = [(I64_MIN, 0), (I64_MIN, 1), (I64_MIN + 1, 0), (I64_MAX, 0), (I64_MAX, NS - 1), (0, 0), (-1, 1), (-1, NS - 1)]
    for b in sorted(set(B.values())):
        sub += [(b - 1, 999_999_999), (b, 0), (b + 86399, 999_500), (b - 86400, 1000)]
    explicit = [tuple(int(x) for x in l.split()[1:]) for cat, l, _ in C.desc if l.startswith("P") and cat in ("random", "pre-1970", "corpus", "truncation-widths")]
    rng.shuffle(explicit)
    sub += explicit[: (2000 if not ctx.thorough() else 8000)]
    sub = [(s, n) for s, n in dict.fromkeys(sub) if I64_MIN <= s <= I64_MAX]
    return sub


def kernel_check(ctx, rep, sub, model_exe):
    """vm_compute of Musl.format_system_time on `sub` in both modes; compare with (1) the real code, (2) the extracted model."""
    desc = ["P %d %d" % x for x in sub]
    text = "\n".join(desc) + "\n"
    work = os.path.join(ctx.work, "kernel")
    shutil.rmtree(work, ignore_errors=True)
    os.makedirs(work)
    try:
        terms = []
        chunk = 120
        for prof in ("debug", "release"):
            for i in range(0, len(sub), chunk):
                lits = "; ".join("(%s, %s)" % (vlib.coq_Z(s), vlib.coq_Z(n)) for s, n in sub[i:i + chunk])
                terms.append(("%s%d" % (prof, i), "map (fun p => format_system_time %s (fst p) (snd p)) [%s]" % (prof, lits)))
        res = coq_eval(ctx, "From Coq Require Import ZArith List.\nImport ListNotations.\nFrom TV Require Import Time.Musl.\nLocal Open Scope Z_scope.", terms, tag="kernel_cases", shards=min(vlib.NCPU, len(terms)))
    except Exception as ex:
        rep.tie("model-eval(vm_compute)", False, str(ex)[:300])
        return
    for prof in ("debug", "release"):
        kern = []
        for i in range(0, len(sub), chunk):
            for v in res["%s%d" % (prof, i)]:
                kern.append("!panic" if v is None else bytes(v[1]).decode("latin-1"))
        ok, paths, log = cargo_build(ctx, "time", ["h_time"], release=(prof == "release"))
        if ok:
            impl_out = os.path.join(work, "impl-" + prof)
            rc, out = run_bin(paths["h_time"], [impl_out], input=text, timeout=600)
            impl = open(impl_out, errors="replace").read().split("\n")[:-1] if rc == 0 else []
            bad = [{"case": {"sec": s, "nsec": n, "profile": prof, "descriptors": ["P %d %d" % (s, n)]}, "impl": a, "model": b}
                   for (s, n), a, b in itertools.zip_longest(sub, impl, kern, fillvalue=None) if a != b]
            rep.tie("correspondence:kernel-model-vs-impl:" + prof, not bad, "%d of %d instants differ" % (len(bad), len(sub)), bad[0] if bad else None)
            rep.evaluations += len(sub)
            rep.traces_validated += len(sub)
        if model_exe:
            mo = os.path.join(work, "model-" + prof)
            rc, out = vlib.sh([model_exe, prof, mo], 600, input=text)
            ml = open(mo, errors="replace").read().split("\n")[:-1] if rc == 0 else []
            bad = [{"instant": x, "extracted": a, "kernel": b} for x, a, b in itertools.zip_longest(sub, ml, kern, fillvalue=None) if a != b]
            rep.tie("extraction-faithful:" + prof, not bad, "%d of %d instants differ between vm_compute and the extracted OCaml" % (len(bad), len(sub)),
                    bad[0] if bad else None)
    rep.count("kernel-evaluated instants", len(sub))
