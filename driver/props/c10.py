"""C10 — Macros record each field once, typed, in order; disabled ones evaluate nothing.

Leg A: theorems of coq/theories/Properties/C10.v over the interpreter Fields/Model.v of the *generated*
       Gen_values.v (translators/values.py re-run on every check).
Leg B: the translator (fails closed) + correspondence: a compiled corpus of ~1300 real macro invocations
       (driver/props/c10_corpus.py -> harness/fields/src/gen/), each run with boundary and seeded random payloads
       under enabling / statically disabling / dynamically disabling / level-capping collectors, in three builds
       (normal; tracing feature max_level_info = the static stage; tracing feature log + a logger); the same
       (invocation, payload, collector) cases are evaluated by the Coq model and compared observation by observation.
Leg C: oracle = the property's predicates evaluated in Python from the generator's own description of each
       invocation (names, order, exactly-once, method per type, value identity, sigil texts, Empty/unset/undeclared
       not visited, evaluation counters 0 when disabled / 1 when enabled)."""
import json
import re
import os
import struct
import sys

import vlib
from vlib import Report, coq_prove, cargo_build, run_bin, coq_eval, gen_if_changed

sys.path.insert(0, os.path.join(vlib.VERIF, "translators"))
sys.path.insert(0, os.path.dirname(os.path.abspath(__file__)))
import values as values_tr  # noqa: E402
import c10_corpus as C  # noqa: E402
import c10_arms as ARMS  # noqa: E402

LEVELNUM = {"ERROR": 1, "WARN": 2, "INFO": 3, "DEBUG": 4, "TRACE": 5}
METHCODE = {"u64": 0, "i64": 1, "u128": 2, "i128": 3, "f64": 4, "bool": 5, "str": 6, "bytes": 7, "error": 8, "debug": 9}
PRIMC = values_tr.PRIMS


# ------------------------------------------------------------------------------------------------
# data table

def int_boundaries(lo, hi):
    b = [0, 1, hi, lo, hi - 1, lo + 1, -1, 2, -2]
    for w in (7, 8, 15, 16, 31, 32, 63, 64, 127):
        b += [2 ** w - 1, 2 ** w, -(2 ** w), -(2 ** w) - 1, 2 ** w + 1]
    out = []
    for v in b:
        if lo <= v <= hi and v not in out:
            out.append(v)
    return out


F32_B = [0x00000000, 0x80000000, 0x3f800000, 0xbf800000, 0x7fc00000, 0x7fa00000, 0xffc12345, 0x7f800000, 0xff800000, 0x00800000,
         0x00000001, 0x007fffff, 0x7f7fffff, 0xff7fffff, 0x34000000, 0x3dcccccd, 0x4b800000, 0x4b7fffff, 0x80000001, 0x3f7fffff]
F64_B = [0x0000000000000000, 0x8000000000000000, 0x3ff0000000000000, 0xbff0000000000000, 0x7ff8000000000000, 0x7ff4000000000000,
         0xfff8000000012345, 0x7ff0000000000000, 0xfff0000000000000, 0x0010000000000000, 0x0000000000000001, 0x000fffffffffffff,
         0x7fefffffffffffff, 0xffefffffffffffff, 0x3cb0000000000000, 0x3fb999999999999a, 0x4340000000000000, 0x433fffffffffffff,
         0x47efffffe0000000, 0x36a0000000000000]
STR_B = ["", "a", "héllo wörld ✓", "q\"uote\\back", "new\nline\ttab\r", "\0nul", "🦀 crab", "é combining", "مرحبا", "x" * 300,
         "{not} {{fmt}} {}", "'single'", "\x7f\x80\x9f", "​zero-width", "private", "\U0010ffff", "message", " lead/trail ",
         "tab\there", "\\u{1F980}"]
BYTES_B = [b"", b"\x00", b"\xff", bytes(range(256)), b"text", b"\x80\x81", b"\x00" * 40]


def rand_unicode(rng, n):
    out = []
    for _ in range(n):
        r = rng.random()
        if r < 0.5:
            cp = rng.randint(0x20, 0x7e)
        elif r < 0.6:
            cp = rng.randint(0, 0x1f)
        elif r < 0.8:
            cp = rng.randint(0x80, 0x7ff)
        elif r < 0.95:
            cp = rng.randint(0x800, 0xffff)
            if 0xd800 <= cp <= 0xdfff:
                cp = 0x4e2d
        else:
            cp = rng.randint(0x10000, 0x10ffff)
        out.append(chr(cp))
    return "".join(out)


def make_data(rng, R):
    D = {}
    for p, (lo, hi) in C.INT_RANGES.items():
        b = int_boundaries(lo, hi)
        vals = b[:R]
        while len(vals) < R:
            k = rng.random()
            if k < 0.5:
                vals.append(rng.randint(lo, hi))
            elif k < 0.8:
                bits = rng.randint(1, (hi.bit_length() or 1))
                v = rng.getrandbits(bits)
                vals.append(max(lo, min(hi, -v if (lo < 0 and rng.random() < 0.5) else v)))
            else:
                vals.append(rng.choice(b))
        D[p] = vals
        nz = [v for v in b if v != 0][:R]
        while len(nz) < R:
            v = rng.randint(lo, hi)
            nz.append(v if v != 0 else 1)
        D["nz_" + p] = nz
    f32 = F32_B[:R]
    while len(f32) < R:
        f32.append(rng.getrandbits(32))
    D["f32"] = f32
    f64 = F64_B[:R]
    while len(f64) < R:
        f64.append(rng.getrandbits(64))
    D["f64"] = f64
    D["bool"] = [bool((i + 1) % 2) if i < 2 else rng.random() < 0.5 for i in range(R)]
    s = STR_B[:R]
    while len(s) < R:
        s.append(rand_unicode(rng, rng.randint(0, 24)))
    D["str"] = s
    b = BYTES_B[:R]
    while len(b) < R:
        b.append(bytes(rng.getrandbits(8) for _ in range(rng.randint(0, 40))))
    D["bytes"] = b
    errs = []
    for i in range(R):
        depth = 1 + (i % 4)
        errs.append([s[(i * 3 + j * 5 + 1) % len(s)] if (i + j) % 3 else "err %d/%d" % (i, j) for j in range(depth)])
    D["err"] = errs
    return D


def data_file(D):
    lines = []
    for k, vals in D.items():
        if k in C.INT_RANGES or k.startswith("nz_"):
            lines.append(k + " " + " ".join(str(v) for v in vals))
        elif k == "f32":
            lines.append(k + " " + " ".join("%08x" % v for v in vals))
        elif k == "f64":
            lines.append(k + " " + " ".join("%016x" % v for v in vals))
        elif k == "bool":
            lines.append(k + " " + " ".join("1" if v else "0" for v in vals))
        elif k == "str":
            lines.append(k + " " + " ".join(v.encode("utf-8").hex() or "-" for v in vals))
        elif k == "bytes":
            lines.append(k + " " + " ".join(v.hex() or "-" for v in vals))
        elif k == "err":
            lines.append(k + " " + " ".join("|".join(p.encode("utf-8").hex() or "-" for p in ch) for ch in vals))
    return "\n".join(lines) + "\n"


# ------------------------------------------------------------------------------------------------
# expectations (the oracle's own reading of the property)

class Case:
    def __init__(self, D, refs, R):
        self.D, self.refs, self.R = D, refs, R

    def val(self, vk, slot, r):
        k = C.KINDS[vk]
        if k.dom is None:
            return None, 0
        arr = self.D[k.dom]
        i = (r + slot) % len(arr)
        return arr[i], i


def texts(case, vk, v, i):
    """(Display text, Debug text) of the value (or of the value a wrapper wraps), as Python str; None if n/a."""
    k = C.KINDS[vk]
    if k.dbg is not None:
        return (k.disp(v, case.refs, i) if k.disp is not None else None), k.dbg(v, case.refs, i)
    if vk in ("disp_str", "dbg_str"):
        return v, case.refs["str_dbg"][i]
    if vk in ("disp_dd", "dbg_dd"):
        return "D<%d>" % v, "G<%d>" % v
    if vk == "args":
        return "A%dZ" % v, "A%dZ" % v
    return None, None


def exp_seen(case, it, r):
    """None (not visited) or (method, text) — text as the harness prints it; f64 as ('bits', n) / 'nan'."""
    vk = it["vk"]
    k = C.KINDS[vk]
    v, i = case.val(vk, it["slot"], r)
    if it.get("sigil") == "?":
        return "debug", texts(case, vk, v, i)[1].encode("utf-8").hex()
    if it.get("sigil") == "%":
        return "debug", texts(case, vk, v, i)[0].encode("utf-8").hex()
    if k.method is None:
        return None
    c = k.canon(v, case.refs, i)
    if k.method == "f64":
        return "f64", c if c == "nan" else "%016x" % c
    return k.method, c


def is_nan_bits(h):
    b = int(h, 16)
    return ((b >> 52) & 0x7ff) == 0x7ff and (b & ((1 << 52) - 1)) != 0


def seen_eq(exp, got_m, got_t):
    if exp[0] != got_m:
        return False
    if exp[0] == "f64" and exp[1] == "nan":
        return is_nan_bits(got_t)
    return exp[1] == got_t


def fmt_text(case, f, r):
    out = []
    for p in f["pieces"]:
        if p[0] == "lit":
            out.append(p[1])
        else:
            a = f["args"][p[1]]
            v, i = case.val(a["vk"], a["slot"], r)
            d, g = texts(case, a["vk"], v, i)
            out.append(g if "?" in a["spec"] else d)
    return "".join(out)


def hx(s):
    return s.encode("utf-8").hex()


def expected_fields(case, t, r):
    """([declared names], [visits]) of the macro's own field list; visits = (name, index, (method, text))."""
    names = []
    vis = []
    if t.fmt is not None:
        names.append("message")
        vis.append(("message", 0, ("debug", hx(fmt_text(case, t.fmt, r)))))
    for it in t.items:
        idx = len(names)
        names.append(it["name"])
        s = exp_seen(case, it, r)
        if s is not None:
            vis.append((it["name"], idx, s))
    return names, vis


def expected_post(case, t, r, names):
    """visits expected from the follow-up operations of a span template, concatenated in order."""
    out = []
    for op in t.post:
        k = op["op"]
        if k in ("record", "record_field"):
            if op["name"] in names:
                s = exp_seen(case, op, r)
                if s is not None:
                    out.append((op["name"], names.index(op["name"]), s))
        elif k == "record_foreign":
            pass
        elif k == "valueset":
            for en in op["entries"]:
                if en["what"] == "some":
                    s = exp_seen(case, en, r)
                    if s is not None:
                        out.append((en["name"], names.index(en["name"]), s))
        elif k == "record_all":
            for pos, it in enumerate(op["items"]):
                s = exp_seen(case, it, r)
                if s is not None:
                    out.append((it["name"], pos, s))
    return out


STATIC_FEATURE_CAP = 3      # harness/fields_static depends on tracing with feature max_level_info


def guard_of(mode, level, static=5):
    if LEVELNUM[level] > static:
        return False            # compiled out: the static filtering stage
    if mode in ("always", "sometimes"):
        return True
    if mode in ("never", "dyn"):
        return False
    n = int(mode.lstrip("caps"))
    return LEVELNUM[level] <= n


def record_all_ticks(t):
    return [it["tick"] for op in t.post if op["op"] == "record_all" for it in op["items"]]


def log_built(t, mode):
    """[spec_log_formats] in a `nd*` phase of the `log` build (no dispatcher ever set, log's static cap is TRACE): is the
    log record actually built, i.e. does it pass log::max_level() and the logger's enabled()?"""
    wants = mode != "ndoff"
    mx = int(mode[5:]) if mode.startswith("ndmax") else 5
    return wants and LEVELNUM[t.level] <= mx


def log_formats(t, mode):
    """what the CURRENT SOURCE does in a `nd*` phase (the model's answer, finding F101 included): an event builds its value
    set only when the log record is built, a span always"""
    return True if t.kind == "span" else log_built(t, mode)


def check_nd(t, rec, mode):
    """A phase without any dispatcher (only in the `log` build).  Returns (property failures, occurrences of the known
    finding F101, deviations from the model).  With `log` on and no dispatcher the disabled branch hands the fields to the
    `log` crate (C18): that is allowed exactly when the log record is really built.  When `log` filters the record out too
    (above log::max_level(), or Log::enabled says no) the callsite is disabled by every stage and nothing may be evaluated."""
    bad, f101, dev = [], [], []
    if rec["ret"] == "panic":
        return ["the invocation panicked"], f101, dev
    if rec["d"] or rec["en"]:
        bad.append("no dispatcher was set but a collector was called: %s" % [d["cb"] for d in rec["d"]])
    if any(x > 1 for x in rec["t"]):
        bad.append("a field/message expression was evaluated more than once: counters %s" % rec["t"])
    if t.kind == "enabled":
        if rec["ret"] != 0 or rec["t"]:
            bad.append("%s! without a dispatcher returned %s / evaluated %s" % (t.macro, rec["ret"], rec["t"]))
        return bad, f101, dev
    nt = t.nticks()
    got = rec["t"] + [0] * (nt - len(rec["t"]))
    ra = set(record_all_ticks(t))
    own = [x for i, x in enumerate(got) if i not in ra]
    if not log_built(t, mode) and any(own):
        why = {"ndoff": "the logger's enabled() rejects it"}.get(mode, "its level is above log::max_level() = %s" % mode[5:])
        msg = ("disabled for tracing (no dispatcher) and filtered out by `log` too (%s), but field/message expressions were evaluated: "
               "counters %s" % (why, got))
        (f101 if t.kind == "span" else bad).append(msg)
    f = log_formats(t, mode)
    want = [1 if (f or i in ra) else 0 for i in range(nt)]
    if got != want:
        dev.append("counters %s, the model of the source gives %s (%s!, level %s, phase %s)" % (got, want, t.macro, t.level, mode))
    return bad, f101, dev


def check_record(case, t, rec, mode, parent_id, static=5, form_bad=None, logbuild=False):
    """Oracle: list of human-readable failures of the property on one (template, round, collector) observation."""
    bad = []
    r = rec["r"]
    g = guard_of(mode, t.level, static)
    if logbuild and not g and rec["ret"] != "panic":
        # `log` build: a disabled span still carries its metadata, so a later record_all!(span, ..) builds its value set;
        # record_all! is not one of the macros C10 speaks about
        ra = set(record_all_ticks(t))
        rec = dict(rec, t=[0 if i in ra else x for i, x in enumerate(rec["t"])])
        while rec["t"] and rec["t"][-1] == 0:
            rec["t"].pop()
    if static < 5:
        mode = "%s + static max level %d" % (mode, static)
    if rec["ret"] == "panic":
        return ["the invocation panicked"]
    if t.kind == "enabled":
        want = [hx(it["name"]) for it in t.items]
        if rec["ret"] != (1 if g else 0):
            bad.append("%s! returned %s under collector `%s` (expected %s)" % (t.macro, rec["ret"], mode, int(g)))
        for e in rec["en"]:
            if "H" in e["kind"] and e["fields"] != want:
                bad.append("%s!: declared field names %s, written %s" % (t.macro, e["fields"], want))
        if g and not any("H" in e["kind"] for e in rec["en"]):
            bad.append("%s!: collector never asked" % t.macro)
        if rec["t"] or rec["d"]:
            bad.append("%s!: something was evaluated or delivered" % t.macro)
        return bad
    nt = t.nticks()
    if not g:
        if rec["t"]:
            bad.append("disabled by `%s` but field/message expressions were evaluated: counters %s" % (mode, rec["t"]))
        if rec["d"]:
            bad.append("disabled by `%s` but the collector received %s" % (mode, [d["cb"] for d in rec["d"]]))
        return bad
    # enabled
    ticks = rec["t"] + [0] * (nt - len(rec["t"]))
    if ticks != [1] * nt:
        bad.append("enabled: every field/message expression must be evaluated exactly once, counters = %s" % ticks)
    names, vis = expected_fields(case, t, r)
    cb = "event" if t.kind == "event" else "new_span"
    firsts = [d for d in rec["d"] if d["cb"] == cb]
    if len(firsts) != 1 or rec["d"][0]["cb"] != cb:
        bad.append("expected exactly one %s callback first, got %s" % (cb, [d["cb"] for d in rec["d"]]))
        return bad
    d0 = rec["d"][0]
    if d0["fields"] != [hx(n) for n in names]:
        bad.append("declared names %s, expected %s" % ([bytes.fromhex(x).decode("utf-8", "replace") for x in d0["fields"]], names))
    bad += cmp_visits(d0["v"], vis, "fields")
    # level / name: / target: / parent: are not part of C10's text (fields only): a mismatch means the corpus does not
    # exercise the form it says it does, which is reported as a broken tie, not as a violation of the property
    form = []
    if d0["level"] != LEVELNUM[t.level]:
        form.append("level %s, written %s" % (d0["level"], t.level))
    if t.target is not None and d0["target"] != hx(t.target):
        form.append("target: prefix not honoured")
    if t.name is not None and d0["name"] != hx(t.name):
        form.append("name not honoured")
    wantp = {"span": "explicit:%d" % parent_id, "none": "root", None: "current"}[t.parent]
    if d0["parent"] != wantp:
        form.append("parent %s, expected %s" % (d0["parent"], wantp))
    if form and form_bad is not None:
        form_bad.append({"template": describe(t), "round": r, "collector": mode, "what": form})
    rest = rec["d"][1:]
    if t.kind == "event" and rest:
        bad.append("extra callbacks %s" % [d["cb"] for d in rest])
    if t.kind == "span":
        got = []
        for d in rest:
            if d["cb"] != "record" or d["id"] != d0["id"]:
                bad.append("unexpected callback %s" % d["cb"])
            else:
                got += d["v"]
        bad += cmp_visits(got, expected_post(case, t, r, names), "follow-up record")
    return bad


def cmp_visits(got, exp, what):
    bad = []
    gn = [(bytes.fromhex(v[0]).decode("utf-8", "replace"), v[1]) for v in got]
    en = [(e[0], e[1]) for e in exp]
    if gn != en:
        bad.append("%s: visited (name, position) %s, expected %s (order / exactly-once / declared name / Empty skipped)" % (what, gn, en))
        return bad
    for v, e in zip(got, exp):
        if not seen_eq(e[2], v[2], v[3]):
            bad.append("%s: field `%s` presented as %s(%s), expected %s(%s)" % (what, e[0], v[2], v[3][:80], e[2][0], str(e[2][1])[:80]))
    return bad


# ------------------------------------------------------------------------------------------------
# Coq encoding of a case

VTY = {"str": "(TRef TStr)", "string": "TString", "box_str": "(TBox TStr)", "ref_string": "(TRef TString)",
       "bytes": "(TRef TByteSlice)", "box_bytes": "(TBox TByteSlice)",
       "err": "(TRef (TDynError false false))", "err_send": "(TRef (TDynError true false))", "err_sync": "(TRef (TDynError false true))",
       "err_send_sync": "(TRef (TDynError true true))", "box_err": "(TBox (TDynError true true))",
       "ref_u32": "(TRef (TPrim U32))", "refref_i8": "(TRef (TRef (TPrim I8)))", "mut_u16": "(TRefMut (TPrim U16))",
       "box_u64": "(TBox (TPrim U64))", "box_ref_i128": "(TBox (TRef (TPrim I128)))", "ref_f32": "(TRef (TPrim F32))",
       "ref_bool": "(TRef (TPrim PBool))", "disp_str": "TDisplayValue", "dbg_str": "TDebugValue", "disp_dd": "TDisplayValue",
       "dbg_dd": "TDebugValue", "args": "TArguments", "empty": "TEmpty", "dd": "TOther", "opt_u8": "TOther",
       "wr_nz_u16": "(TWrapping (TNonZero U16))",
       "f32": "(TPrim F32)", "f64": "(TPrim F64)", "bool": "(TPrim PBool)"}
for _p in C.INTS:
    VTY[_p] = "(TPrim %s)" % PRIMC[_p]
    VTY["nz_" + _p] = "(TNonZero %s)" % PRIMC[_p]
    VTY["wr_" + _p] = "(TWrapping (TPrim %s))" % PRIMC[_p]


def cz(z):
    return "(%d)%%Z" % z


def cbytes(b):
    return "[" + ";".join(str(x) for x in b) + "]"


def decode_float(bits, fmt):
    """IEEE bits -> Coq fval in the format's canonical decomposition."""
    eb, fb, bias = (8, 23, 127) if fmt == "f32" else (11, 52, 1023)
    neg = bits >> (eb + fb)
    e = (bits >> fb) & ((1 << eb) - 1)
    fr = bits & ((1 << fb) - 1)
    n = "true" if neg else "false"
    if e == (1 << eb) - 1:
        return "FNaN" if fr else "(FInf %s)" % n
    if e == 0:
        return "(FFin %s %d %s)" % (n, fr, cz(1 - bias - fb))
    return "(FFin %s %d %s)" % (n, fr | (1 << fb), cz(e - bias - fb))


def norm_float(neg, m, e):
    if m == 0:
        return (bool(neg), 0, 0)
    while m % 2 == 0:
        m //= 2
        e += 1
    return (bool(neg), m, e)


def float_of_bits64(bits):
    neg = bits >> 63
    e = (bits >> 52) & 0x7ff
    fr = bits & ((1 << 52) - 1)
    if e == 0x7ff:
        return ("nan",) if fr else ("inf", bool(neg))
    if e == 0:
        return norm_float(neg, fr, -1074)
    return norm_float(neg, fr | (1 << 52), e - 1075)


def coq_rvalue(case, vk, slot, r):
    k = C.KINDS[vk]
    v, i = case.val(vk, slot, r)
    d, g = texts(case, vk, v, i) if v is not None else (None, None)
    dom = k.dom
    if dom is None:
        pl = "PNothing"
    elif dom in C.INT_RANGES or dom.startswith("nz_"):
        pl = "(PInt %s)" % cz(v)
    elif dom in ("f32", "f64"):
        pl = "(PFloat %s)" % decode_float(v, dom)
    elif dom == "bool":
        pl = "(PBoolv %s)" % ("true" if v else "false")
    elif dom == "str":
        pl = "(PText %s)" % cbytes(v.encode("utf-8"))
    elif dom == "bytes":
        pl = "(PByteStr %s)" % cbytes(v)
    elif dom == "err":
        pl = "(PErr [%s])" % ";".join(cbytes(s.encode("utf-8")) for s in v)
    if vk in ("disp_str", "dbg_str", "disp_dd", "dbg_dd", "args", "dd", "opt_u8"):
        pl = "PNothing"
    return "(mk_rv %s %s %s %s)" % (VTY[vk], pl, cbytes((d or "").encode("utf-8")), cbytes((g or "").encode("utf-8")))


SIG = {"": "SNone", "?": "SDebug", "%": "SDisplay", None: "SNone"}


def coq_item(case, it, r):
    ticks = "[%s]" % (str(it["tick"]) if it["tick"] is not None else "")
    rv = coq_rvalue(case, it["vk"], it["slot"], r)
    if it["form"] == "kv":
        if it["nk"] in ("path", "dotted", "raw"):
            key = "(KeyPath [%s])" % ";".join(cbytes(s.encode()) for s in it["name"].split("."))
        elif it["nk"] == "lit":
            key = "(KeyLit %s)" % cbytes(it["name"].encode("utf-8"))
        else:
            key = "(KeyConst %s)" % cbytes(it["name"].encode("utf-8"))
        return "IKV %s %s %s %s" % (key, SIG[it["sigil"]], ticks, rv)
    return "ISh %s [%s] %s %s" % (SIG[it["sigil"]], ";".join(cbytes(s.encode()) for s in it["name"].split(".")), ticks, rv)


def coq_fields(case, items, trailing, fmt, r):
    f = "None"
    if fmt is not None:
        ticks = ";".join(str(a["tick"]) for a in fmt["args"] if a["tick"] is not None)
        f = "(Some (mk_fmt [%s] %s))" % (ticks, cbytes(fmt_text(case, fmt, r).encode("utf-8")))
    return "(mk_fields [%s] %s %s)" % ("; ".join(coq_item(case, it, r) for it in items), "true" if trailing else "false", f)


def coq_collector(mode, static=5):
    if mode == "always":
        return "(mk_coll %d 5 Always true)" % static
    if mode == "sometimes":
        return "(mk_coll %d 5 Sometimes true)" % static
    if mode == "never":
        return "(mk_coll %d 5 Never true)" % static
    if mode == "dyn":
        return "(mk_coll %d 5 Sometimes false)" % static
    if mode.startswith("caps"):
        return "(mk_coll %d %d Sometimes true)" % (static, int(mode[4:]))
    return "(mk_coll %d %d Always true)" % (static, int(mode[3:]))


def prefix_string(t):
    p = []
    if t.kind == "event" and t.name is not None:
        p.append("name")
    if t.target is not None:
        p.append("target")
    if t.parent is not None:
        p.append("parent")
    return ",".join(p)


def coq_logstate(t, mode):
    """(mk_ls ..) of the `log` build in the given phase"""
    nd = mode.startswith("nd")
    wants = mode != "ndoff"
    mx = int(mode[5:]) if mode.startswith("ndmax") else 5
    b = lambda x: "true" if x else "false"
    return "(mk_ls LogOn true %s %s %s)" % (b(not nd), b(LEVELNUM[t.level] <= mx), b(wants))


def coq_case(case, t, r, mode, static=5, logbuild=False):
    cmode = "never" if mode.startswith("nd") else mode      # no dispatcher: NoCollector answers `never`
    if logbuild and t.kind != "enabled":
        return coq_case(case, t, r, cmode, static).replace("cC ", "cL %s " % coq_logstate(t, mode), 1)
    mode = cmode
    if t.kind == "enabled":
        items = [dict(it, form="sh", tick=None) for it in t.items]
        return "cE %s %d %s" % (coq_fields(case, items, False, None, r), LEVELNUM[t.level], coq_collector(mode, static))
    names = [it["name"] for it in t.items]
    ops = []
    for op in t.post:
        k = op["op"]
        if k == "record":
            ops.append("PRec (RByName %s %s)" % (cbytes(op["name"].encode("utf-8")), coq_rvalue(case, op["vk"], op["slot"], r)))
        elif k == "record_field":
            # a Field handle obtained from this span's own metadata by name
            if op["name"] in names:
                ops.append("PRec (RByField (mk_field 1 %d %s) %s)" % (names.index(op["name"]) + (1 if t.fmt else 0), cbytes(op["name"].encode("utf-8")),
                                                                         coq_rvalue(case, op["vk"], op["slot"], r)))
        elif k == "record_foreign":
            ops.append("PRec (RByField (mk_field 2 0 [112;102]) %s)" % coq_rvalue(case, op["vk"], op["slot"], r))
        elif k == "valueset":
            ents = []
            for en in op["entries"]:
                idx = names.index(en["name"])
                if en["what"] == "none":
                    ents.append("(mk_field 1 %d %s, None)" % (idx, cbytes(en["name"].encode("utf-8"))))
                elif en["what"] == "foreign":
                    ents.append("(mk_field 2 0 [112;102], Some %s)" % coq_rvalue(case, en["vk"], en["slot"], r))
                else:
                    ents.append("(mk_field 1 %d %s, Some %s)" % (idx, cbytes(en["name"].encode("utf-8")), coq_rvalue(case, en["vk"], en["slot"], r)))
            ops.append("PRec (RValueSet [%s])" % "; ".join(ents))
        elif k == "record_all":
            ops.append("PRecordAll %s" % coq_fields(case, op["items"], False, None, r))
    inv = "(mk_inv %s \"%s\" %d %s %s)" % ("MEvent" if t.kind == "event" else "MSpan", prefix_string(t), LEVELNUM[t.level],
                                          "true" if t.brace else "false", coq_fields(case, t.items, t.trailing, t.fmt, r))
    return "cC %s %s [%s]" % (inv, coq_collector(mode, static), "; ".join(ops))


def impl_visit_canon(v):
    """harness visit [name_hex, idx, method, text] -> the model's encoding (name bytes, idx, meth code, seen)."""
    name = list(bytes.fromhex(v[0]))
    m, tx = v[2], v[3]
    if m in ("u64", "i64", "u128", "i128"):
        s = (0, int(tx))
    elif m == "f64":
        s = (1, float_of_bits64(int(tx, 16)))
    elif m == "bool":
        s = (2, 1 if tx == "true" else 0)
    elif m == "str":
        s = (3, list(bytes.fromhex(tx)))
    elif m == "bytes":
        s = (4, list(bytes.fromhex(tx)))
    elif m == "error":
        s = (5, [list(bytes.fromhex(p)) for p in tx.split("|")])
    else:
        s = (6, list(bytes.fromhex(tx)))
    return (name, v[1], METHCODE[m], s)


def model_visit_canon(v):
    name, idx, mc, seen = v
    tag, z, b, chain, fl = seen
    if tag in (0, 2):
        s = (tag, z)
    elif tag == 1:
        ft, neg, m, e = fl
        s = (1, ("nan",) if ft == 0 else (("inf", bool(neg)) if ft == 1 else norm_float(neg, m, e)))
    elif tag in (3, 4, 6):
        s = (tag, list(b))
    else:
        s = (5, [list(x) for x in chain])
    return (list(name), idx, mc, s)


# ------------------------------------------------------------------------------------------------

def write_corpus(tpls):
    files = C.rust_files(tpls)
    d = os.path.join(vlib.VERIF, "harness", "fields", "src", "gen")
    os.makedirs(d, exist_ok=True)
    for name, text in files.items():
        gen_if_changed(os.path.join(d, name), text)


def describe(t):
    """Compact, human-readable description of a template for replays."""
    return {"id": t.id, "group": t.group, "rust": C.rust_of(t).strip().split("\n")[1:-1]}


ARM_RX = re.compile(r"\(\(PItem \(mk_shape (K\w+) (true|false) (S\w+)\) (true|false)\)|\(PRest,")


def arms_of(gen_text, name):
    """[(key, valued, sigil, more) | 'PRest'] of a generated arm table"""
    i = gen_text.index("Definition %s " % name)
    j = gen_text.index("].", i)
    out = []
    for m in ARM_RX.finditer(gen_text[i:j]):
        out.append("PRest" if m.group(1) is None else (m.group(1), m.group(2) == "true", m.group(3), m.group(4) == "true"))
    return out


def arms_hit(t):
    """which valueset! / fieldset! arm patterns the template's field list reaches (by the shape of each field and whether
    something follows it), from the generator's description"""
    vs, fs = set(), set()
    if t.kind == "enabled":
        for it in t.items:
            fs.add(("KPath", False, "SNone", True))
        return vs, fs
    lists = [(t.items, t.trailing, t.fmt, t.brace)] + [(op["items"], False, None, False) for op in t.post if op["op"] == "record_all"]
    for k, (items, trailing, fmt, brace) in enumerate(lists):
        n = len(items)
        for i, it in enumerate(items):
            key = {"lit": "KLit", "const": "KConst"}.get(it["nk"], "KPath") if it["form"] == "kv" else "KPath"
            shape = (key, it["form"] == "kv", SIG[it["sigil"]])
            last = i == n - 1
            more = (not last) or (trailing if (brace or fmt is None) else True)
            vs.add(shape + (more,))
            if k == 0:
                fs.add(shape + (True,))            # fieldset!'s entry arm appends a comma
        if fmt is not None:
            if brace:
                vs.add(("KPath", True, "SNone", True if items else True))      # message = format_args!(..), <fields>
                fs.add(("KPath", True, "SNone", True))
            else:
                vs.add("PRest")
                fs.add("PRest")
    return vs, fs


def load_regressions(tpls):
    """corpus/C10/regressions.json: minimised (template, collector, round) cases that once exposed a defect or killed a
    mutant.  A template is named by its Rust text (ids move when the generator grows)."""
    path = os.path.join(vlib.VERIF, "corpus", "C10", "regressions.json")
    if not os.path.exists(path):
        return []
    by_rust = {"\n".join(describe(t)["rust"]): t for t in tpls}
    out = []
    for e in json.load(open(path)):
        t = by_rust.get("\n".join(e["rust"]))
        out.append((e, t))
    return out


def run(ctx):
    rep = Report(ctx)
    rep.rule = ("corpus: every span/event macro (span!, event!, 5+5 level shorthands, enabled!/event_enabled!/span_enabled!, record_all!) x every "
                "name:/target:/parent: prefix set x 4 field-list shapes; every field form (k=v, dotted, r#, literal, {CONST}, shorthand, dotted shorthand) "
                "x every value type (15 primitives, 12 NonZero, Wrapping, str/String/Box<str>, [u8], 5 error kinds, &/&&/&mut/Box, display/debug wrappers, "
                "Arguments, Empty; Option<T> through `?`); ? and % on every form; 133 multi-field invocations (2-64 fields, with/without message, brace "
                "form, trailing comma; positional / named / captured format arguments); span follow-ups (declared / undeclared / foreign Field / "
                "hand-built ValueSet with None and foreign entries). Payloads: all integer boundaries of every width, float specials, Unicode/escape "
                "strings, then seeded random. Collectors: always / sometimes+true / never / sometimes+false / hint caps; the whole corpus a second time "
                "compiled with tracing's `max_level_info` (static stage) and a third time with tracing's `log` feature + a logger (first with no "
                "dispatcher ever set, then under collectors). non-trivial = distinct (macro, prefix set, brace, field-form multiset, "
                "value-type multiset, has-message) tuple observed enabled with at least one field or message")
    rep.trusted_base = [
        "Coq 8.16.1 kernel + vm_compute (no native_compute)",
        "translators/values.py + rsparse.py (shape recognition of field.rs / macros.rs / span.rs; fails closed via gen_unrecognised = [])",
        "rustc's macro_rules! matcher for the forwarding arms and stringify! (cross-checked by the compiled corpus only)",
        "harness/fields (typed recording Visit, counting wrappers t()/Deref) and driver/props/c10_corpus.py (generator + its description)",
        "std formatting as the reference for Display/Debug texts of strings and floats (computed outside tracing)",
        "Python oracle (driver/props/c10.py)"]
    rep.assumptions = ["every statement except C10_lazy_with_log is for tracing's feature `log` off; with `log` on and no dispatcher ever set the disabled "
                       "branch hands the fields to the `log` crate (C18's documented behaviour): characterised exactly by C10_lazy_with_log / "
                       "spec_log_formats and checked in the third build",
                       "usize/isize are 64-bit", "`x as f64` is exact on representable values (IEEE fpext); NaN compared as NaN, not by payload",
                       "theorems cover the modelled form grammar; which forwarding arm rustc picks for a token sequence is covered by the corpus only",
                       "value Display/Debug impls are pure (the model identifies a &dyn Debug with the text it prints)",
                       "verification hooks (`#[cfg(tracing_verif)]` yield points, no callback installed) are ignored by the translator"]
    # ---- leg B1: translator
    text, unrec = values_tr.main(ctx.repo, None)
    gen_if_changed(os.path.join(vlib.COQ, "gen", "Gen_values.v"), text)
    rep.tie("translator:Gen_values", not unrec, "; ".join(unrec[:4]), unrec[:1] or None)
    # ---- corpus (deterministic; identical on every run so the build is cached)
    tpls = C.build()
    write_corpus(tpls)
    by_id = {t.id: t for t in tpls}
    # the corpus must reach every arm the translator found (a new or split arm nobody exercises would otherwise go unnoticed)
    try:
        vs_hit, fs_hit = set(), set()
        for t in tpls:
            a, b = arms_hit(t)
            vs_hit |= a
            fs_hit |= b
        missing = [("valueset!", a) for a in arms_of(text, "gen_valueset_arms") if a not in vs_hit] + \
                  [("fieldset!", a) for a in arms_of(text, "gen_fieldset_arms") if a not in fs_hit]
        rep.tie("corpus-reaches-every-valueset!/fieldset!-arm", not missing, "%d arms not exercised" % len(missing), [str(m) for m in missing[:3]] or None)
        rep.count("arms:valueset", len(arms_of(text, "gen_valueset_arms")))
        rep.count("arms:fieldset", len(arms_of(text, "gen_fieldset_arms")))
    except ValueError as ex:
        rep.tie("corpus-reaches-every-valueset!/fieldset!-arm", False, "cannot read the generated arm tables: %s" % ex)
    # ... and every arm of event!, span! and the ten level shorthands must be the ENTRY arm of some template, per (macro, prefix
    # group, arm): the forwarding arms are only shape-checked by the translator, what they do is seen only through the corpus
    try:
        miss, probs, st = ARMS.coverage(ctx.repo, tpls)
        rep.tie("corpus-enters-through-every-arm-of-the-12-span/event-macros", not miss and not probs,
                "%d live arms not entered, %d problems (of %d arms, %d dead)" % (len(miss), len(probs), st["arms"], st["dead"]),
                [list(m) for m in miss[:3]] + probs[:3] or None)
        rep.count("macro-arms:live", st["live"])
        rep.count("macro-arms:dead", st["dead"])
    except Exception as ex:
        rep.tie("corpus-enters-through-every-arm-of-the-12-span/event-macros", False, "arm reader failed: %s" % str(ex)[:200])
    # ---- leg A
    rep.proof = coq_prove(ctx, "C10", ["theories/Properties/C10.vo", "theories/Fields/Encode.vo"])
    # ---- implementation
    R = 64 if ctx.thorough() else 26
    D = make_data(ctx.rng, R)
    data_path = os.path.join(ctx.work, "data.txt")
    with open(data_path, "w") as f:
        f.write(data_file(D))
    # two process runs with different phase orders: first-hit registration under each kind of collector,
    # and interest / max-level rebuilds when the collector changes
    # `<mode>+p`: before every round of the phase a value whose Display/Debug PANICS is recorded (event field / span field /
    # Span::record, by round) and the panic is caught; then the corpus runs on the same thread under the same scoped default:
    # "exactly once" must not depend on such a history (the dispatcher's re-entrancy state must have been restored)
    plans = [["always:%d" % R, "never:2", "dyn:2", "cap0:1", "cap2:2", "sometimes:3:5", "caps3:2:1", "cap4:1:3", "always+p:3:4", "sometimes+p:3:1"],
             ["never:1:7", "caps1:1:2", "sometimes:2:9", "dyn:1:4", "always:2:11", "cap3:1:6", "caps4+p:2:3", "never+p:1:2"]]
    if ctx.thorough():
        plans.append(["dyn:2:13", "always:3:17", "never:2:1", "caps5:2:3", "cap1:2:8", "sometimes:%d" % R, "always+p:%d" % R, "sometimes+p:6:2"])
    # the static stage: same corpus, tracing compiled with max_level_info
    static_plans = [["always:3:2", "sometimes:2:8", "cap5:1:1", "caps2:1:4", "never:1", "dyn:1:6", "sometimes+p:1:3"]]
    if ctx.thorough():
        static_plans.append(["dyn:1:3", "caps4:2:9", "always:%d" % R])
    # the `log` side: same corpus, tracing compiled with its `log` feature, a logger installed; first without any dispatcher
    log_plans = [["ndon:2", "ndoff:1:3", "ndmax3:1:5", "ndmax1:1:7", "ndmax0:1:2", "always:2:1", "never:1:2", "dyn:1:4", "caps2:1:6", "always+p:2:3"]]
    if ctx.thorough():
        log_plans.append(["ndmax4:2:9", "ndoff:2", "ndon:%d" % R, "sometimes:2:3", "cap0:1"])
    runs = []             # (profile, plan index, plan, output, static cap)

    def build_and_run(binname, pkg, rel, plist, static):
        ok, paths, log = cargo_build(ctx, pkg, [binname], release=rel)
        tag = binname + ("-release" if rel else "")
        if not ok:
            # maybe only the forms whose compilability hinges on one arm group (gen/gfragile.rs) broke: say so, go on without them
            rep.tie("build:" + tag, False, vlib.last_error(log))
            ok, paths, log2 = cargo_build(ctx, pkg, [binname], release=rel, features=["no_fragile"])
            if not ok:
                return False
            ctx.log("%s: built without gen/gfragile.rs" % tag)
        # regression corpus first (debug builds; an entry says which of the three binaries it is for)
        if not rel:
            for e, t in load_regressions(tpls):
                if e.get("bin", "h_fields") != binname:
                    continue
                rep.count("corpus")
                if t is None:
                    rep.count("corpus:stale")
                    ctx.log("corpus/C10: no template matches %s" % e.get("why", "?"))
                    continue
                rc, out = run_bin(paths[binname], [data_path, "--only", str(t.id), "%s:1:%d" % (e["mode"], e["round"] % R)], timeout=120)
                if rc != 0:
                    rep.tie("run:corpus", False, "rc=%d %s" % (rc, vlib.last_error(out)))
                    continue
                runs.append(("corpus" + ("-static" if static < 5 else "") + ("-log" if binname.endswith("_log") else ""), 0, [e["mode"]], out, static))
        for pi, plan in enumerate(plist):
            rc, out = run_bin(paths[binname], [data_path] + plan, timeout=900)
            if rc != 0:
                rep.tie("run:" + tag, False, "rc=%d %s" % (rc, vlib.last_error(out)))
                return False
            runs.append((("release" if rel else "debug") + ("-static" if static < 5 else "") + ("-log" if binname.endswith("_log") else ""),
                         pi, plan, out, static))
        return True

    for rel in [False] + ([True] if ctx.thorough() else []):
        if not build_and_run("h_fields", "fields", rel, plans, 5):
            return rep
    if not build_and_run("h_fields_static", "fields_static", False, static_plans, STATIC_FEATURE_CAP):
        return rep
    if not build_and_run("h_fields_log", "fields_log", False, log_plans, 5):
        return rep
    # ---- oracle over every observation
    case = None
    model_cases = {}      # key -> (template, impl record, refs)
    n_model_target = 9500 if ctx.thorough() else 5200
    n_static_target = n_model_target // 5
    n_log_target = n_model_target // 4
    n_static = 0
    seen_tpl = set()
    form_bad = []
    probe_bad = []
    log_dev = []
    n_log = n_nd = 0
    for prof, pi, plan, out, static in runs:
        logbuild = prof.endswith("-log")
        refs = {}
        phase_mode = {}
        phase_parent = {}
        phase_probe = {}
        for line in out.splitlines():
            if not line.startswith("{"):
                continue
            rec = json.loads(line)
            if "ref" in rec:
                refs[rec["ref"]] = [bytes.fromhex(x).decode("utf-8") for x in rec["v"]]
                continue
            if "static_max" in rec:
                rep.count("static_max:%d" % rec["static_max"])
                if rec["static_max"] != static:
                    rep.tie("harness:static-max-level", False, "%s build reports STATIC_MAX_LEVEL %s, expected %d" % (prof, rec["static_max"], static))
                continue
            if "log_feature" in rec:
                if rec["log_feature"] != logbuild:
                    rep.tie("harness:log-feature", False, "%s build reports log_feature=%s" % (prof, rec["log_feature"]))
                continue
            if "phase" in rec:
                if rec["mode"].startswith("nd") and rec.get("has_been_set"):
                    rep.tie("harness:no-dispatcher-phase", False, "dispatch::has_been_set() is true in phase %s" % rec["mode"])
                phase_mode[rec["phase"]] = rec["mode"]
                phase_parent[rec["phase"]] = rec["parent_id"]
                phase_probe[rec["phase"]] = bool(rec.get("panic_probe"))
                case = Case(D, refs, R)
                continue
            if "probe" in rec:
                # the panicking value itself: under an enabling collector it must really have panicked (else the phase proves nothing)
                pm = phase_mode[rec["ph"]]
                rep.count("panic-probe:%s" % ("caught" if rec["caught"] else "not-reached"))
                if rec["caught"] != guard_of(pm, "ERROR", static):
                    probe_bad.append("probe %d under `%s` (%s build, round %d): caught=%s" % (rec["probe"], pm, prof, rec["r"], rec["caught"]))
                continue
            t = by_id[rec["i"]]
            mode = phase_mode[rec["ph"]]
            probe = phase_probe.get(rec["ph"], False)
            rep.evaluations += 1
            rep.traces_validated += 1
            if mode.startswith("nd"):
                # no dispatcher at all (log build): the documented log behaviour, as a tie; the oracle keeps what it can demand
                n_nd += 1
                rep.count("collector:none(log build):" + mode)
                rep.count("disabled")
                rep.count("log-record-built" if (t.kind != "enabled" and log_built(t, mode)) else "log-record-filtered-out")
                bad, f101, dev = check_nd(t, rec, mode)
                for b, fid in [(x, None) for x in bad[:2]] + [(x, "F101") for x in f101[:1]]:
                    rep.violation("%s [%s!, template %d, round %d, no dispatcher (%s), %s build]" % (b, t.macro, t.id, rec["r"], mode, prof),
                                  {"template": describe(t), "round": rec["r"], "collector": mode, "profile": prof, "observed": rec,
                                   "replay_cmd": "h_fields_log <data> --only %d %s:1:%d   (data = seed %d, R = %d)" % (t.id, mode, rec["r"], ctx.seed, R)},
                                  finding=fid)
                if f101:
                    rep.count("F101:span-evaluates-though-log-rejects")
                for d_ in dev:
                    log_dev.append({"template": describe(t), "round": rec["r"], "phase": mode, "what": d_})
                key = (t.id, rec["r"], mode, static, True, False)
                if key not in model_cases and n_log < n_log_target and ctx.rng.random() < 0.2:
                    n_log += 1
                    model_cases[key] = (t, rec, refs)
                continue
            rep.count("collector:" + mode.rstrip("0123456789") + ("+static" if static < 5 else "") + ("+log" if logbuild else ""))
            g = guard_of(mode, t.level, static)
            rep.count("enabled" if g else "disabled")
            if static < 5 and LEVELNUM[t.level] > static:
                rep.count("disabled:static-max-level")
            if (t.id, mode) not in seen_tpl:
                seen_tpl.add((t.id, mode))
                rep.count("macro:" + t.macro)
                rep.count("fields:%s" % min(len(t.items), 9))
            if g and (t.items or t.fmt):
                rep.nontrivial.add((t.macro, prefix_string(t), t.brace, tuple(sorted((i["form"], i["nk"], i.get("sigil")) for i in t.items)),
                                    tuple(sorted(i["vk"] for i in t.items)), t.fmt is not None))
            bad = check_record(case, t, rec, mode, phase_parent[rec["ph"]], static, form_bad, logbuild)
            binname = "h_fields_static" if static < 5 else ("h_fields_log" if logbuild else "h_fields")
            if probe:
                rep.count("after-caught-panic-in-a-value")
            for b in bad[:2]:
                hist = " AFTER a caught panic of a value's Display/Debug inside the visitor (probe %d)" % (rec["r"] % 3) if probe else ""
                rep.violation("%s%s [%s!, template %d, round %d, collector %s, %s build]" % (b, hist, t.macro, t.id, rec["r"], mode, prof),
                              {"template": describe(t), "round": rec["r"], "collector": mode + ("+p" if probe else ""), "profile": prof,
                               "static_max_level": static, "history": "panic_probe(%d), caught; then this invocation" % (rec["r"] % 3) if probe else "none",
                               "observed": rec,
                               "replay_cmd": "%s <data> --only %d %s%s:1:%d   (data = seed %d, R = %d)" % (binname, t.id, mode, "+p" if probe else "", rec["r"], ctx.seed, R)})
            # choose cases for the model: every template under `always` at two rounds + a seeded sample of everything else
            key = (t.id, rec["r"], mode, static, logbuild, probe)
            if (prof in ("debug", "debug-static", "debug-log") or prof.startswith("corpus")) and key not in model_cases:
                if logbuild:
                    take = n_log < n_log_target and ctx.rng.random() < 0.2
                    n_log += take
                elif static < 5:
                    take = n_static < n_static_target and ctx.rng.random() < 0.25
                    n_static += take
                elif probe:
                    take = ctx.rng.random() < 0.05
                else:
                    take = prof.startswith("corpus") or (mode == "always" and pi == 0 and rec["r"] in ((t.id * 7) % R, (t.id * 3 + 11) % R)) \
                        or ctx.rng.random() < 0.012
                    take = take and len(model_cases) - n_static - n_log < n_model_target
                if take:
                    model_cases[key] = (t, rec, refs)
    rep.tie("harness:panic-probe-panics-iff-the-collector-formats-it", not probe_bad, "%d probes" % len(probe_bad), probe_bad[:1] or None)
    rep.tie("corpus-form:level/name/target/parent-as-written", not form_bad, "%d observations" % len(form_bad), form_bad[:1] or None)
    rep.tie("log-feature:disabled-branch-evaluates-exactly-as-documented", not log_dev,
            "%d of %d no-dispatcher observations deviate from the model (spec_log_formats + F101)" % (len(log_dev), n_nd), log_dev[:1] or None)
    ctx.log("oracle done: %d observations, %d violations" % (rep.evaluations, len(rep.violations)))
    # ---- model evaluation on the same cases
    try:
        keys = sorted(model_cases)
        terms = []
        chunk = 60
        for i in range(0, len(keys), chunk):
            cs = []
            for k in keys[i:i + chunk]:
                t, rec, refs = model_cases[k]
                cs.append(coq_case(Case(D, refs, R), t, k[1], k[2], k[3], k[4]))
            terms.append(("c%d" % i, "[%s]" % ";\n ".join(cs)))
        ctx.log("model terms built: %d cases in %d terms" % (len(keys), len(terms)))
        # one coqc process per core: coq_eval's default (len(terms) // 40) would put all ~55 large terms in a single process
        res = coq_eval(ctx, "From TV Require Import Fields.Encode.\nLocal Open Scope N_scope.\nLocal Open Scope string_scope.", terms,
                       shards=max(1, min(vlib.NCPU, len(terms))), timeout=1500)
        disagree = []
        for i in range(0, len(keys), chunk):
            for k, mv in zip(keys[i:i + chunk], res["c%d" % i]):
                t, rec, refs = model_cases[k]
                d = compare_model(t, rec, mv, k[4])
                if d:
                    disagree.append({"template": t.id, "round": k[1], "collector": k[2], "static_max_level": k[3], "log_build": k[4], "what": d,
                                     "rust": describe(t)["rust"]})
        rep.tie("correspondence:model-vs-implementation", not disagree, "%d of %d cases disagree" % (len(disagree), len(keys)), disagree[:1] or None)
        rep.extra["model_cases"] = len(keys)
        rep.extra["model_cases_static"] = n_static
        rep.extra["model_cases_log"] = n_log
        ctx.log("model evaluated on %d cases (%d under the static cap, %d in the log build), %d disagreements" % (len(keys), n_static, n_log, len(disagree)))
    except Exception as ex:  # ModelEvalError or an encoding problem: the tie is broken, the oracle has already run
        rep.tie("model-eval", False, str(ex)[:400])
    rep.extra["corpus_templates"] = len(tpls)
    rep.extra["payload_rounds"] = R
    rep.samples = [describe(by_id[i]) for i in (1, 300, 700, 1000) if i in by_id]
    return rep


def compare_model(t, rec, mv, logbuild=False):
    """None if the model's answer equals the implementation's observation, else a short description."""
    tag, val = mv if isinstance(mv, tuple) and len(mv) == 2 else (None, mv)
    if tag == "inl":
        ok, names, ret = val
        if not ok:
            return "model: no result"
        if ret != rec["ret"]:
            return "enabled! result: model %s impl %s" % (ret, rec["ret"])
        for e in rec["en"]:
            if "H" in e["kind"] and [list(bytes.fromhex(x)) for x in e["fields"]] != [list(n) for n in names]:
                return "enabled! names differ"
        return None
    ok, names, delivered, visits, ticks, posts = val
    if not ok:
        return "model: run = None"
    nt = t.nticks()
    it = rec["t"] + [0] * (nt - len(rec["t"]))
    mt = [0] * nt
    for x in ticks:
        if x < nt:
            mt[x] += 1
    if delivered or logbuild:
        # record_all! evaluates its own value set on a span that has metadata (an enabled one; with `log`, a disabled one
        # too); its laziness is not part of the model
        for op in t.post:
            if op["op"] == "record_all":
                for it2 in op["items"]:
                    mt[it2["tick"]] += 1
    if it != mt:
        return "evaluation counters: model %s impl %s" % (mt, it)
    if bool(delivered) != bool(rec["d"]):
        return "delivered: model %s impl %s" % (delivered, [d["cb"] for d in rec["d"]])
    if not delivered:
        return None
    d0 = rec["d"][0]
    if [list(bytes.fromhex(x)) for x in d0["fields"]] != [list(n) for n in names]:
        return "declared names differ: model %s" % (names,)
    iv = [impl_visit_canon(v) for v in d0["v"]]
    mvv = [model_visit_canon(v) for v in visits]
    if iv != mvv:
        return "visits differ: model %s impl %s" % (str(mvv)[:300], str(iv)[:300])
    ipost = []
    for d in rec["d"][1:]:
        ipost += [impl_visit_canon(v) for v in d["v"]]
    mpost = []
    for okp, vs in posts:
        if not okp:
            return "model: follow-up = None"
        mpost += [model_visit_canon(v) for v in vs]
    if ipost != mpost:
        return "follow-up visits differ: model %s impl %s" % (str(mpost)[:300], str(ipost)[:300])
    return None
