"""C17 — #[instrument] preserves behaviour exactly and adds one well-formed span per call.

Leg A: theorems of coq/theories/Properties/C17.v over Attr/Model.v (a function-skeleton language, a big-step
       semantics with an effect log, `expand` = the eight templates of gen_block around the unchanged body).
Leg B: (1) translator translators/attr_templates.py: the quote! skeletons of expand.rs gen_block -> coq/gen/Gen_attr.v,
       compared (by a Coq obligation) with the templates the model's `expand` builds;
       (2) correspondence on a generated corpus of twins (harness/attr): the same skeleton terms are compiled as
       Rust (plain / #[tracing::instrument(..)]) and evaluated by the model; per call the canonical logs must agree.
Leg C: oracle on the implementation's own logs: twin equality (value / panic payload, order of the body's own
       effects, per-parameter counts, scope-exit drop multiset) and the span-log predicates (exactly one span with the
       configured name/level/target/parent/fields, body inside enter/exit on every poll, ret/err events)."""
import collections
import json
import os
import sys

import vlib
from vlib import Report, coq_prove, cargo_build, run_bin, coq_eval, gen_if_changed

from props import c17_corpus as C

CORPUS_SEED = 1701
N_QUICK = 320
N_BIG = 900

LEVELS = {1: "ERROR", 2: "WARN", 3: "INFO", 4: "DEBUG", 5: "TRACE"}


# ------------------------------------------------------------------------------------------------
# corpus files (deterministic; only rewritten when the generator changes)

_corpus_cache = {}


def corpus(which):
    if which not in _corpus_cache:
        if which == "a":
            _corpus_cache[which] = C.build_corpus(N_QUICK, CORPUS_SEED)
        else:
            _corpus_cache[which] = C.build_corpus(N_BIG, CORPUS_SEED + 1)
    return _corpus_cache[which]


def write_corpora():
    src = os.path.join(vlib.VERIF, "harness", "attr", "src")
    gen_if_changed(os.path.join(src, "corpus_a.rs"), C.render_corpus(corpus("a"), CORPUS_SEED))
    gen_if_changed(os.path.join(src, "corpus_b.rs"), C.render_corpus(corpus("b"), CORPUS_SEED + 1))


# ------------------------------------------------------------------------------------------------
# canonical entries

TRACING_KINDS = {"fe", "pe", "fle", "tfmt", "new_span", "follows", "enter", "exit", "close", "event", "record"}
BODY_KINDS = {"eff", "use", "mv", "bdrop", "clone", "yield", "dbg", "disp"}


def parse_impl_entry(s):
    if "|" in s:
        p = s.split("|")
        k = p[0]
        if k == "new_span":
            return ("new_span", int(p[1]), p[2], int(p[3]), p[4], p[5], tuple(x for x in "|".join(p[6:]).split(",") if x))
        if k in ("enter", "exit", "close"):
            return (k, int(p[1]))
        if k == "follows":
            return ("follows", int(p[1]), int(p[2]))
        if k == "event":
            return ("event", int(p[1]), p[2], p[3], tuple(x for x in "|".join(p[4:]).split(",") if x))
        return ("record",) + tuple(p[1:])
    t = s.split()
    k = t[0]
    if k in ("tdbg", "tdisp"):
        return ("tfmt", k == "tdisp", int(t[1]))
    if k == "fle":
        return ("fle",)
    return (k,) + tuple(int(x) for x in t[1:])


def split_calls(log, ncalls):
    """De-interleave the harness log into one canonical log per call.  Returns (per_call, problems).
    Shapes:  call i .. ret i | call i .. panicked i | call i .. created i | poll i .. pending i |
             poll i .. ready i .. dropped i | poll i .. panicked i .. dropped i"""
    per = [[] for _ in range(ncalls)]
    cur = None      # (call index, phase) with phase in 'call' | 'poll' | 'after'
    problems = []
    for raw in log:
        e = parse_impl_entry(raw)
        k = e[0]
        if k in ("call", "poll"):
            if cur is not None:
                problems.append("nested %s" % raw)
            cur = (e[1], k)
            continue
        if k in ("ret", "created", "pending", "ready", "panicked", "dropped"):
            if cur is None or cur[0] != e[1]:
                problems.append("unexpected %s" % raw)
                continue
            i, phase = cur
            if k == "pending":
                per[i].append(("pending",))
                cur = None
            elif k == "created":
                per[i].append(("created",))
                cur = None
            elif k == "ret":
                per[i].append(("end", "ok"))
                cur = None
            elif k == "ready":
                per[i].append(("end", "ok"))
                cur = (i, "after")
            elif k == "panicked":
                per[i].append(("end", "panicked"))
                cur = None if phase == "call" else (i, "after")
            else:
                cur = None
            continue
        if cur is None:
            problems.append("entry outside any call: %s" % raw)
            continue
        if cur[1] == "after":
            per[cur[0]].append(("afterend",) + e)   # effects of dropping a finished future
        else:
            per[cur[0]].append(e)
    return per, problems


def canon_impl_call(entries, caller_id=4):
    """Rename span ids: the call's own span -> 'self'; helper spans -> h0..h2; caller -> 'caller'."""
    own = None
    out = []
    for e in entries:
        k = e[0]
        if k == "new_span":
            if own is None:
                own = e[1]
            sid = "self" if e[1] == own else "other%d" % e[1]
            out.append(("new_span", sid, e[2], e[3], e[4], ren_parent(e[5], own, caller_id), e[6]))
        elif k in ("enter", "exit", "close"):
            out.append((k, "self" if e[1] == own else "other%d" % e[1]))
        elif k == "follows":
            out.append(("follows", "self" if e[1] == own else "other%d" % e[1], "h%d" % (e[2] - 1)))
        elif k == "event":
            out.append(("event", e[1], e[2], ren_parent(e[3], own, caller_id), e[4]))
        else:
            out.append(e)
    return out


def ren_parent(s, own, caller_id):
    if s in ("root", "ctx:none"):
        return s
    kind, _, n = s.partition(":")
    n = int(n)
    if n == own:
        who = "self"
    elif n == caller_id:
        who = "caller"
    elif 1 <= n <= 3:
        who = "h%d" % (n - 1)
    else:
        who = "other%d" % n
    return kind + ":" + who


def sort_drop_runs(entries):
    """The order inside a run of consecutive scope-exit drops is an artefact of rustc's capture / field order
    (unspecified for closures and async blocks): sorted before comparing."""
    out = []
    run = []
    for e in entries:
        if e[0] == "xdrop":
            run.append(e)
        else:
            out += sorted(run)
            run = []
            out.append(e)
    out += sorted(run)
    return out


# ---- model side

def render_val(v, display, err_payload=False):
    """text the harness's visitor prints for a value recorded with ?x / %x"""
    if v == "VUnit":
        return "()"
    k = v[0]
    if k == "VNum":
        if err_payload:
            return ("e%d" if display else "Er(%d)") % v[1]
        return str(v[1])
    if k == "VRec":
        return ("r%d" if display else "R%d") % v[1]
    if k == "VOk":
        return "Ok(%s)" % render_val(v[1], display)
    if k == "VErr":
        return "Err(%s)" % render_val(v[1], display, True)
    raise ValueError(v)


def result_text(r):
    if r[0] == "RPanic":
        return "panic:%d" % r[1]

    def rv(v, errp=False):
        if v == "VUnit":
            return "()"
        if v[0] == "VNum":
            return ("Er(%d)" % v[1]) if errp else str(v[1])
        if v[0] == "VRec":
            return "R%d" % v[1]
        if v[0] == "VOk":
            return "Ok(%s)" % rv(v[1])
        return "Err(%s)" % rv(v[1], True)
    return rv(r[1])


def fvalue_text(fv):
    k = fv[0]
    if k == "FVValue":
        t, n = fv[1], fv[2]
        return {"TU32": "u64:%d" % n, "TBool": "bool:%s" % ("true" if n else "false"), "TStr": "str:s%d" % (n % 4)}[t]
    if k == "FVFmtPrim":
        d, t, n = fv[1], fv[2], fv[3]
        if t == "TU32":
            return "dbg:%d" % n
        if t == "TBool":
            return "dbg:%s" % ("true" if n else "false")
        return ("dbg:s%d" if d else 'dbg:"s%d"') % (n % 4)
    if k == "FVFmtRec":
        return ("dbg:r%d" if fv[1] else "dbg:R%d") % fv[2]
    raise ValueError(fv)


def opt(x):
    return None if x is None else x[1]


def canon_model_call(entries, result, fn, modpath, span_on, cur):
    """model log -> the same canonical form as canon_impl_call(split_calls(..))"""
    out = []
    name_default = C.fn_name(fn, "i")

    def fname(n):
        return fn["binds"][n[1]]["name"] if n[0] == "FnParam" else "f%d" % n[1]
    ctx = "ctx:caller" if cur else "ctx:none"
    for e in entries:
        k = e if isinstance(e, str) else e[0]
        if k == "EEff":
            out.append(("eff", e[1]))
        elif k == "EUse":
            out.append(("use", e[1]))
        elif k == "EMove":
            out.append(("mv", e[1]))
        elif k == "EDrop":
            out.append(("bdrop", e[1]))
        elif k == "EClone":
            out.append(("clone", e[1]))
        elif k == "EYield":
            out.append(("yield", e[1]))
        elif k == "EXDrop":
            out.append(("xdrop", e[1]))
        elif k == "EPending":
            out.append(("pending",))
        elif k == "ECreated":
            out.append(("created",))
        elif k == "TFieldEval":
            out.append(("fe", e[1]))
        elif k == "TParentEval":
            out.append(("pe", e[1]))
        elif k == "TFollowsEval":
            out.append(("fle",))
        elif k == "TFmt":
            out.append(("tfmt", e[1], e[2]))
        elif k == "TNewSpan":
            name, level, target, parent, fields = e[1], e[2], e[3], e[4], e[5]
            ps = {"ParRoot": "root", "ParCtx": ctx}.get(parent) if isinstance(parent, str) else "explicit:h%d" % parent[1]
            out.append(("new_span", "self", name_default if name is None else "name%d" % name[1], level,
                        modpath if target is None else "tgt%d" % target[1], ps,
                        tuple("%s=%s" % (fname(n), fvalue_text(v)) for (n, v) in fields)))
        elif k == "TFollows":
            out.append(("follows", "self", "h%d" % e[1]))
        elif k == "TEnter":
            out.append(("enter", "self"))
        elif k == "TExit":
            out.append(("exit", "self"))
        elif k == "TClose":
            out.append(("close", "self"))
        elif k == "TEvent":
            level, target, is_err, display, v = e[1], e[2], e[3], e[4], e[5]
            out.append(("event", level, modpath if target is None else "tgt%d" % target[1], "ctx:self" if span_on else ctx,
                        ("%s=dbg:%s" % ("error" if is_err else "return", render_val(v, display, is_err)),)))
        else:
            raise ValueError(e)
    out.append(("end", "panicked" if result[0] == "RPanic" else "ok"))
    return out


# ------------------------------------------------------------------------------------------------
# the oracle: the property, evaluated on the implementation's logs (independent of the Coq model)

def own_effects(entries):
    return [e for e in entries if e[0] not in TRACING_KINDS and e[0] not in ("xdrop", "afterend") and e[0] != "end"]


def spec_level(a):
    return a["level"] if a["level"] is not None else 3


def spec_span_on(col, lvl):
    if col is None:
        return False
    hint, span_on, ev_on, sometimes, no_hint = col
    return lvl <= hint and bool(span_on)


def spec_event_on(col, lvl):
    if col is None:
        return False
    hint, span_on, ev_on, sometimes, no_hint = col
    return lvl <= hint and bool(ev_on)


def spec_fields(fn, args):
    """(name, text) pairs the span must carry — straight from the attribute's documentation."""
    a = fn["attrs"]
    out = []
    custom_names = {cf["name"][1] for cf in a["fields"] if cf["name"][0] == "param"}
    for b in fn["binds"]:
        if not b["named"] or b["i"] in a["skips"] or b["i"] in custom_names:
            continue
        v = args[b["i"]] if b["i"] < len(args) else 0
        if b["ty"] == "rec":
            txt = "dbg:R%d" % b["i"]
        elif b["rtype"] == "value":
            txt = {"u32": "u64:%d" % v, "bool": "bool:%s" % ("true" if v else "false"), "str": "str:s%d" % (v % 4)}[b["ty"]]
        else:
            txt = {"u32": "dbg:%d" % v, "bool": "dbg:%s" % ("true" if v else "false"), "str": 'dbg:"s%d"' % (v % 4)}[b["ty"]]
        out.append("%s=%s" % (b["name"], txt))
    for cf in a["fields"]:
        fe = cf["expr"]
        if fe[0] == "empty":
            continue
        name = "f%d" % cf["name"][1] if cf["name"][0] == "custom" else fn["binds"][cf["name"][1]]["name"]
        if fe[0] == "rec":
            txt = ("dbg:r%d" if cf["kind"] == "display" else "dbg:R%d") % fe[2]
        else:
            n = fe[2] if fe[0] == "num" else (args[fe[2]] if fe[2] < len(args) else 0)
            txt = ("u64:%d" if cf["kind"] == "value" else "dbg:%d") % n
        out.append("%s=%s" % (name, txt))
    return tuple(out)


def oracle_call(rep, case, ci, fn, modpath, inst, plain, res_i, res_p):
    """inst / plain: canonical per-call logs of the twins (same case, same args, same collector)."""
    a = fn["attrs"]
    call = case["calls"][ci]
    args = call["args"]
    col = case["col"]
    info = {"case": case["line"], "call": ci, "fn": fn["idx"], "fn_name": C.fn_name(fn, "i"), "attrs": C.attr_key(fn), "kind": fn["kind"],
            "args": args, "collector": col, "inst_log": [list(map(str, e)) for e in inst][:80], "plain_log": [list(map(str, e)) for e in plain][:80],
            "result_inst": res_i, "result_plain": res_p}
    bad = []
    # (1) behaviour preservation
    if res_i != res_p:
        bad.append("returns %r but the uninstrumented twin returns %r" % (res_i, res_p))
    oi, op = own_effects(inst), own_effects(plain)
    if oi != op:
        k = next((j for j, (x, y) in enumerate(zip(oi, op)) if x != y), min(len(oi), len(op)))
        bad.append("own effects differ from the twin at position %d: %s vs %s" % (k, oi[k:k + 3], op[k:k + 3]))
    xi = collections.Counter(e[1] for e in inst if e[0] == "xdrop" or (e[0] == "afterend" and e[1] == "xdrop" and False))
    xp = collections.Counter(e[1] for e in plain if e[0] == "xdrop")
    # drops observed while the harness drops a finished/panicked future count as drops of the call
    for e in inst:
        if e[0] == "afterend" and e[1] == "xdrop":
            xi[e[2]] += 1
    for e in plain:
        if e[0] == "afterend" and e[1] == "xdrop":
            xp[e[2]] += 1
    if xi != xp:
        bad.append("scope-exit drops differ from the twin: %s vs %s" % (dict(xi), dict(xp)))
    if any(e[0] in TRACING_KINDS for e in plain):
        bad.append("the uninstrumented twin produced tracing entries")
    # (2) exactly one well-formed span
    lvl = spec_level(a)
    on = spec_span_on(col, lvl)
    spans = [e for e in inst if e[0] == "new_span"]
    if on:
        if len(spans) != 1:
            bad.append("%d spans created, expected exactly 1" % len(spans))
        else:
            s = spans[0]
            want_name = C.fn_name(fn, "i") if a["name"] is None else "name%d" % a["name"]
            want_target = modpath if a["target"] is None else "tgt%d" % a["target"]
            want_parent = ("ctx:caller" if case["cur"] else "ctx:none") if a["parent"] is None else (
                "root" if a["parent"][0] == "none" else "explicit:h%d" % a["parent"][1])
            if (s[2], s[3], s[4], s[5]) != (want_name, lvl, want_target, want_parent):
                bad.append("span (name, level, target, parent) = %s, configured %s" % ((s[2], s[3], s[4], s[5]), (want_name, lvl, want_target, want_parent)))
            want_fields = spec_fields(fn, args)
            if s[6] != want_fields:
                bad.append("span fields %s, configured %s" % (s[6], want_fields))
            # custom field expressions evaluated exactly once
            fes = collections.Counter(e[1] for e in inst if e[0] == "fe")
            want_fes = collections.Counter(cf["expr"][1] for cf in a["fields"] if cf["expr"][0] != "empty")
            if fes != want_fes:
                bad.append("custom field expressions evaluated %s, expected once each %s" % (dict(fes), dict(want_fes)))
            if a["follows"] is not None:
                fl = [e[2] for e in inst if e[0] == "follows"]
                if fl != ["h%d" % k for k in a["follows"]]:
                    bad.append("follows_from %s, configured %s" % (fl, a["follows"]))
    else:
        if spans or any(e[0] in ("enter", "exit", "close", "follows") for e in inst):
            bad.append("span disabled by the collector but span callbacks observed")
        if any(e[0] in ("fe", "pe") for e in inst):
            bad.append("span disabled but field / parent expressions evaluated")
    # (3) the body (each poll of it) runs inside the span, nothing else does
    inside = False
    for e in inst:
        k = e[0]
        if k == "afterend":
            k = e[1]
        if k == "enter":
            if inside or e[-1] != "self":
                bad.append("enter while already inside / foreign span")
                break
            inside = True
        elif k == "exit":
            if not inside or e[-1] != "self":
                bad.append("exit without enter")
                break
            inside = False
        elif k in BODY_KINDS:
            if on and not inside:
                bad.append("body effect %s outside the span" % (e,))
                break
        elif k in ("pending", "created", "end"):
            if inside:
                bad.append("span still entered at a poll boundary / when the call returns (%s)" % (e,))
                break
        elif k == "event":
            if on and (not inside or e[3] != "ctx:self"):
                bad.append("event %s emitted outside the span" % (e,))
                break
    # (4) ret / err events
    evs = [e for e in inst if e[0] == "event"]
    want = []
    if not res_i.startswith("panic"):
        tgt = modpath if a["target"] is None else "tgt%d" % a["target"]
        is_res = C.shape_ok_err(fn["ret"]) is not None

        def txt(s, display):
            # s: canonical result text; what Debug / Display print for it
            import re
            if display:
                s = re.sub(r"R(\d+)", r"r\1", s)
                s = re.sub(r"Er\((\d+)\)", r"e\1", s)
            return s
        if a["err"] and res_i.startswith("Err("):
            l = a["err"]["level"] or 1
            if spec_event_on(col, l):
                want.append((l, tgt, "error=dbg:" + txt(res_i[4:-1], a["err"]["mode"] != "debug")))
        if a["ret"]:
            l = a["ret"]["level"] or lvl
            disp = a["ret"]["mode"] == "display"
            if a["err"]:
                if res_i.startswith("Ok(") and spec_event_on(col, l):
                    want.append((l, tgt, "return=dbg:" + txt(res_i[3:-1], disp)))
            elif spec_event_on(col, l):
                want.append((l, tgt, "return=dbg:" + txt(res_i, disp)))
    got = [(e[1], e[2], e[4][0] if e[4] else "") for e in evs]
    if got != want:
        bad.append("ret/err events %s, expected %s" % (got, want))
    for b in bad:
        rep.violation("#[instrument] twin %s (%s): %s" % (C.fn_name(fn, "i"), fn["kind"], b), dict(info, what=b))
    return not bad


# ------------------------------------------------------------------------------------------------
# case generation

COLLECTORS = [
    (5, 1, 1, 0, 0), (5, 1, 1, 0, 0), (5, 1, 1, 1, 0), (5, 1, 1, 0, 1),
    (4, 1, 1, 0, 0), (3, 1, 1, 0, 0), (2, 1, 1, 0, 0), (1, 1, 1, 0, 0), (0, 1, 1, 0, 0),
    (3, 1, 1, 1, 1), (2, 1, 1, 0, 1), (5, 0, 1, 0, 0), (5, 1, 0, 0, 0), (5, 0, 0, 1, 0), None,
]


def gen_args(rng, fn):
    out = []
    for b in fn["binds"]:
        if b["ty"] == "bool":
            out.append(rng.randint(0, 1))
        elif b["ty"] == "u32":
            out.append(rng.randint(0, 9))
        elif b["ty"] == "str":
            out.append(rng.randint(0, 3))
        else:
            out.append(0)
    return out


def case_line(cid, col, cur, calls, sched):
    return "case %s col %s cur %d calls %s sched %s" % (
        cid, "none" if col is None else ",".join(str(x) for x in col), 1 if cur else 0,
        ";".join("%d:%s:%s" % (c["f"], c["twin"], ".".join(str(x) for x in c["args"]) or "") for c in calls),
        ".".join(str(x) for x in sched) or "-")


def gen_cases(rng, fns, per_fn, n_multi):
    """Each case exists twice: all calls plain / all calls instrumented (same args, collector, schedule)."""
    cases = []
    asyncs = [f for f in fns if f["kind"] != "sync"]
    n = 0
    for fn in fns:
        for k in range(per_fn):
            col = COLLECTORS[0] if k == 0 else rng.choice(COLLECTORS)
            cur = rng.random() < 0.5
            args = gen_args(rng, fn)
            for twin in "pi":
                calls = [{"f": fn["idx"], "twin": twin, "args": args}]
                cases.append({"id": "s%d%s" % (n, twin), "pair": n, "twin": twin, "col": col, "cur": cur, "calls": calls, "sched": []})
            n += 1
    for _ in range(n_multi):
        k = rng.randint(2, 4)
        picks = [rng.choice(asyncs if rng.random() < 0.8 else fns) for _ in range(k)]
        col = rng.choice(COLLECTORS[:5] + [rng.choice(COLLECTORS)])
        cur = rng.random() < 0.5
        argl = [gen_args(rng, f) for f in picks]
        sched = [rng.randrange(k) for _ in range(rng.randint(0, 14))]
        for twin in "pi":
            calls = [{"f": f["idx"], "twin": twin, "args": a} for f, a in zip(picks, argl)]
            cases.append({"id": "m%d%s" % (n, twin), "pair": n, "twin": twin, "col": col, "cur": cur, "calls": calls, "sched": sched})
        n += 1
    for c in cases:
        c["line"] = case_line(c["id"], c["col"], c["cur"], c["calls"], c["sched"])
    return cases


def coq_col(col):
    if col is None:
        return "(mkCol 0 0 false false)"
    hint, span_on, ev_on, sometimes, no_hint = col
    return "(mkCol %d %d %s %s)" % (5 if no_hint else hint, hint, "true" if span_on else "false", "true" if ev_on else "false")


# ------------------------------------------------------------------------------------------------

def run_corpus(ctx, rep, which, binname, per_fn, n_multi, label):
    fns = corpus(which)
    by_idx = {f["idx"]: f for f in fns}
    modpath = "%s::corpus" % binname
    ok, paths, log = cargo_build(ctx, "attr", [binname])
    if not ok:
        rep.tie("build:%s" % binname, False, vlib.last_error(log))
        return
    cases = gen_cases(ctx.rng, fns, per_fn, n_multi)
    # the `none` collector needs a process in which no collector was ever installed
    batches = [[c for c in cases if c["col"] is not None], [c for c in cases if c["col"] is None]]
    obs = {}
    for b in batches:
        if not b:
            continue
        rc, out = run_bin(paths[binname], input="\n".join(c["line"] for c in b) + "\n", timeout=900)
        if rc != 0:
            rep.tie("run:%s" % binname, False, "rc=%d %s" % (rc, vlib.last_error(out)))
            return
        for l in out.splitlines():
            if l.startswith("{"):
                o = json.loads(l)
                obs[o["id"]] = o
    if len(obs) != len(cases):
        rep.tie("run:%s" % binname, False, "%d observations for %d cases" % (len(obs), len(cases)))
        return
    # ---- model evaluation: one run per distinct (fn, twin, args, collector)
    keys = {}
    for c in cases:
        for call in c["calls"]:
            keys.setdefault((call["f"], call["twin"], tuple(call["args"]), c["col"]), None)
    klist = sorted(keys, key=lambda k: (k[0], k[1], k[2], str(k[3])))
    model = None
    try:
        used = sorted({k[0] for k in klist})
        prelude = "\n".join("Definition fn%d := %s.\nDefinition at%d := %s." % (i, C.c_func(by_idx[i]), i, C.c_attrs(by_idx[i]["attrs"])) for i in used)
        terms = []
        chunk = 120
        for i in range(0, len(klist), chunk):
            items = []
            for (f, twin, args, col) in klist[i:i + chunk]:
                top = "TPlain" if twin == "p" else "(expand at%d fn%d)" % (f, f)
                items.append("run %s %s fn%d %s" % (coq_col(col), C.c_args(args), f, top))
            terms.append(("r%d" % i, "[%s]" % "; ".join(items)))
        res = coq_eval(ctx, "From TV Require Import Attr.Model.\nLocal Open Scope N_scope.", terms, prelude=prelude, tag="cases_" + which)
        model = {}
        for i in range(0, len(klist), chunk):
            for k, r in zip(klist[i:i + chunk], res["r%d" % i]):
                model[k] = r
    except Exception as ex:
        rep.tie("model-eval:%s" % label, False, str(ex)[:400])
    # ---- correspondence + oracle
    disagree = []
    pairs = {}
    for c in cases:
        o = obs[c["id"]]
        per, problems = split_calls(o["log"], len(c["calls"]))
        if problems:
            rep.violation("harness log of case %s is not well-formed: %s" % (c["id"], problems[:2]), {"case": c["line"], "problems": problems[:5]})
        per = [canon_impl_call(p) for p in per]
        c["per"] = per
        c["results"] = o["results"]
        pairs.setdefault(c["pair"], {})[c["twin"]] = c
        rep.traces_validated += 1
        for ci, call in enumerate(c["calls"]):
            fn = by_idx[call["f"]]
            rep.evaluations += 1
            rep.count("calls:%s:%s" % (fn["kind"], "inst" if call["twin"] == "i" else "plain"))
            rep.count("collector:%s" % ("none" if c["col"] is None else "hint%d%s%s%s%s" % (
                c["col"][0], "" if c["col"][1] else "-nospan", "" if c["col"][2] else "-noevent", "-sometimes" if c["col"][3] else "", "-nohint" if c["col"][4] else "")))
            if model is not None:
                mlog, mres = model[(call["f"], call["twin"], tuple(call["args"]), c["col"])]
                lvl = spec_level(fn["attrs"])
                hint_ok = c["col"] is not None and lvl <= c["col"][0] and bool(c["col"][1])
                caller_on = c["cur"] and c["col"] is not None and c["col"][0] >= 1 and bool(c["col"][1])   # the caller's span is an ERROR-level span
                want = sort_drop_runs(canon_model_call(mlog, mres, fn, modpath, hint_ok and call["twin"] == "i", caller_on))
                got = sort_drop_runs([e[1:] if e[0] == "afterend" else e for e in per[ci]])
                # the harness logs the end marker before the drop of the finished future; move it last
                got = [e for e in got if e[0] != "end"] + [e for e in got if e[0] == "end"]
                if got != want or result_text(mres) != o["results"][ci]:
                    k = next((j for j, (x, y) in enumerate(zip(got, want)) if x != y), min(len(got), len(want)))
                    disagree.append({"case": c["line"], "call": ci, "fn": C.fn_name(fn, call["twin"]), "kind": fn["kind"], "at": k,
                                     "impl": [str(e) for e in got[max(0, k - 3):k + 4]], "model": [str(e) for e in want[max(0, k - 3):k + 4]],
                                     "impl_result": o["results"][ci], "model_result": result_text(mres)})
    for pid, tw in sorted(pairs.items()):
        ci_case, cp_case = tw["i"], tw["p"]
        for ci, call in enumerate(ci_case["calls"]):
            fn = by_idx[call["f"]]
            good = oracle_call(rep, ci_case, ci, fn, modpath, ci_case["per"][ci], cp_case["per"][ci], ci_case["results"][ci], cp_case["results"][ci])
            rep.nontrivial.add((C.template_key(fn), C.pattern_key(fn), C.attr_key(fn)))
            rep.count("template:" + C.template_key(fn))
            res = ci_case["results"][ci]
            rep.count("outcome:" + ("panic" if res.startswith("panic") else "err" if res.startswith("Err") else "ok" if res.startswith("Ok") else "value"))
        if len(ci_case["calls"]) > 1:
            rep.count("interleaved-cases")
            # global: at most one function span entered at any time (polls are atomic)
            depth = 0
            for raw in obs[ci_case["id"]]["log"]:
                if raw.startswith("enter|"):
                    depth += 1
                    if depth > 1:
                        rep.violation("two instrumented futures' spans entered at once in an interleaved run", {"case": ci_case["line"]})
                        break
                elif raw.startswith("exit|"):
                    depth -= 1
    if model is not None:
        rep.tie("correspondence:%s" % label, not disagree, "%d of %d calls disagree" % (len(disagree), sum(len(c["calls"]) for c in cases)),
                disagree[:1] or None)
        if disagree:
            ctx.log("first disagreements: " + json.dumps(disagree[:3], indent=1))
    rep.extra.setdefault("corpus", {})[label] = {"functions": len(fns), "cases": len(cases), "model_runs": len(klist)}


def run(ctx):
    rep = Report(ctx)
    rep.rule = ("each call of a corpus function = one evaluation; non-trivial = every call (all twins have parameters and effects); "
                "distinct = distinct (gen_block template, parameter-pattern set, attribute-argument set) triples of the functions exercised")
    rep.trusted_base = [
        "Coq 8.16.1 kernel + vm_compute", "harness/attr (recorder type, recording collector, hand poller) and driver/props/c17*.py (generator, canonicaliser, oracle)",
        "rustc 1.95 / syn / quote: the proc-macro pipeline, closure capture and drop elaboration (modelled in Attr/Model.v, tied only by the compiled corpus)",
        "translators/attr_templates.py (shape recognition of gen_block's quote! skeletons; fails closed)"]
    rep.assumptions = [
        "PARTIAL: the theorems are about the templates of gen_block and a model of Rust's evaluation / capture / drop order; that expand.rs emits these "
        "templates and rustc gives them this meaning is tied by the compiled corpus and the template translator, not proved",
        "type inference (fake_return_edge), lints, impl-Trait erasure, hygiene: compile-time matters, covered only in that the corpus compiles",
        "Debug/Display calls made by the collector while it records a span/event (a recorded argument is formatted by the collector) and the "
        "expressions written inside the attribute (fields / parent / follows_from) are tracing-side effects: erase_tracing removes them; they are "
        "checked separately (each custom field expression exactly once when enabled, never when disabled)",
        "the order inside a run of consecutive scope-exit drops is not compared (rustc's closure-capture / field order); counts and positions of the runs are",
        "futures are polled to completion (no cancellation); tracing's `log` feature is off",
        "attribute arguments are those this tree's attr.rs parses (name, level, target, parent, follows_from, skip, fields, ret, err); "
        "`skip_all` does not exist on this release line, so `skipped arguments absent` is about `skip(..)`"]
    write_corpora()
    # ---- leg B1: template translator
    try:
        sys.path.insert(0, os.path.join(vlib.VERIF, "translators"))
        import attr_templates
        text, unrec = attr_templates.main(ctx.repo, None)
        gen_if_changed(os.path.join(vlib.COQ, "gen", "Gen_attr.v"), text)
        rep.tie("translator:Gen_attr", not unrec, "; ".join(unrec[:4]), unrec[:1] or None)
    except ImportError:
        pass
    # ---- leg A
    rep.proof = coq_prove(ctx, "C17", ["theories/Properties/C17.vo"])
    # ---- legs B2 + C
    if ctx.thorough():
        run_corpus(ctx, rep, "a", "h_attr", 10, 600, "quick-corpus")
        run_corpus(ctx, rep, "b", "h_attr_big", 6, 1200, "big-corpus")
    else:
        run_corpus(ctx, rep, "a", "h_attr", 4, 250, "quick-corpus")
    rep.samples = [{"twin": "sync + err, Fn closure: ... event error; exit; close; then the closure temporary's captures, then the other parameters"},
                   {"twin": "async: new_span at the first poll; enter/exit around every poll; enter; exit; close when the finished Instrumented is dropped"}]
    return rep
