"""C17 — #[instrument] preserves behaviour exactly and adds one well-formed span per call.

Leg A: theorems of coq/theories/Properties/C17.v over Attr/Model.v (a function-skeleton language, a big-step
       semantics with an effect log, `expand` = the eight templates of gen_block around the unchanged body).
Leg B: (1) translator translators/attr_templates.py: the quote! skeletons of expand.rs gen_block -> coq/gen/Gen_attr.v,
       compared (by a Coq obligation) with the templates the model's `expand` builds;
       (2) correspondence on a generated corpus of twins (harness/attr): the same skeleton terms are compiled as
       Rust (plain / #[tracing::instrument(..)]) and evaluated by the model; per call the canonical logs must agree.
Leg C: oracle on the implementation's own logs: twin equality (value / panic payload, order of the body's own
       effects, per-parameter counts, scope-exit drop multiset) and the span-log predicates (exactly one span with the
       configured name/level/target/parent/fields, body inside enter/exit on every poll, ret/err events)."""
import collections
import json
import os
import sys

import vlib
from vlib import Report, coq_prove, cargo_build, run_bin, coq_eval, gen_if_changed

from props import c17_corpus as C

CORPUS_SEED = 1701
N_QUICK = 600
N_BIG = 2400

LEVELS = {1: "ERROR", 2: "WARN", 3: "INFO", 4: "DEBUG", 5: "TRACE"}


# ------------------------------------------------------------------------------------------------
# corpus files (deterministic; only rewritten when the generator changes)

_corpus_cache = {}


def regress_files():
    d = os.path.join(vlib.VERIF, "corpus", "C17")
    out = []
    if os.path.isdir(d):
        for f in sorted(os.listdir(d)):
            if f.endswith(".json"):
                out.append((f, json.load(open(os.path.join(d, f)))))
    return out


def regress_specs():
    """[(file, entry)] of the hand-written regression skeletons, in a fixed order; entry k is function N_QUICK + k of corpus a."""
    return [(f, e) for f, doc in regress_files() for e in doc["functions"]]


# The argument-order probe: `target` written before `parent` / `follows_from`.  attr.rs rejects that order (its duplicate-argument
# guards for `parent` and `follows_from` test `args.target`): known finding F172.  Compiled as its own binary so that the rejection
# does not take the corpus down; once the guards are repaired the twins compile and go through the same correspondence + oracle.
ORDER_SPECS = [
    {"name": "target_then_parent", "kind": "sync", "groups": ["u32", "val"], "ret": "num", "body": ["seq", ["eff", 1], ["use", 1]], "tail": ["prim", 0],
     "attrs": {"target": 0, "parent": ["none"], "order": "target_first", "ret": {"mode": "default"}}, "calls": [{"args": [4, 0], "cur": True}]},
    {"name": "target_then_follows", "kind": "sync", "groups": ["u32"], "ret": "unit", "body": ["eff", 2], "tail": ["unit"],
     "attrs": {"target": 1, "follows": [0, 2], "order": "target_first"}, "calls": [{"args": [1]}]},
    {"name": "target_then_parent_follows_async", "kind": "async", "groups": ["val"], "ret": "rec", "body": ["seq", ["use", 0], ["await", 3]], "tail": ["movep", 0],
     "attrs": {"target": 2, "parent": ["helper", 1], "follows": [0], "order": "target_first"}, "calls": [{"args": [0]}, {"args": [0], "col": [5, 0, 1, 0, 0]}]},
]
ORDER_MSG = ("expected only a single `parent` argument", "expected only a single `follows_from` argument")


def corpus(which):
    if which not in _corpus_cache:
        if which == "a":
            _corpus_cache[which] = C.build_corpus(N_QUICK, CORPUS_SEED, [e for _, e in regress_specs()])
        elif which == "o":
            _corpus_cache[which] = C.build_corpus(0, CORPUS_SEED + 2, ORDER_SPECS)
        else:
            _corpus_cache[which] = C.build_corpus(N_BIG, CORPUS_SEED + 1)
    return _corpus_cache[which]


def write_corpora():
    src = os.path.join(vlib.VERIF, "harness", "attr", "src")
    gen_if_changed(os.path.join(src, "corpus_a.rs"), C.render_corpus(corpus("a"), CORPUS_SEED))
    gen_if_changed(os.path.join(src, "corpus_b.rs"), C.render_corpus(corpus("b"), CORPUS_SEED + 1))
    gen_if_changed(os.path.join(src, "corpus_o.rs"), C.render_corpus(corpus("o"), CORPUS_SEED + 2))


# ------------------------------------------------------------------------------------------------
# canonical entries

TRACING_KINDS = {"fe", "pe", "fle", "tfmt", "new_span", "follows", "enter", "exit", "close", "event", "record"}
BODY_KINDS = {"eff", "use", "mv", "bdrop", "clone", "yield", "dbg", "disp"}


def parse_impl_entry(s):
    if "|" in s:
        p = s.split("|")
        k = p[0]
        if k == "new_span":
            return ("new_span", int(p[1]), p[2], int(p[3]), p[4], p[5], tuple(x for x in "|".join(p[6:]).split(",") if x))
        if k in ("enter", "exit", "close"):
            return (k, int(p[1]))
        if k == "follows":
            return ("follows", int(p[1]), int(p[2]))
        if k == "event":
            return ("event", int(p[1]), p[2], p[3], tuple(x for x in "|".join(p[4:]).split(",") if x))
        return ("record",) + tuple(p[1:])
    t = s.split()
    k = t[0]
    if k in ("tdbg", "tdisp"):
        return ("tfmt", k == "tdisp", int(t[1]))
    if k == "fle":
        return ("fle",)
    return (k,) + tuple(int(x) for x in t[1:])


def split_calls(log, ncalls):
    """De-interleave the harness log into one canonical log per call.  Returns (per_call, problems).
    Shapes:  call i .. ret i | call i .. panicked i | call i .. created i | poll i .. pending i |
             poll i .. ready i .. dropped i | poll i .. panicked i .. dropped i"""
    per = [[] for _ in range(ncalls)]
    cur = None      # (call index, phase) with phase in 'call' | 'poll' | 'after'
    problems = []
    for raw in log:
        e = parse_impl_entry(raw)
        k = e[0]
        if k in ("call", "poll"):
            if cur is not None:
                problems.append("nested %s" % raw)
            cur = (e[1], k)
            continue
        if k == "cancel":
            if cur is not None:
                problems.append("nested %s" % raw)
            per[e[1]].append(("end", "cancelled"))
            cur = (e[1], "after")
            continue
        if k in ("ret", "created", "pending", "ready", "panicked", "dropped"):
            if cur is None or cur[0] != e[1]:
                problems.append("unexpected %s" % raw)
                continue
            i, phase = cur
            if k == "pending":
                per[i].append(("pending",))
                cur = None
            elif k == "created":
                per[i].append(("created",))
                cur = None
            elif k == "ret":
                per[i].append(("end", "ok"))
                cur = None
            elif k == "ready":
                per[i].append(("end", "ok"))
                cur = (i, "after")
            elif k == "panicked":
                per[i].append(("end", "panicked"))
                cur = None if phase == "call" else (i, "after")
            else:
                cur = None
            continue
        if cur is None:
            problems.append("entry outside any call: %s" % raw)
            continue
        if cur[1] == "after":
            per[cur[0]].append(("afterend",) + e)   # effects of dropping a finished future
        else:
            per[cur[0]].append(e)
    return per, problems


def canon_impl_call(entries, caller_id=4):
    """Rename span ids: the call's own span -> 'self'; helper spans -> h0..h2; caller -> 'caller'.
    Entries logged while the harness drops a finished / cancelled future keep their ("afterend", ..) wrapper."""
    own = None
    out = []
    for e0 in entries:
        after = e0[0] == "afterend"
        e = e0[1:] if after else e0
        k = e[0]
        if k == "new_span":
            if own is None:
                own = e[1]
            sid = "self" if e[1] == own else "other%d" % e[1]
            r = ("new_span", sid, e[2], e[3], e[4], ren_parent(e[5], own, caller_id), e[6])
        elif k in ("enter", "exit", "close"):
            r = (k, "self" if e[1] == own else "other%d" % e[1])
        elif k == "follows":
            r = ("follows", "self" if e[1] == own else "other%d" % e[1], "h%d" % (e[2] - 1))
        elif k == "event":
            r = ("event", e[1], e[2], ren_parent(e[3], own, caller_id), e[4])
        else:
            r = e
        out.append((("afterend",) + r) if after else r)
    return out


def ren_parent(s, own, caller_id):
    if s in ("root", "ctx:none"):
        return s
    kind, _, n = s.partition(":")
    n = int(n)
    if n == own:
        who = "self"
    elif n == caller_id:
        who = "caller"
    elif 1 <= n <= 3:
        who = "h%d" % (n - 1)
    else:
        who = "other%d" % n
    return kind + ":" + who


def sort_drop_runs(entries):
    """The order inside a run of consecutive scope-exit drops is an artefact of rustc's capture / field order
    (unspecified for closures and async blocks): sorted before comparing."""
    out = []
    run = []
    for e in entries:
        if e[0] == "xdrop":
            run.append(e)
        else:
            out += sorted(run)
            run = []
            out.append(e)
    out += sorted(run)
    return out


# ---- model side

def render_val(v, display, err_payload=False):
    """text the harness's visitor prints for a value recorded with ?x / %x"""
    if v == "VUnit":
        return "()"
    k = v[0]
    if k == "VNum":
        if err_payload:
            return ("e%d" if display else "Er(%d)") % v[1]
        return str(v[1])
    if k == "VRec":
        return ("r%d" if display else "R%d") % v[1]
    if k == "VOk":
        return "Ok(%s)" % render_val(v[1], display)
    if k == "VErr":
        return "Err(%s)" % render_val(v[1], display, True)
    raise ValueError(v)


def result_text(r):
    if r == "RCancelled":
        return "cancelled"
    if r[0] == "RPanic":
        return "panic:%d" % r[1]

    def rv(v, errp=False):
        if v == "VUnit":
            return "()"
        if v[0] == "VNum":
            return ("Er(%d)" % v[1]) if errp else str(v[1])
        if v[0] == "VRec":
            return "R%d" % v[1]
        if v[0] == "VOk":
            return "Ok(%s)" % rv(v[1])
        return "Err(%s)" % rv(v[1], True)
    return rv(r[1])


def fvalue_text(fv):
    k = fv[0]
    if k == "FVValue":
        t, n = fv[1], fv[2]
        return {"TU32": "u64:%d" % n, "TBool": "bool:%s" % ("true" if n else "false"), "TStr": "str:s%d" % (n % 4)}[t]
    if k == "FVFmtPrim":
        d, t, n = fv[1], fv[2], fv[3]
        if t == "TU32":
            return "dbg:%d" % n
        if t == "TBool":
            return "dbg:%s" % ("true" if n else "false")
        return ("dbg:s%d" if d else 'dbg:"s%d"') % (n % 4)
    if k == "FVFmtRec":
        return ("dbg:r%d" if fv[1] else "dbg:R%d") % fv[2]
    raise ValueError(fv)


def value_text(vtext, v):
    if vtext == "bool":
        return "bool:%s" % ("true" if v else "false")
    if vtext == "str":
        return "str:s%d" % (v % 4)
    return "%s:%d" % (vtext, v)


def opt(x):
    return None if x is None else x[1]


def canon_model_call(entries, result, fn, modpath, span_on, cur):
    """model log -> the same canonical form as canon_impl_call(split_calls(..))"""
    out = []
    name_default = C.fn_name(fn, "i")

    def fname(n):
        if n[0] == "FnDot":
            return "%s.d%d" % (fn["binds"][n[1]]["name"], n[2])
        return fn["binds"][n[1]]["name"] if n[0] == "FnParam" else "f%d" % n[1]
    overridden = {cf["name"][1] for cf in fn["attrs"]["fields"] if cf["name"][0] == "param"}

    def ftext(n, v):
        # the parameter's own field (not a custom field that took its name): i64 / u128 / f64 .. per its Value impl
        if n[0] == "FnParam" and n[1] not in overridden and v[0] == "FVValue":
            b = fn["binds"][n[1]]
            if b.get("vtext"):
                return value_text(b["vtext"], v[2])
        return fvalue_text(v)
    ctx = "ctx:caller" if cur else "ctx:none"
    for e in entries:
        k = e if isinstance(e, str) else e[0]
        if k == "EEff":
            out.append(("eff", e[1]))
        elif k == "EUse":
            out.append(("use", e[1]))
        elif k == "EMove":
            out.append(("mv", e[1]))
        elif k == "EDrop":
            out.append(("bdrop", e[1]))
        elif k == "EClone":
            out.append(("clone", e[1]))
        elif k == "EYield":
            out.append(("yield", e[1]))
        elif k == "EXDrop":
            out.append(("xdrop", e[1]))
        elif k == "EPending":
            out.append(("pending",))
        elif k == "ECreated":
            out.append(("created",))
        elif k == "TFieldEval":
            out.append(("fe", e[1]))
        elif k == "TParentEval":
            out.append(("pe", e[1]))
        elif k == "TFollowsEval":
            out.append(("fle",))
        elif k == "TFmt":
            out.append(("tfmt", e[1], e[2]))
        elif k == "TNewSpan":
            name, level, target, parent, fields = e[1], e[2], e[3], e[4], e[5]
            ps = {"ParRoot": "root", "ParCtx": ctx}.get(parent) if isinstance(parent, str) else "explicit:h%d" % parent[1]
            out.append(("new_span", "self", name_default if name is None else "name%d" % name[1], level,
                        modpath if target is None else "tgt%d" % target[1], ps,
                        tuple("%s=%s" % (fname(n), ftext(n, v)) for (n, v) in fields)))
        elif k == "TFollows":
            out.append(("follows", "self", "h%d" % e[1]))
        elif k == "TEnter":
            out.append(("enter", "self"))
        elif k == "TExit":
            out.append(("exit", "self"))
        elif k == "TClose":
            out.append(("close", "self"))
        elif k == "TEvent":
            level, target, is_err, display, v = e[1], e[2], e[3], e[4], e[5]
            out.append(("event", level, modpath if target is None else "tgt%d" % target[1], "ctx:self" if span_on else ctx,
                        ("%s=dbg:%s" % ("error" if is_err else "return", render_val(v, display, is_err)),)))
        else:
            raise ValueError(e)
    out.append(("end", "cancelled" if result == "RCancelled" else "panicked" if result[0] == "RPanic" else "ok"))
    return out


# ------------------------------------------------------------------------------------------------
# the oracle: the property, evaluated on the implementation's logs (independent of the Coq model)

def own_effects(entries):
    return [e for e in entries if e[0] not in TRACING_KINDS and e[0] not in ("xdrop", "afterend") and e[0] != "end"]


def spec_level(a):
    return a["level"] if a["level"] is not None else 3


def spec_span_on(col, lvl):
    if col is None:
        return False
    hint, span_on, ev_on, sometimes, no_hint = col
    return lvl <= hint and bool(span_on)


def spec_event_on(col, lvl):
    if col is None:
        return False
    hint, span_on, ev_on, sometimes, no_hint = col
    return lvl <= hint and bool(ev_on)


def spec_fields(fn, args):
    """(name, text) pairs the span must carry — straight from the attribute's documentation."""
    a = fn["attrs"]
    out = []
    custom_names = {cf["name"][1] for cf in a["fields"] if cf["name"][0] == "param"}
    for b in fn["binds"]:
        if not b["named"] or b["i"] in a["skips"] or b["i"] in custom_names:
            continue
        v = args[b["i"]] if b["i"] < len(args) else 0
        if b["ty"] == "rec":
            txt = "dbg:R%d" % b["i"]
        elif b.get("vtext"):
            # a TYPES_FOR_VALUE entry, however its path is spelled: the typed record_* call of its Value impl
            txt = value_text(b["vtext"], v)
        elif b["rtype"] == "value":
            txt = {"u32": "u64:%d" % v, "bool": "bool:%s" % ("true" if v else "false"), "str": "str:s%d" % (v % 4)}[b["ty"]]
        else:
            txt = {"u32": "dbg:%d" % v, "bool": "dbg:%s" % ("true" if v else "false"), "str": 'dbg:"s%d"' % (v % 4)}[b["ty"]]
        out.append("%s=%s" % (b["name"], txt))
    for cf in a["fields"]:
        fe = cf["expr"]
        if fe[0] == "empty":
            continue
        name = C.field_name(fn, cf["name"])
        if fe[0] == "short":
            # `?p` / `%p`: the parameter's own Debug / Display
            b = fn["binds"][fe[1]]
            v = args[b["i"]] if b["i"] < len(args) else 0
            disp = cf["kind"] == "display"
            txt = {"rec": ("dbg:r%d" if disp else "dbg:R%d") % b["i"], "u32": "dbg:%d" % v, "bool": "dbg:%s" % ("true" if v else "false"),
                   "str": ("dbg:s%d" if disp else 'dbg:"s%d"') % (v % 4)}[b["ty"]]
        elif fe[0] == "rec":
            txt = ("dbg:r%d" if cf["kind"] == "display" else "dbg:R%d") % fe[2]
        else:
            n = fe[2] if fe[0] == "num" else (args[fe[2]] if fe[2] < len(args) else 0)
            txt = ("u64:%d" if cf["kind"] == "value" else "dbg:%d") % n
        out.append("%s=%s" % (name, txt))
    return tuple(out)


def oracle_call(rep, case, ci, fn, modpath, inst, plain, res_i, res_p, which="a", plain_line=None):
    """inst / plain: canonical per-call logs of the twins (same case, same args, same collector)."""
    a = fn["attrs"]
    call = case["calls"][ci]
    args = call["args"]
    col = case["col"]
    info = {"case": case["line"], "plain_case": plain_line, "corpus": which, "call": ci, "fn": fn["idx"], "fn_name": C.fn_name(fn, "i"), "attrs": C.attr_key(fn), "kind": fn["kind"],
            "args": args, "collector": col, "inst_log": [list(map(str, e)) for e in inst][:80], "plain_log": [list(map(str, e)) for e in plain][:80],
            "result_inst": res_i, "result_plain": res_p}
    bad = []
    # (1) behaviour preservation
    if res_i != res_p:
        bad.append("returns %r but the uninstrumented twin returns %r" % (res_i, res_p))
    oi, op = own_effects(inst), own_effects(plain)
    if oi != op:
        k = next((j for j, (x, y) in enumerate(zip(oi, op)) if x != y), min(len(oi), len(op)))
        bad.append("own effects differ from the twin at position %d: %s vs %s" % (k, oi[k:k + 3], op[k:k + 3]))
    xi = collections.Counter(e[1] for e in inst if e[0] == "xdrop" or (e[0] == "afterend" and e[1] == "xdrop" and False))
    xp = collections.Counter(e[1] for e in plain if e[0] == "xdrop")
    # drops observed while the harness drops a finished/panicked future count as drops of the call
    for e in inst:
        if e[0] == "afterend" and e[1] == "xdrop":
            xi[e[2]] += 1
    for e in plain:
        if e[0] == "afterend" and e[1] == "xdrop":
            xp[e[2]] += 1
    if xi != xp:
        bad.append("scope-exit drops differ from the twin: %s vs %s" % (dict(xi), dict(xp)))
    if any(e[0] in TRACING_KINDS for e in plain):
        bad.append("the uninstrumented twin produced tracing entries")
    # (2) exactly one well-formed span
    lvl = spec_level(a)
    on = spec_span_on(col, lvl)
    if res_i == "cancelled" and not any(e[0] == "pending" for e in inst):
        on = False      # the future was dropped before its first poll: the body never started, no span is due
    spans = [e for e in inst if e[0] == "new_span"]
    if on:
        if len(spans) != 1:
            bad.append("%d spans created, expected exactly 1" % len(spans))
        else:
            s = spans[0]
            want_name = C.fn_name(fn, "i") if a["name"] is None else "name%d" % a["name"]
            want_target = modpath if a["target"] is None else "tgt%d" % a["target"]
            want_parent = ("ctx:caller" if case["cur"] else "ctx:none") if a["parent"] is None else (
                "root" if a["parent"][0] == "none" else "explicit:h%d" % a["parent"][1])
            if (s[2], s[3], s[4], s[5]) != (want_name, lvl, want_target, want_parent):
                bad.append("span (name, level, target, parent) = %s, configured %s" % ((s[2], s[3], s[4], s[5]), (want_name, lvl, want_target, want_parent)))
            want_fields = spec_fields(fn, args)
            if s[6] != want_fields:
                bad.append("span fields %s, configured %s" % (s[6], want_fields))
            # custom field expressions evaluated exactly once
            fes = collections.Counter(e[1] for e in inst if e[0] == "fe")
            want_fes = collections.Counter(cf["expr"][1] for cf in a["fields"] if cf["expr"][0] not in ("empty", "short"))
            if fes != want_fes:
                bad.append("custom field expressions evaluated %s, expected once each %s" % (dict(fes), dict(want_fes)))
            if a["follows"] is not None:
                fl = [e[2] for e in inst if e[0] == "follows"]
                if fl != ["h%d" % k for k in a["follows"]]:
                    bad.append("follows_from %s, configured %s" % (fl, a["follows"]))
    else:
        if spans or any(e[0] in ("enter", "exit", "close", "follows") for e in inst):
            bad.append("span disabled by the collector but span callbacks observed")
        if any(e[0] in ("fe", "pe") for e in inst):
            bad.append("span disabled but field / parent expressions evaluated")
    # (3) the body (each poll of it) runs inside the span, nothing else does
    inside = False
    for e in inst:
        k = e[0]
        if k == "afterend":
            k = e[1]
        if k == "enter":
            if inside or e[-1] != "self":
                bad.append("enter while already inside / foreign span")
                break
            inside = True
        elif k == "exit":
            if not inside or e[-1] != "self":
                bad.append("exit without enter")
                break
            inside = False
        elif k in BODY_KINDS:
            if on and not inside:
                bad.append("body effect %s outside the span" % (e,))
                break
        elif k in ("pending", "created", "end"):
            if inside:
                bad.append("span still entered at a poll boundary / when the call returns (%s)" % (e,))
                break
        elif k in ("fe", "pe", "fle"):
            if inside:
                bad.append("attribute expression %s evaluated inside the function's span (only the body runs inside it)" % (e,))
                break
        elif k == "event":
            if on and (not inside or e[3] != "ctx:self"):
                bad.append("event %s emitted outside the span" % (e,))
                break
    # (4) ret / err events
    evs = [e for e in inst if e[0] == "event"]
    want = []
    if inside:
        bad.append("the function's span is still entered after the call's last entry")
    if not res_i.startswith("panic") and res_i != "cancelled":
        tgt = modpath if a["target"] is None else "tgt%d" % a["target"]
        is_res = C.shape_ok_err(fn["ret"]) is not None

        def txt(s, display):
            # s: canonical result text; what Debug / Display print for it
            import re
            if display:
                s = re.sub(r"R(\d+)", r"r\1", s)
                s = re.sub(r"Er\((\d+)\)", r"e\1", s)
            return s
        if a["err"] and res_i.startswith("Err("):
            l = a["err"]["level"] or 1
            if spec_event_on(col, l):
                want.append((l, tgt, "error=dbg:" + txt(res_i[4:-1], a["err"]["mode"] != "debug")))
        if a["ret"]:
            l = a["ret"]["level"] or lvl
            disp = a["ret"]["mode"] == "display"
            if a["err"]:
                if res_i.startswith("Ok(") and spec_event_on(col, l):
                    want.append((l, tgt, "return=dbg:" + txt(res_i[3:-1], disp)))
            elif spec_event_on(col, l):
                want.append((l, tgt, "return=dbg:" + txt(res_i, disp)))
    got = [(e[1], e[2], e[4][0] if e[4] else "") for e in evs]
    if got != want:
        bad.append("ret/err events %s, expected %s" % (got, want))
    for b in bad:
        rep.violation("#[instrument] twin %s (%s): %s" % (C.fn_name(fn, "i"), fn["kind"], b), dict(info, what=b))
    return not bad


# ------------------------------------------------------------------------------------------------
# case generation

COLLECTORS = [
    (5, 1, 1, 0, 0), (5, 1, 1, 0, 0), (5, 1, 1, 1, 0), (5, 1, 1, 0, 1),
    (4, 1, 1, 0, 0), (3, 1, 1, 0, 0), (2, 1, 1, 0, 0), (1, 1, 1, 0, 0), (0, 1, 1, 0, 0),
    (3, 1, 1, 1, 1), (2, 1, 1, 0, 1), (5, 0, 1, 0, 0), (5, 1, 0, 0, 0), (5, 0, 0, 1, 0), None,
]


def gen_args(rng, fn):
    out = []
    for b in fn["binds"]:
        if b["ty"] == "bool":
            out.append(rng.randint(0, 1))
        elif b["ty"] == "u32":
            out.append(rng.randint(0, 9))
        elif b["ty"] in ("str", "vstr"):
            out.append(rng.randint(0, 3))
        elif b["ty"] == "vbool":
            out.append(rng.randint(0, 1))
        elif b["ty"] == "vnum":
            out.append(rng.randint(1, 9))      # NonZero* spellings need a non-zero value
        else:
            out.append(0)
    return out


def case_line(cid, col, cur, calls, sched):
    return "case %s col %s cur %d calls %s sched %s" % (
        cid, "none" if col is None else ",".join(str(x) for x in col), 1 if cur else 0,
        ";".join("%d:%s:%s" % (c["f"], c["twin"], ".".join(str(x) for x in c["args"]) or "") for c in calls),
        ".".join(str(x) for x in sched) or "-")


def gen_cases(rng, fns, per_fn, n_multi):
    """Each case exists twice: all calls plain / all calls instrumented (same args, collector, schedule)."""
    cases = []
    asyncs = [f for f in fns if f["kind"] != "sync"]
    n = 0
    for fn in fns:
        for k in range(per_fn):
            col = COLLECTORS[0] if k == 0 else rng.choice(COLLECTORS)
            cur = rng.random() < 0.5
            args = gen_args(rng, fn)
            # some async calls are cancelled: polled a few times, then dropped by the caller (1000 + i = drop future i)
            sched = []
            if fn["kind"] != "sync" and rng.random() < 0.2:
                sched = [0] * rng.choice([0, 1, 1, 2, 2, 3]) + [1000]
            for twin in "pi":
                calls = [{"f": fn["idx"], "twin": twin, "args": args}]
                cases.append({"id": "s%d%s" % (n, twin), "pair": n, "twin": twin, "col": col, "cur": cur, "calls": calls, "sched": sched})
            n += 1
    for _ in range(n_multi):
        k = rng.randint(2, 4)
        picks = [rng.choice(asyncs if rng.random() < 0.8 else fns) for _ in range(k)]
        col = rng.choice(COLLECTORS[:5] + [rng.choice(COLLECTORS)])
        cur = rng.random() < 0.5
        argl = [gen_args(rng, f) for f in picks]
        sched = [rng.randrange(k) for _ in range(rng.randint(0, 14))]
        if rng.random() < 0.35:
            for _ in range(rng.randint(1, 2)):
                sched.insert(rng.randint(0, len(sched)), 1000 + rng.randrange(k))
        for twin in "pi":
            calls = [{"f": f["idx"], "twin": twin, "args": a} for f, a in zip(picks, argl)]
            cases.append({"id": "m%d%s" % (n, twin), "pair": n, "twin": twin, "col": col, "cur": cur, "calls": calls, "sched": sched})
        n += 1
    for c in cases:
        c["line"] = case_line(c["id"], c["col"], c["cur"], c["calls"], c["sched"])
    return cases


def regress_cases(which):
    """The cases of corpus/C17/*.json: per function its `calls` ({args, col, cur}); per file its `interleaved` entries
    ({fns: [names], args: [[..]], col, cur, sched}).  For the order probe: the calls of ORDER_SPECS."""
    if which == "a":
        specs, base, files = regress_specs(), N_QUICK, regress_files()
    elif which == "o":
        specs, base, files = [("order-probe", e) for e in ORDER_SPECS], 0, []
    else:
        return []
    by_name = {}
    for k, (f, e) in enumerate(specs):
        by_name[(f, e["name"])] = base + k
    cases = []
    n = 0

    def add(calls_of, col, cur, sched, tag):
        nonlocal n
        for twin in "pi":
            calls = [{"f": fi, "twin": twin, "args": list(a)} for fi, a in calls_of]
            cases.append({"id": "r%d%s" % (n, twin), "pair": "r%d" % n, "twin": twin, "col": None if col is None else tuple(col), "cur": bool(cur),
                          "calls": calls, "sched": list(sched), "regress": tag})
        n += 1
    for k, (f, e) in enumerate(specs):
        for c in e.get("calls", []):
            add([(base + k, c["args"])], c.get("col", [5, 1, 1, 0, 0]), c.get("cur", False), [], "%s:%s" % (f, e["name"]))
    for f, doc in files:
        for m in doc.get("interleaved", []):
            add([(by_name[(f, nm)], a) for nm, a in zip(m["fns"], m["args"])], m.get("col", [5, 1, 1, 0, 0]), m.get("cur", False), m.get("sched", []),
                "%s:%s" % (f, "+".join(m["fns"])))
    for c in cases:
        c["line"] = case_line(c["id"], c["col"], c["cur"], c["calls"], c["sched"])
    return cases


def coq_col(col):
    if col is None:
        return "(mkCol 0 0 false false)"
    hint, span_on, ev_on, sometimes, no_hint = col
    return "(mkCol %d %d %s %s)" % (5 if no_hint else hint, hint, "true" if span_on else "false", "true" if ev_on else "false")


# ------------------------------------------------------------------------------------------------

def pruned_text(fns, which):
    """the corpus file without its inner attributes / inner doc comments (it is `include!`d into a module by h_attr_pruned.rs)"""
    text = C.render_corpus(fns, {"a": CORPUS_SEED, "b": CORPUS_SEED + 1, "o": CORPUS_SEED + 2}[which])
    return "\n".join(("" if (l.startswith("//!") or l.startswith("#![")) else l) for l in text.split("\n"))


def report_build_failure(rep, which, fns, log, limit=3, text=None, fname=None, record=True):
    """The corpus no longer compiles.  A twin whose plain version compiles and whose `#[instrument]` version does not is
    a concrete failing *program* (the quantifier of C17 is over programs): report it with rustc's message."""
    import re
    fname = fname or "corpus_%s.rs" % which
    if text is None:
        text = C.render_corpus(fns, {"a": CORPUS_SEED, "b": CORPUS_SEED + 1, "o": CORPUS_SEED + 2}[which])
    lines = text.split("\n")
    owner = {}
    cur, pending = None, []
    for n, l in enumerate(lines, 1):
        if l.strip().startswith("#[tracing::instrument"):
            pending.append(n)
            continue
        m = re.search(r"^\s*(?:pub )?(?:async )?fn ([ip]m?\d+)\b", l)
        if m:
            cur = m.group(1)
            for k in pending:
                owner[k] = cur
            pending = []
        if l.startswith("fn mk") or l.startswith("pub fn mk"):
            cur = None
        owner[n] = cur
    blocks = re.split(r"\n(?=error)", log)
    bad, other = {}, []
    for b in blocks:
        if not b.startswith("error"):
            continue
        m = re.search(r"-->\s*\S*%s:(\d+):(\d+)" % re.escape(fname), b)
        if not m:
            if not b.startswith("error: could not compile") and not b.startswith("error: aborting"):
                other.append(b[:300])
            continue
        fn = owner.get(int(m.group(1)))
        if fn is None:
            other.append(b[:300])
        else:
            bad.setdefault(fn, b)
    plain_broken = {n for n in bad if n.startswith("p")}
    by_name = {}
    for f in fns:
        by_name[C.fn_name(f, "i")] = f
    n = 0
    only_known = bool(bad) and not other
    order_rng = __import__("random").Random(0)
    for name, msg in sorted(bad.items(), key=lambda kv: int(re.sub(r"\D", "", kv[0]))):
        if not name.startswith("i") or ("p" + name[1:]) in plain_broken or name not in by_name:
            only_known = False
            continue
        f = by_name[name]
        a = f["attrs"]
        # F172: exactly one `parent` / `follows_from` is written, after `target`, and attr.rs says there are two
        if which == "o" and a.get("order") == "target_first" and any(m in msg for m in ORDER_MSG):
            rep.violation("#[instrument(target = .., %s = ..)] on %s is rejected: %s" % (
                "parent" if ORDER_MSG[0] in msg else "follows_from", name, msg.split("\n")[0][:160]),
                {"fn": name, "attribute": C.attr_text(f, order_rng), "rustc": msg[:800]}, finding="F172")
            continue
        only_known = False
        if not record:
            continue
        i0 = next((k for k, l in enumerate(lines) if re.search(r"fn %s\b" % name, l)), None)
        src_i = "\n".join(lines[max(0, i0 - 1):i0 + C.render_fn(f, "p", order_rng).count("\n")]) if i0 is not None else ""
        first = msg.split("\n")[0]
        rep.violation("twin %s (%s, template %s) compiles without #[instrument] but not with it: %s" % (name, f["kind"], C.template_key(f), first[:160]),
                      {"fn": name, "kind": f["kind"], "attrs": C.attr_key(f), "instrumented_source": src_i,
                       "plain_source": C.render_fn(f, "p", order_rng), "rustc": msg[:1500]})
        n += 1
        if n >= limit:
            break
    prev = rep.extra.setdefault("build_failure", {}).get(which, {"instrumented_twins_rejected": [], "plain_twins_rejected": [], "other_errors": []})
    rep.extra["build_failure"][which] = {"instrumented_twins_rejected": sorted(set(prev["instrumented_twins_rejected"]) | {k for k in bad if k.startswith("i")}),
                                         "plain_twins_rejected": sorted(set(prev["plain_twins_rejected"]) | plain_broken),
                                         "other_errors": (prev["other_errors"] + other)[:3]}
    rep.extra["build_failure"][which]["last_round"] = sorted(bad)
    return only_known


def build_pruned(ctx, rep, which, fns):
    """The corpus does not compile (already reported, with the rejected twins as failing programs).  So that the twins that DO
    compile are still run -- a mutant that makes some templates ill-typed usually misbehaves at run time in the others -- drop the
    rejected functions and build the rest as `h_attr_pruned` (the file is handed to rustc through the environment).  Up to 4 rounds."""
    import re
    for rnd in range(4):
        last = rep.extra.get("build_failure", {}).get(which, {}).get("last_round", [])
        dead = {int(re.sub(r"\D", "", n)) for n in last}
        if not dead or rep.extra["build_failure"][which]["other_errors"]:
            return None
        fns = [f for f in fns if f["idx"] not in dead]
        if len(fns) < 20:
            return None
        path = os.path.join(ctx.work, "corpus_pruned.rs")
        text = pruned_text(fns, which)
        gen_if_changed(path, text)
        ok, paths, log = cargo_build(ctx, "attr", ["h_attr_pruned"], extra_rustflags="--cfg c17_pruned", extra_env={"C17_PRUNED": path})
        if ok:
            rep.extra["build_failure"][which]["pruned_functions_run"] = len(fns)
            return fns, paths
        report_build_failure(rep, which, fns, log, text=text, fname="corpus_pruned.rs", record=False)
    return None


def source_tables_tie(ctx, rep, attr_templates):
    """What the corpus generator assumes about attr.rs / expand.rs, compared with what the translator reads there."""
    t, un = attr_templates.tables(ctx.repo)
    probs = list(un)
    tv = t.get("types_for_value") or []
    for ty in ("u32", "bool", "str"):
        if ty not in tv:
            probs.append("generator records `%s` parameters as Value, TYPES_FOR_VALUE does not list it" % ty)
    for ty in ("R", "G0", "Pair", "PairN", "Wrap", "Rec"):
        if ty in tv:
            probs.append("generator records `%s` parameters with Debug, TYPES_FOR_VALUE lists it" % ty)
    if not (t.get("ref_recurses") and t.get("path_last_segment")):
        probs.append("RecordType::parse_from_ty: shape not recognised (path's last segment in the table => Value, reference => its element, else Debug)")
    want_rules = {"Ident": "keep", "Reference": "recurse-keep", "Struct": "recurse-debug", "Tuple": "recurse-debug", "TupleStruct": "recurse-debug", "_": "none"}
    if t.get("pat_rules") != want_rules:
        probs.append("param_names arms %s, generator assumes %s" % (t.get("pat_rules"), want_rules))
    if not t.get("receiver_debug"):
        probs.append("receiver is not recorded as (self, Debug)")
    if t.get("level_strs") != {C.LEVEL_NAMES[l].lower(): l for l in C.LEVEL_NAMES}:
        probs.append("level strings %s" % t.get("level_strs"))
    if t.get("level_ints") != {6 - l: l for l in C.LEVEL_NAMES}:
        probs.append("integer levels %s" % t.get("level_ints"))
    if t.get("level_tokens") != {C.LEVEL_NAMES[l].capitalize(): C.LEVEL_NAMES[l] for l in C.LEVEL_NAMES}:
        probs.append("Level -> tokens %s" % t.get("level_tokens"))
    if not t.get("level_path"):
        probs.append("`level = <path>` form not recognised")
    if t.get("keywords") != sorted(C.KEYWORDS):
        probs.append("attribute keywords of attr.rs %s, the generator / model cover %s" % (t.get("keywords"), sorted(C.KEYWORDS)))
    rep.tie("translator:attr tables (TYPES_FOR_VALUE, param_names arms, level spellings, keywords)", not probs, "; ".join(probs[:4]), probs[:1] or None)
    rep.extra["attr_tables"] = {"types_for_value": len(tv), "pat_rules": t.get("pat_rules"), "keywords": t.get("keywords"), "dup_guards": t.get("dup_guards")}
    return t


def parse_case_line(line):
    """inverse of case_line"""
    t = line.split()
    cid = t[1]
    col = None if t[3] == "none" else tuple(int(x) for x in t[3].split(","))
    calls = []
    for c in t[7].split(";"):
        if c:
            f, twin, a = c.split(":")
            calls.append({"f": int(f), "twin": twin, "args": [int(x) for x in a.split(".") if x]})
    sched = [int(x) for x in t[9].split(".") if x and x != "-"]
    twin = calls[0]["twin"]
    return {"id": cid, "pair": "replay", "twin": twin, "col": col, "cur": t[5] == "1", "calls": calls, "sched": sched, "line": line}


BINS = {"a": "h_attr", "b": "h_attr_big", "o": "h_attr_order"}


def run_corpus(ctx, rep, which, binname, per_fn, n_multi, label, only_cases=None):
    fns = corpus(which)
    by_idx = {f["idx"]: f for f in fns}
    modpath = "%s::corpus" % binname
    ok, paths, log = cargo_build(ctx, "attr", [binname])
    if not ok:
        only_known = report_build_failure(rep, which, fns, log)
        if which == "o" and only_known:
            return
        rep.tie("build:%s" % binname, False, vlib.last_error(log))
        pr = build_pruned(ctx, rep, which, fns) if only_cases is None else None
        if pr is None:
            return
        fns, paths = pr
        by_idx = {f["idx"]: f for f in fns}
        binname = "h_attr_pruned"
        modpath = "%s::corpus" % binname
        label = label + " (twins that still compile)"
    alive = set(by_idx)
    cases = only_cases if only_cases is not None else \
        [c for c in regress_cases(which) if all(call["f"] in alive for call in c["calls"])] + gen_cases(ctx.rng, fns, per_fn, n_multi)
    rep.count("cases:corpus/C17", sum(1 for c in cases if c.get("regress")))
    # the `none` collector needs a process in which no collector was ever installed
    batches = [[c for c in cases if c["col"] is not None], [c for c in cases if c["col"] is None]]
    obs = {}
    for b in batches:
        if not b:
            continue
        rc, out = run_bin(paths[binname], input="\n".join(c["line"] for c in b) + "\n", timeout=900)
        if rc != 0:
            rep.tie("run:%s" % binname, False, "rc=%d %s" % (rc, vlib.last_error(out)))
            return
        for l in out.splitlines():
            if l.startswith("{"):
                o = json.loads(l)
                obs[o["id"]] = o
    if len(obs) != len(cases):
        rep.tie("run:%s" % binname, False, "%d observations for %d cases" % (len(obs), len(cases)))
        return
    # ---- split the observations into per-call logs; a cancelled call names the await site it was suspended at
    for c in cases:
        o = obs[c["id"]]
        per, problems = split_calls(o["log"], len(c["calls"]))
        c["problems"] = problems
        c["per"] = [canon_impl_call(p) for p in per]
        c["results"] = o["results"]
        c["sites"] = []
        for ci in range(len(c["calls"])):
            site = None
            if o["results"][ci] == "cancelled":
                for e in c["per"][ci]:
                    if e[0] == "end":
                        break
                    if e[0] == "yield":
                        site = e[1]
            c["sites"].append(site)
    # ---- model evaluation: one run per distinct (fn, twin, args, collector, cancellation site)
    keys = {}
    for c in cases:
        for ci, call in enumerate(c["calls"]):
            keys.setdefault((call["f"], call["twin"], tuple(call["args"]), c["col"], c["sites"][ci]), None)
    klist = sorted(keys, key=lambda k: (k[0], k[1], k[2], str(k[3]), -1 if k[4] is None else k[4]))
    model = None
    try:
        used = sorted({k[0] for k in klist})
        prelude = "\n".join("Definition fn%d := %s.\nDefinition at%d := %s." % (i, C.c_func(by_idx[i]), i, C.c_attrs(by_idx[i]["attrs"], by_idx[i]["binds"])) for i in used)
        terms = []
        chunk = 120
        for i in range(0, len(klist), chunk):
            items = []
            for (f, twin, args, col, site) in klist[i:i + chunk]:
                top = "TPlain" if twin == "p" else "(expand at%d fn%d)" % (f, f)
                items.append("run %s %s fn%d %s" % (coq_col(col), C.c_args(args, site), f, top))
            terms.append(("r%d" % i, "[%s]" % "; ".join(items)))
        res = coq_eval(ctx, "From Coq Require Import String.\nFrom TV Require Import Attr.Model.\nFrom TVGen Require Gen_attr.\nLocal Open Scope N_scope.", terms, prelude=prelude, tag="cases_" + which)
        model = {}
        for i in range(0, len(klist), chunk):
            for k, r in zip(klist[i:i + chunk], res["r%d" % i]):
                model[k] = r
    except Exception as ex:
        rep.tie("model-eval:%s" % label, False, str(ex)[:400])
    # ---- correspondence + oracle
    disagree = []
    pairs = {}
    for c in cases:
        o = obs[c["id"]]
        per, problems = c["per"], c["problems"]
        if problems:
            rep.violation("harness log of case %s is not well-formed: %s" % (c["id"], problems[:2]), {"case": c["line"], "problems": problems[:5]})
        pairs.setdefault(c["pair"], {})[c["twin"]] = c
        rep.traces_validated += 1
        for ci, call in enumerate(c["calls"]):
            fn = by_idx[call["f"]]
            rep.evaluations += 1
            rep.count("calls:%s:%s" % (fn["kind"], "inst" if call["twin"] == "i" else "plain"))
            rep.count("collector:%s" % ("none" if c["col"] is None else "hint%d%s%s%s%s" % (
                c["col"][0], "" if c["col"][1] else "-nospan", "" if c["col"][2] else "-noevent", "-sometimes" if c["col"][3] else "", "-nohint" if c["col"][4] else "")))
            if model is not None:
                mlog, mres = model[(call["f"], call["twin"], tuple(call["args"]), c["col"], c["sites"][ci])]
                lvl = spec_level(fn["attrs"])
                hint_ok = c["col"] is not None and lvl <= c["col"][0] and bool(c["col"][1])
                caller_on = c["cur"] and c["col"] is not None and c["col"][0] >= 1 and bool(c["col"][1])   # the caller's span is an ERROR-level span
                wantl = canon_model_call(mlog, mres, fn, modpath, hint_ok and call["twin"] == "i", caller_on)
                gotl = [e[1:] if e[0] == "afterend" else e for e in per[ci]]
                cancelled = o["results"][ci] == "cancelled"
                if cancelled and c["sites"][ci] is not None:
                    # dropped while suspended at an await site: the model ran with that site marked (Attr.Model.cancel_at) and
                    # describes the whole call, the teardown included
                    rep.count("calls:cancelled")
                    cancelled = False
                elif cancelled:
                    # dropped before its first poll: the model describes the call up to `created`; what the drop does is judged
                    # by the oracle only (twin equality of the drops)
                    rep.count("calls:dropped-unpolled")
                    cut = next(j for j, e in enumerate(gotl) if e == ("end", "cancelled"))
                    gotl = gotl[:cut]
                    nb = sum(1 for e in gotl if e in (("pending",), ("created",)))
                    seen, mcut = 0, 0
                    for j, e in enumerate(wantl):
                        if e in (("pending",), ("created",)):
                            seen += 1
                            if seen == nb:
                                mcut = j + 1
                                break
                    wantl = wantl[:mcut]
                want = sort_drop_runs(wantl)
                got = sort_drop_runs(gotl)
                # the harness logs the end marker before the drop of the finished future; move it last
                got = [e for e in got if e[0] != "end"] + [e for e in got if e[0] == "end"]
                if cancelled:
                    mres_txt = "cancelled"
                else:
                    mres_txt = result_text(mres)
                if got != want or mres_txt != o["results"][ci]:
                    k = next((j for j, (x, y) in enumerate(zip(got, want)) if x != y), min(len(got), len(want)))
                    disagree.append({"case": c["line"], "call": ci, "fn": C.fn_name(fn, call["twin"]), "kind": fn["kind"], "at": k,
                                     "impl": [str(e) for e in got[max(0, k - 3):k + 4]], "model": [str(e) for e in want[max(0, k - 3):k + 4]],
                                     "impl_result": o["results"][ci], "model_result": mres_txt})
    for pid, tw in sorted(pairs.items(), key=lambda kv: (0, kv[0]) if isinstance(kv[0], str) else (1, "%09d" % kv[0])):
        ci_case, cp_case = tw["i"], tw["p"]
        for ci, call in enumerate(ci_case["calls"]):
            fn = by_idx[call["f"]]
            good = oracle_call(rep, ci_case, ci, fn, modpath, ci_case["per"][ci], cp_case["per"][ci], ci_case["results"][ci], cp_case["results"][ci],
                               which, cp_case["line"])
            rep.nontrivial.add((C.template_key(fn), C.pattern_key(fn), C.attr_key(fn)))
            rep.count("template:" + C.template_key(fn))
            res = ci_case["results"][ci]
            rep.count("outcome:" + ("panic" if res.startswith("panic") else "err" if res.startswith("Err") else "ok" if res.startswith("Ok") else "value"))
        if len(ci_case["calls"]) > 1:
            rep.count("interleaved-cases")
            # global: at most one function span entered at any time (polls are atomic)
            depth = 0
            for raw in obs[ci_case["id"]]["log"]:
                if raw.startswith("enter|"):
                    depth += 1
                    if depth > 1:
                        rep.violation("two instrumented futures' spans entered at once in an interleaved run", {"case": ci_case["line"]})
                        break
                elif raw.startswith("exit|"):
                    depth -= 1
    if model is not None:
        rep.tie("correspondence:%s" % label, not disagree, "%d of %d calls disagree" % (len(disagree), sum(len(c["calls"]) for c in cases)),
                disagree[:1] or None)
        if disagree:
            ctx.log("first disagreements: " + json.dumps(disagree[:3], indent=1))
    rep.extra.setdefault("corpus", {})[label] = {"functions": len(fns), "cases": len(cases), "model_runs": len(klist)}


def run(ctx):
    rep = new_report(ctx)
    write_corpora()
    prepare(ctx, rep)
    # ---- legs B2 + C
    run_corpus(ctx, rep, "o", "h_attr_order", 2, 0, "argument-order probe")
    if ctx.thorough():
        run_corpus(ctx, rep, "a", "h_attr", 10, 1500, "quick-corpus")
        run_corpus(ctx, rep, "b", "h_attr_big", 6, 4000, "big-corpus")
    else:
        run_corpus(ctx, rep, "a", "h_attr", 4, 400, "quick-corpus")
    return rep


def new_report(ctx):
    rep = Report(ctx)
    rep.rule = ("each call of a corpus function = one evaluation; non-trivial = every call (all twins have parameters and effects); "
                "distinct = distinct (gen_block template, parameter-pattern set, attribute-argument set) triples of the functions exercised")
    rep.trusted_base = [
        "Coq 8.16.1 kernel + vm_compute", "harness/attr (recorder type, recording collector, hand poller) and driver/props/c17*.py (generator, canonicaliser, oracle)",
        "rustc 1.95 / syn / quote: the proc-macro pipeline, closure capture and drop elaboration (modelled in Attr/Model.v, tied only by the compiled corpus)",
        "translators/attr_templates.py (shape recognition of gen_block's quote! skeletons; fails closed)"]
    rep.assumptions = [
        "PARTIAL: the theorems are about the templates of gen_block and a model of Rust's evaluation / capture / drop order; that expand.rs emits these "
        "templates and rustc gives them this meaning is tied by the compiled corpus and the template translator, not proved",
        "type inference (fake_return_edge), lints, impl-Trait erasure, hygiene: compile-time matters, covered only in that the corpus compiles",
        "Debug/Display calls made by the collector while it records a span/event (a recorded argument is formatted by the collector) and the "
        "expressions written inside the attribute (fields / parent / follows_from) are tracing-side effects: erase_tracing removes them; they are "
        "checked separately (each custom field expression exactly once when enabled, never when disabled)",
        "the order inside a run of consecutive scope-exit drops is not compared (rustc's closure-capture / field order); counts and positions of the runs are",
        "futures are polled to completion or dropped by the caller between two polls (cancellation at an await site is an input of the model: "
        "Attr.Model.cancel_at; a future dropped before its first poll is compared up to `created` and judged by the oracle); tracing's `log` feature is off",
        "attribute arguments are those this tree's attr.rs parses (name, level, target, parent, follows_from, skip, fields, ret, err); "
        "`skip_all` does not exist on this release line, so `skipped arguments absent` is about `skip(..)`"]
    return rep


def replay(ctx, payload):
    """./check C17 --replay FILE: the recorded pair of twin cases only (both legs), or the whole check for other replays."""
    case = payload.get("case") or {}
    if not (isinstance(case, dict) and case.get("case") and case.get("plain_case")):
        return run(ctx)
    rep = new_report(ctx)
    write_corpora()
    prepare(ctx, rep)
    which = case.get("corpus", "a")
    cases = [parse_case_line(case["plain_case"]), parse_case_line(case["case"])]
    run_corpus(ctx, rep, which, BINS[which], 0, 0, "replay", only_cases=cases)
    return rep


def prepare(ctx, rep):
    # ---- leg B1: template translator
    sys.path.insert(0, os.path.join(vlib.VERIF, "translators"))
    import attr_templates
    tables = None
    try:
        text, unrec = attr_templates.main(ctx.repo, None)
        gen_if_changed(os.path.join(vlib.COQ, "gen", "Gen_attr.v"), text)
        rep.tie("translator:Gen_attr (gen_block templates, prologue, wrapper, events)", not unrec, "; ".join(unrec[:4]), unrec[:1] or None)
        tables = source_tables_tie(ctx, rep, attr_templates)
    except Exception as ex:   # unreadable source: fail closed
        rep.tie("translator:Gen_attr (gen_block templates, prologue, wrapper, events)", False, "translator raised %r" % (ex,))
    # ---- leg A
    rep.proof = coq_prove(ctx, "C17", ["theories/Properties/C17.vo"])
    rep.samples = [{"twin": "sync + err, Fn closure: ... event error; exit; close; then the closure temporary's captures, then the other parameters"},
                   {"twin": "async: new_span at the first poll; enter/exit around every poll; enter; exit; close when the finished Instrumented is dropped"},
                   {"twin": "async, cancelled at an await: .. exit; pending; enter; drops of what the instrumented future holds; exit; close; drops of the outer frame"}]
    return rep
