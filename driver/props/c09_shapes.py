"""C09 helper: the little tree language shared by the harness (JSON), the Coq model (terms) and the Python oracle.

A *collector tree* is  leaf(0) | wrap(box|arc, c) | layered(s, c);   a *subscriber tree* is  leaf(i) | wrap(box|boxdyn|some|reload, x)
| none | vec(xs) | pair(o, i) [= i.and_then(o)] | identity | probe(f);   a *filter tree* is  leaf(i) | wrap(boxdyn|arcdyn|some|reload, x) | none.
"""
import copy


# ---------------------------------------------------------------------------------------------- constructors
def L(i):
    return {"k": "leaf", "id": i}


def W(w, x):
    return {"k": "wrap", "w": w, "x": x}


NONE = {"k": "none"}
IDENT = {"k": "identity"}


def V(*xs):
    return {"k": "vec", "xs": list(xs)}


def P(o, i):
    return {"k": "pair", "o": o, "i": i}


def PR(f):
    return {"k": "probe", "f": f}


def F(i):
    return {"k": "leaf", "id": i}


def FW(w, x):
    return {"k": "wrap", "w": w, "x": x}


FNONE = {"k": "none"}
ROOT = {"k": "leaf", "id": 0}


def LAY(s, c):
    return {"k": "layered", "s": s, "c": c}


def CW(w, c):
    return {"k": "wrap", "w": w, "c": c}


def stack(*layers, root=None):
    c = root if root is not None else ROOT
    for s in layers:
        c = LAY(s, c)
    return c


# ---------------------------------------------------------------------------------------------- the harness's statically typed shapes
def static_shapes():
    l1, l2, l3, l4, l5 = L(1), L(2), L(3), L(4), L(5)
    S = {
        "p0": stack(), "p1": stack(l1), "p2": stack(l1, l2), "p3": stack(l1, l2, l3), "p4": stack(l1, l2, l3, l4),
        "p5": stack(l1, l2, l3, l4, l5),
        "box": stack(W("box", l1)), "boxdyn": stack(W("boxdyn", l1)), "some": stack(W("some", l1)), "vec1": stack(V(l1)),
        "reload": stack(W("reload", l1)), "id_outer": stack(P(IDENT, l1)), "id_inner": stack(P(l1, IDENT)),
        "box_some": stack(W("box", W("some", l1))), "some_box": stack(W("some", W("box", l1))), "vec_some": stack(V(W("some", l1))),
        "some_vec": stack(W("some", V(l1))), "reload_box": stack(W("reload", W("box", l1))),
        "some_reload": stack(W("some", W("reload", l1))), "box_vec": stack(W("box", V(l1))), "vec_reload": stack(V(W("reload", l1))),
        "boxdyn_boxdyn": stack(W("boxdyn", W("boxdyn", l1))),
        "mid_box": stack(l1, W("box", l2), l3), "mid_boxdyn": stack(l1, W("boxdyn", l2), l3), "mid_some": stack(l1, W("some", l2), l3),
        "mid_vec1": stack(l1, V(l2), l3), "mid_reload": stack(l1, W("reload", l2), l3), "mid_id_outer": stack(l1, P(IDENT, l2), l3),
        "mid_id_inner": stack(l1, P(l2, IDENT), l3),
        "none_only": stack(NONE), "vec0_only": stack(V()), "none_top": stack(l1, l2, NONE), "none_mid": stack(l1, NONE, l2),
        "none_bot": stack(NONE, l1, l2), "vec0_top": stack(l1, l2, V()), "vec0_mid": stack(l1, V(), l2), "vec0_bot": stack(V(), l1, l2),
        "vec0_top1": stack(l1, V()), "none_top1": stack(l1, NONE), "box_none": stack(l1, W("box", NONE)),
        "reload_none": stack(l1, W("reload", NONE)), "vec_none": stack(l1, V(NONE)), "pair_none_o": stack(P(NONE, l1)),
        "pair_none_i": stack(P(l1, NONE)), "box_vec0": stack(l1, W("box", V())),
        "none_bot1": stack(NONE, l1), "vec0_bot1": stack(V(), l1),
        "pair_none_mid": stack(l1, P(NONE, l2), l3), "pair_vec0_mid": stack(l1, P(V(), l2), l3),
        "vec3": stack(V(l1, l2, l3)), "pair2": stack(P(l2, l1)), "pair3": stack(P(l3, P(l2, l1))), "pair_r": stack(P(P(l3, l2), l1)),
        "vec2_top": stack(l1, V(l2, l3)),
        "cbox0": CW("box", ROOT), "carc0": CW("arc", ROOT), "cbox": CW("box", stack(l1)), "carc": CW("arc", stack(l1)),
        "cboxdyn": CW("box", stack(l1)), "carcdyn": CW("arc", stack(l1)), "cbox_mid": LAY(l2, CW("box", stack(l1))),
        "carc_mid": LAY(l2, CW("arc", stack(l1))), "cbox_carc": CW("box", CW("arc", stack(l1))), "carc_cbox": CW("arc", CW("box", stack(l1))),
        "fp": stack(PR(F(1))), "fp_boxdyn": stack(PR(FW("boxdyn", F(1)))), "fp_arcdyn": stack(PR(FW("arcdyn", F(1)))),
        "fp_some": stack(PR(FW("some", F(1)))), "fp_reload": stack(PR(FW("reload", F(1)))),
        "fp_some_boxdyn": stack(PR(FW("some", FW("boxdyn", F(1))))), "fp_reload_arcdyn": stack(PR(FW("reload", FW("arcdyn", F(1))))),
        "fp_boxdyn_some": stack(PR(FW("boxdyn", FW("some", F(1))))), "fp_none": stack(l1, PR(FNONE)),
    }
    return S


# shape -> (baseline shape it must be indistinguishable from, the wrapper nest it adds, kind)
BASELINE = {}
for _n in ("box", "boxdyn", "some", "vec1", "reload", "id_outer", "id_inner", "box_some", "some_box", "vec_some", "some_vec", "reload_box",
           "some_reload", "box_vec", "vec_reload", "boxdyn_boxdyn", "cbox", "carc", "cboxdyn", "carcdyn", "cbox_carc", "carc_cbox"):
    BASELINE[_n] = ("p1", "wrap")
for _n in ("mid_box", "mid_boxdyn", "mid_some", "mid_vec1", "mid_reload", "mid_id_outer", "mid_id_inner"):
    BASELINE[_n] = ("p3", "wrap")
for _n in ("cbox0", "carc0"):
    BASELINE[_n] = ("p0", "wrap")
for _n in ("cbox_mid", "carc_mid"):
    BASELINE[_n] = ("p2", "wrap")
for _n in ("fp_boxdyn", "fp_arcdyn", "fp_some", "fp_reload", "fp_some_boxdyn", "fp_reload_arcdyn", "fp_boxdyn_some"):
    BASELINE[_n] = ("fp", "wrap")
for _n in ("none_only",):
    BASELINE[_n] = ("p0", "absent")
for _n in ("vec0_only",):
    BASELINE[_n] = ("p0", "absent")
for _n in ("none_top", "none_mid", "none_bot", "vec0_top", "vec0_mid", "vec0_bot"):
    BASELINE[_n] = ("p2", "absent")
for _n in ("pair_none_mid", "pair_vec0_mid"):
    BASELINE[_n] = ("p3", "absent")
for _n in ("none_bot1", "vec0_bot1", "vec0_top1", "none_top1", "box_none", "reload_none", "vec_none", "pair_none_o", "pair_none_i", "box_vec0", "fp_none", "vec0_dyn_top1"):
    BASELINE[_n] = ("p1", "absent")
for _n in ("flt_boxdyn", "flt_arcdyn", "flt_some", "flt_reload", "flt_box_layer", "flt_some_layer", "flt_vec_layer", "flt_inner_box",
           "flt_inner_some", "flt_inner_reload"):
    BASELINE[_n] = ("flt", "wrap")
for _n in ("flt2_boxdyn", "flt2_reload"):
    BASELINE[_n] = ("flt2", "wrap")

FILTERED_SHAPES = ["flt", "flt_boxdyn", "flt_arcdyn", "flt_some", "flt_reload", "flt_box_layer", "flt_some_layer", "flt_vec_layer",
                   "flt_inner_box", "flt_inner_some", "flt_inner_reload", "flt2", "flt2_boxdyn", "flt2_reload"]
MACRO_SHAPES = ["p1", "p2", "p3", "box", "boxdyn", "some", "vec1", "reload", "id_outer", "id_inner", "mid_box", "mid_some", "mid_vec1",
                "mid_reload", "none_top", "none_mid", "none_bot", "vec0_top", "vec0_mid", "vec0_bot", "none_top1", "vec0_top1",
                "vec0_dyn_top1", "cbox", "carc", "cboxdyn", "pair_none_o", "pair_none_i", "box_none", "reload_none", "pair_none_mid",
                "pair_vec0_mid"]
# shapes whose innermost layer (the one added directly to the root) is an `and_then` pair
PAIR_ON_ROOT = ("id_outer", "id_inner", "pair_none_o", "pair_none_i", "pair2", "pair3", "pair_r")


def more_permissive(hv, hb):
    """Is hint hv strictly more permissive than hb?  (None = no hint = everything; 0 = OFF ... 5 = TRACE)"""
    if hv == hb:
        return False
    if hv is None:
        return True
    if hb is None:
        return False
    return hv > hb


# ---------------------------------------------------------------------------------------------- finding F17, exactly
def _omax(x, y):
    """cmp::max on Option<LevelFilter> (None < Some)."""
    if x is None:
        return y
    if y is None:
        return x
    return max(x, y)


def _pick(s_none, inner_none, oh, ih):
    """Layered::pick_level_hint with the three private flags false."""
    if s_none:
        return None if ih is None else _omax(oh, ih)
    if inner_none and ih == 0:
        return oh
    return _omax(oh, ih)


def ref_hint_sub(t, strict):
    """(max_level_hint, carries-the-None-marker) of a subscriber tree.  strict=False: the marker is answered by anything that
    *contains* a None / empty Vec (what the downcast_raw impls do); strict=True: only by something that *is* nothing but those."""
    k = t["k"]
    if k == "leaf":
        return t["beh"].get("hint"), False
    if k == "wrap":
        return ref_hint_sub(t["x"], strict)
    if k == "none":
        return 0, True
    if k == "identity":
        return None, False
    if k == "vec":
        rs = [ref_hint_sub(x, strict) for x in t["xs"]]
        h = 0
        for hx, _ in rs:
            if hx is None:
                h = None
                break
            h = max(h, hx)
        none = (not rs) or (all(n for _, n in rs) if strict else any(n for _, n in rs))
        return h, none
    if k == "pair":
        ho, no = ref_hint_sub(t["o"], strict)
        hi, ni = ref_hint_sub(t["i"], strict)
        return _pick(no, ni, ho, hi), ((no and ni) if strict else (no or ni))
    if k == "probe":
        f = t["f"]
        while f["k"] == "wrap":
            f = f["x"]
        return (None if f["k"] == "none" else f["beh"].get("hint")), False
    raise ValueError(k)


def ref_hint(t, registry, strict):
    """(hint, marker, is-the-Registry-itself) of a collector tree."""
    k = t["k"]
    if k == "leaf":
        return (None, False, True) if registry else (t["beh"].get("hint"), False, False)
    if k == "wrap":
        h, n, _ = ref_hint(t["c"], registry, strict)
        return h, n, False
    hs, ns = ref_hint_sub(t["s"], strict)
    hc, nc, is_reg = ref_hint(t["c"], registry, strict)
    if is_reg:          # inner_is_registry: the outer hint alone; the Registry has nothing to add
        return hs, ns, False
    return _pick(ns, nc, hs, hc), ((ns and nc) if strict else (ns or nc)), False


def is_absent(t):
    """A subscriber tree that is nothing but None / empty Vecs (through Box / Some / reload / Vecs)."""
    k = t["k"]
    if k == "none":
        return True
    if k == "wrap":
        return is_absent(t["x"])
    if k == "vec":
        return all(is_absent(x) for x in t["xs"])
    return False


def has_identity_around_absent(t):
    """Some and_then pair has an Identity on one side and an absent subscriber on the other (finding F19)."""
    if isinstance(t, dict):
        if t.get("k") == "pair":
            o, i = t["o"], t["i"]
            if (o.get("k") == "identity" and is_absent(i)) or (i.get("k") == "identity" and is_absent(o)):
                return True
        return any(has_identity_around_absent(v) for v in t.values())
    if isinstance(t, list):
        return any(has_identity_around_absent(v) for v in t)
    return False


# single wrappers whose table rows are cross-checked method by method: shape -> (row name, trait, baseline, observed leaf id)
ROW_SHAPES = {
    "box": ("Box<S>", "TSubscribe", "p1", 1), "boxdyn": ("Box<dyn Subscribe>", "TSubscribe", "p1", 1), "some": ("Option<S>", "TSubscribe", "p1", 1),
    "vec1": ("Vec<S>", "TSubscribe", "p1", 1), "reload": ("reload::Subscriber", "TSubscribe", "p1", 1),
    "cbox0": ("Box<C>", "TCollect", "p0", 0), "carc0": ("Arc<C>", "TCollect", "p0", 0),
    "fp_boxdyn": ("Box<dyn Filter>", "TFilter", "fp", 1), "fp_arcdyn": ("Arc<dyn Filter>", "TFilter", "fp", 1),
    "fp_some": ("Option<F>", "TFilter", "fp", 1), "fp_reload": ("reload::Subscriber", "TFilter", "fp", 1),
}
FORWARDING_CLASS = ("Fwd", "(FwdOpt", "(FwdAll", "(FwdLock", "(FwdTryLock")     # single-threaded, a try_read forwards too


def has_empty_vec(t):
    if isinstance(t, dict):
        if t.get("k") == "vec" and not t["xs"]:
            return True
        return any(has_empty_vec(v) for v in t.values())
    if isinstance(t, list):
        return any(has_empty_vec(v) for v in t)
    return False


# ---------------------------------------------------------------------------------------------- behaviours
def attach(tree, behs):
    """Copy of the tree with "beh" on every leaf (leaf i -> behs[min(i, len-1)])."""
    t = copy.deepcopy(tree)

    def go(n):
        if isinstance(n, dict):
            if n.get("k") == "leaf":
                n["beh"] = behs[min(n["id"], len(behs) - 1)]
            for v in n.values():
                go(v)
        elif isinstance(n, list):
            for v in n:
                go(v)
    go(t)
    return t


def coq_beh(b):
    ints = b.get("int", [])
    en = b.get("en", [])
    ev = b.get("ev", [])
    h = b.get("hint")
    return "(beh_of [%s] [%s] [%s] %s %d %s)" % (
        "; ".join(str(x) for x in ints), "; ".join("true" if x else "false" for x in en), "; ".join("true" if x else "false" for x in ev),
        "None" if h is None else "(Some %d)" % h, b.get("close", 255), "true" if b.get("change") else "false")


# ---------------------------------------------------------------------------------------------- Coq terms
SW = {"box": "SwBox", "boxdyn": "SwBoxDyn", "some": "SwSome", "reload": "SwReload"}
FWN = {"boxdyn": "FwBoxDyn", "arcdyn": "FwArcDyn", "some": "FwSome", "reload": "FwReload"}
CWN = {"box": "CwBox", "arc": "CwArc"}


def coq_filt(t, erased):
    k = t["k"]
    if k == "leaf":
        c = "(FLeaf %d %s)" % (t["id"], coq_beh(t["beh"]))
    elif k == "none":
        c = "FNone"
    else:
        inner = coq_filt(t["x"], erased)
        if erased and t["w"] == "boxdyn":
            c = inner          # the concrete value *is* the erased child
        else:
            c = "(FWrap %s %s)" % (FWN[t["w"]], inner)
    return "(FWrap FwBoxDyn %s)" % c if erased else c


def coq_sub(t, erased):
    k = t["k"]
    if k == "leaf":
        c = "(SLeaf %d %s)" % (t["id"], coq_beh(t["beh"]))
    elif k == "none":
        c = "SNone"
    elif k == "identity":
        c = "SIdentity"
    elif k == "vec":
        c = "(SVec [%s])" % "; ".join(coq_sub(x, erased) for x in t["xs"])
    elif k == "pair":
        c = "(SPair %s %s)" % (coq_sub(t["o"], erased), coq_sub(t["i"], erased))
    elif k == "probe":
        c = "(SProbe %s)" % coq_filt(t["f"], erased)
    else:
        inner = coq_sub(t["x"], erased)
        if erased and t["w"] == "boxdyn":
            c = inner
        else:
            c = "(SWrap %s %s)" % (SW[t["w"]], inner)
    return "(SWrap SwBoxDyn %s)" % c if erased else c


def coq_coll(t, erased, registry=False):
    """registry=True: the root leaf is the `Registry` itself (records nothing; `try_close` answers are not modelled: C05)."""
    k = t["k"]
    if k == "leaf":
        c = "(CLeaf %d (beh_registry (fun _ => true)))" % t["id"] if registry else "(CLeaf %d %s)" % (t["id"], coq_beh(t["beh"]))
    elif k == "layered":
        c = "(CLayered %s %s)" % (coq_sub(t["s"], erased), coq_coll(t["c"], erased, registry))
    else:
        inner = coq_coll(t["c"], erased, registry)
        if erased and t["w"] == "box":
            c = inner
        else:
            c = "(CWrap %s %s)" % (CWN[t["w"]], inner)
    return "(CWrap CwBox %s)" % c if erased else c


def coq_op(op):
    n = op[0]
    a = op[1] if len(op) > 1 else 0
    b = op[2] if len(op) > 2 else 0
    return {
        "rc": "ORegisterCallsite %d" % a, "en": "OEnabled %d" % a, "hint": "OHint", "new": "ONewSpan %d %d" % (a, b),
        "rec": "ORecord %d" % a, "ff": "OFollows %d %d" % (a, b), "ev": "OEvent %d" % a, "enter": "OEnter %d" % a,
        "exit": "OExit %d" % a, "clone": "OClone %d" % a, "close": "OTryClose %d" % a, "drop": "ODropSpan %d" % a, "cur": "OCurrent",
    }[n]


def model_res(r):
    if r == "RUnit":
        return ["unit"]
    if r == "RPoison":
        return ["poison"]
    tag, v = r
    if tag == "RBool":
        return ["bool", v]
    if tag == "RInt":
        return ["int", {"INever": 0, "ISometimes": 1, "IAlways": 2}[v]]
    if tag == "RHint":
        return ["hint", None if v is None else v[1]]
    if tag == "RId":
        return ["id", v]
    return ["?", r]


def model_entries(es):
    return [[e[0], e[1], e[2][0], e[2][1], e[2][2]] for e in es]


def model_obs(v):
    build, reg, ops = v
    return {"build": model_entries(build), "reg": model_entries(reg), "ops": [{"log": model_entries(l), "res": model_res(r)} for l, r in ops]}


# ---------------------------------------------------------------------------------------------- the property, in Python, on trees
def strip_wrappers(t):
    """The tree with every pass-through wrapper, one-element Vec, Identity pairing, None and empty Vec removed."""
    k = t["k"]
    if k == "layered":
        s = strip_sub(t["s"])
        c = strip_wrappers(t["c"])
        return c if s is None else LAY(s, c)
    if k == "wrap":
        return strip_wrappers(t["c"])
    return t


def strip_sub(t):
    k = t["k"]
    if k == "wrap":
        return strip_sub(t["x"])
    if k in ("none", "identity"):
        return None
    if k == "vec":
        xs = [y for y in (strip_sub(x) for x in t["xs"]) if y is not None]
        if not xs:
            return None
        return xs[0] if len(xs) == 1 else V(*xs)
    if k == "pair":
        o, i = strip_sub(t["o"]), strip_sub(t["i"])
        if o is None:
            return i
        if i is None:
            return o
        return P(o, i)
    if k == "probe":
        f = t["f"]
        while f["k"] == "wrap":
            f = f["x"]
        return PR(f)          # probe(none) stays: it answers like an absent filter but is a real layer
    return t


def sub_leaves(t):
    """Recording leaves of a subscriber tree, inner -> outer: [(id, 'S'|'F', beh)]."""
    k = t["k"]
    if k == "leaf":
        return [(t["id"], "S", t.get("beh", {}))]
    if k == "wrap":
        return sub_leaves(t["x"])
    if k in ("none", "identity"):
        return []
    if k == "vec":
        return [x for y in t["xs"] for x in sub_leaves(y)]
    if k == "pair":
        return sub_leaves(t["i"]) + sub_leaves(t["o"])
    if k == "probe":
        f = t["f"]
        while f["k"] == "wrap":
            f = f["x"]
        return [] if f["k"] == "none" else [(f["id"], "F", f.get("beh", {}))]
    raise ValueError(k)


def sub_leaves_pof(t):
    """sub_leaves, but an and_then pair lists its OUTER half first (the order finding F18 is about)."""
    k = t["k"]
    if k == "wrap":
        return sub_leaves_pof(t["x"])
    if k == "vec":
        return [x for y in t["xs"] for x in sub_leaves_pof(y)]
    if k == "pair":
        return sub_leaves_pof(t["o"]) + sub_leaves_pof(t["i"])
    return sub_leaves(t)


def coll_leaves_pof(t):
    k = t["k"]
    if k == "leaf":
        return []
    if k == "wrap":
        return coll_leaves_pof(t["c"])
    return coll_leaves_pof(t["c"]) + sub_leaves_pof(t["s"])


def sub_ask_order(t):
    """Order in which a query (enabled / event_enabled) is put: outer -> inner, Vec in element order."""
    k = t["k"]
    if k == "pair":
        return sub_ask_order(t["o"]) + sub_ask_order(t["i"])
    if k == "vec":
        return [x for y in t["xs"] for x in sub_ask_order(y)]
    if k == "wrap":
        return sub_ask_order(t["x"])
    return sub_leaves(t)


def coll_leaves(t):
    """(root beh or None for a Registry, layers inner -> outer, ask order outer -> inner (root excluded))."""
    k = t["k"]
    if k == "leaf":
        return t.get("beh", {}), [], []
    if k == "wrap":
        return coll_leaves(t["c"])
    rb, inner, ask = coll_leaves(t["c"])
    return rb, inner + sub_leaves(t["s"]), sub_ask_order(t["s"]) + ask


def is_linear(t):
    """Every layer of the stack is one recording leaf, possibly wrapped (so register_callsite has the simple outer-first shape)."""
    k = t["k"]
    if k == "leaf":
        return True
    if k == "wrap":
        return is_linear(t["c"])
    s = strip_sub(t["s"])
    return (s is None or s["k"] in ("leaf", "probe")) and not has_empty_vec(t["s"]) and is_linear(t["c"])


def get(lst, i, d):
    return lst[i] if i < len(lst) else d


NOTIF = {  # op -> (Collect method on the root, Subscribe method on layers, Filter method or None)
    "new": ("new_span", "on_new_span", "on_new_span"), "rec": ("record", "on_record", "on_record"),
    "ff": ("record_follows_from", "on_follows_from", None), "enter": ("enter", "on_enter", "on_enter"),
    "exit": ("exit", "on_exit", "on_exit"), "close": ("try_close", "on_close", "on_close"), "drop": ("try_close", "on_close", "on_close"),
    "clone": ("clone_span", "on_id_change", None),
}


def expected_op(tree, op, registry_root, res):
    """What the property says the log of one op must be (None = no claim).  Uses only leaf answers and the stack's shape."""
    rb, inner, ask = coll_leaves(tree)
    name = op[0]
    a = op[1] if len(op) > 1 else 0
    b = op[2] if len(op) > 2 else 0
    root = [] if registry_root else [0]

    def ent(leaf, m, cs=0, i=0, j=0):
        return [leaf, m, cs, i, j]

    if name in NOTIF:
        cm, sm, fm = NOTIF[name]
        cs, i, j = (a, b, 0) if name == "new" else (0, a, b if name == "ff" else 0)
        delivered = True
        if name in ("close", "drop"):
            if registry_root:
                return None      # the Registry's reference counts decide; covered by the differential oracle
            delivered = (rb.get("close", 255) >> (a % 8)) & 1 == 1
        if name == "clone":
            if registry_root or not rb.get("change"):
                delivered = False
            j = a + 100
        if name == "drop" and not has_layered(tree):
            return [ent(0, "drop_span", 0, a, 0)]      # no Layered at all: Box/Arc hand drop_span to the root as it is
        log = [ent(r, cm, cs, i, 0 if name == "clone" else j) for r in root]
        if delivered:
            for leaf, kind, _ in inner:
                m = sm if kind == "S" else fm
                if m:
                    log.append(ent(leaf, m, cs, i, j))
        return log
    if name in ("en", "ev"):
        key = "en" if name == "en" else "ev"
        qm = "enabled" if name == "en" else "event_enabled"
        log = []
        verdict = True
        for leaf, kind, beh in ask:
            log.append(ent(leaf, qm, a))
            if not get(beh.get(key, []), a, True):
                verdict = False
                break
        if verdict and not registry_root:
            log.append(ent(0, qm, a))
            verdict = get(rb.get(key, []), a, True)
        if name == "ev" and verdict:
            log += [ent(r, "event", a) for r in root]
            log += [ent(leaf, "on_event", a) for leaf, kind, _ in inner if kind == "S"]
        return log
    if name == "rc":
        if not is_linear(tree):
            return None
        log = []
        for leaf, kind, beh in ask:
            log.append(ent(leaf, "register_callsite" if kind == "S" else "callsite_enabled", a))
            if get(beh.get("int", []), a, 2) == 0:
                return log
        if not registry_root:
            log.append(ent(0, "register_callsite", a))
        return log
    if name == "cur":
        return [ent(r, "current_span") for r in root]
    return None


def has_layered(t):
    if t["k"] == "layered":
        return True
    if t["k"] == "wrap":
        return has_layered(t["c"])
    return False
