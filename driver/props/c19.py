"""C19 — Levels and level filters form one consistent total order; text round-trips.

Leg A: theorems of coq/theories/Properties/C19.v over the interpreter Levels/Model.v of the
       *generated* Gen_levels.v (translator re-run on every check).
Leg B: translator (every run) + exhaustive correspondence: every operator on every pair, every
       conversion, set_max->current, the LevelFilter layer, and a string corpus, implementation vs model.
Leg C: oracle = the specification order and the documented text language, evaluated here in Python
       directly on the implementation's answers.

The text clause has three parsers of level names in the tree: Level::from_str, LevelFilter::from_str (metadata.rs)
and tracing-attributes' `impl Parse for Level` (`#[instrument(level = ..)]`, `err(level = ..)`, `ret(level = ..)`).
The third one runs at macro-expansion time, so its correspondence compiles generated fixtures (harness/lvlattr):
stage 1 compiles every case and reads rustc's JSON diagnostics per line (error = rejected), stage 2 compiles and runs
the accepted ones under a recording collector (which level each one denotes).

The published maximum: set_max -> current for one collector with each hint, and the fold over several live dispatchers
(callsite.rs rebuild_interest).  These are sequential statements; the translator checks that the source gives set_max a
single serialised writer.  Overlapping rebuilds are C12's / C04's forced schedules."""
import itertools
import json
import os
import sys

import vlib
from vlib import Report, coq_prove, cargo_build, run_bin, coq_eval, gen_if_changed

sys.path.insert(0, os.path.join(vlib.VERIF, "translators"))
import levels as levels_tr  # noqa: E402

LV = ["Error", "Warn", "Info", "Debug", "Trace"]
NAMES = {"error": 1, "warn": 2, "info": 3, "debug": 4, "trace": 5, "off": 0}
XOPS = [("eq", "XBase OpEq"), ("ne", "XNe"), ("lt", "XBase OpLt"), ("le", "XBase OpLe"), ("gt", "XBase OpGt"),
        ("ge", "XBase OpGe"), ("cmp", "XBase OpCmp"), ("partial_cmp", "XBase OpPartialCmp"), ("min", "XMin"), ("max", "XMax")]


def coq_value(enc):
    if enc < 10:
        return "(VL %s)" % LV[enc - 1]
    return "(VF None)" if enc == 10 else "(VF (Some %s))" % LV[enc - 11]


def rank(enc):
    return enc if enc < 10 else enc - 10


def spec_op(op, a, b):
    ra, rb = rank(a), rank(b)
    c = 0 if ra < rb else (1 if ra == rb else 2)
    return {
        "eq": [0, int(ra == rb)], "ne": [0, int(ra != rb)], "lt": [0, int(ra < rb)], "le": [0, int(ra <= rb)],
        "gt": [0, int(ra > rb)], "ge": [0, int(ra >= rb)], "cmp": [1, c], "partial_cmp": [2, c],
        "max": [3, a if rb < ra else b], "min": [3, b if rb < ra else a],
    }[op]


def spec_parse(s, filt):
    """The documented language: a level name in any letter case, or the number (optional '+', leading zeros)."""
    low = s.lower() if s.isascii() else None
    if low in NAMES and (filt or low != "off"):
        return NAMES[low]
    t = s[1:] if s.startswith("+") else s
    if t and all(c in "0123456789" for c in t) and t.isascii():
        v = int(t)
        if v < 2 ** 64 and ((0 if filt else 1) <= v <= 5):
            return v
    return -1


def spec_attr_str(s):
    """`level = "<s>"`: one of the five level names in any ASCII letter case; nothing else (no digit strings, no `off`)."""
    low = s.lower() if s.isascii() else None
    return NAMES[low] if (low in NAMES and low != "off") else -1


def load_corpus():
    try:
        return json.load(open(os.path.join(vlib.VERIF, "corpus", "C19", "cases.json"), encoding="utf-8"))
    except (OSError, ValueError):
        return {"strings": [], "attr_tokens": []}


def rust_str_token(s):
    out = []
    for ch in s:
        o = ord(ch)
        if 0x20 <= o <= 0x7e and ch not in '"\\':
            out.append(ch)
        else:
            out.append("\\u{%x}" % o)
    return '"' + "".join(out) + '"'


ATTR_FORMS = {
    "span": ("#[tracing::instrument(level = %s)] fn %s() {}", "%s();"),
    "ret": ("#[tracing::instrument(ret(level = %s))] fn %s() -> u8 { 0 }", "let _ = %s();"),
    "err": ("#[tracing::instrument(err(level = %s))] fn %s() -> Result<u8, &'static str> { Err(\"e\") }", "let _ = %s();"),
}


def attr_cases(ctx, strs):
    """Cases for the attribute's level parser: dicts {form, tok, sem} (sem = ["str", s] | ["int", n] | ["path", lvl] | ["bad"])."""
    cor = load_corpus()
    cases, seen = [], set()

    def add(form, tok, sem):
        if (form, tok) not in seen:
            seen.add((form, tok))
            cases.append({"form": form, "tok": tok, "sem": sem})

    for s in cor.get("strings", []):
        add("span", rust_str_token(s), ["str", s])
    for t in cor.get("attr_tokens", []):
        add("span", t["tok"], t["sem"])
    fixed = [s for s in strs if spec_parse(s, True) >= 0 or not s.isascii()]       # every accepted spelling + every non-ASCII string
    rng = ctx.rng
    rest = [s for s in strs if not (spec_parse(s, True) >= 0 or not s.isascii())]
    rng.shuffle(rest)
    for s in fixed + rest[:(300 if not ctx.thorough() else 3000)]:
        add("span", rust_str_token(s), ["str", s])
    # non-ASCII code points around the level names: case-mapping look-alikes substituted into each name
    subst = {"i": "ıİｉΙіӏ", "I": "ıİＩΙІ", "s": "ſʂѕ", "S": "ſЅ", "k": "KΚ", "e": "еｅ", "o": "οоｏ", "a": "аａ", "r": "ʀｒ",
             "n": "ｎո", "f": "ｆ", "w": "ｗԝ", "d": "ｄԁ", "b": "ｂ", "u": "ｕ", "g": "ｇɡ", "t": "ｔ", "c": "сｃ", "E": "ＥЕ", "O": "ОΟ"}
    for name in ("trace", "debug", "info", "warn", "error"):
        for variant in (name, name.upper(), name.capitalize()):
            for i, ch in enumerate(variant):
                for rep_ch in subst.get(ch, ""):
                    add("span", rust_str_token(variant[:i] + rep_ch + variant[i + 1:]), ["str", variant[:i] + rep_ch + variant[i + 1:]])
    for n in range(0, 12):
        add("span", str(n), ["int", n])
    fmts = [lambda n: "%d" % n, lambda n: "0x%x" % n, lambda n: "0o%o" % n, lambda n: "0b" + bin(n)[2:], lambda n: "%du64" % n,
            lambda n: "0%d" % n, lambda n: "{:_}".format(n)]
    for _ in range(20 if not ctx.thorough() else 200):
        n = rng.choice([rng.randint(0, 9), rng.randint(0, 300), rng.randint(2 ** 63, 2 ** 65), 2 ** 64 + rng.randint(0, 6), 2 ** 32 + rng.randint(0, 6)])
        add("span", rng.choice(fmts)(n), ["int", n])
    for form in ("ret", "err"):
        for s in ("trace", "DEBUG", "iNfO", "Warn", "erroR", "ınfo", "3", "", "off", "warning", "INFO "):
            add(form, rust_str_token(s), ["str", s])
        for n in (0, 1, 3, 5, 6):
            add(form, str(n), ["int", n])
        add(form, "Level::WARN", ["path", 2])
    return cases


def attr_cargo(ctx, binname, as_json):
    manifest = vlib.harness_pkg(ctx, "lvlattr")
    cmd = ["cargo", "build", "--offline", "--manifest-path", manifest, "--bin", binname] + (["--message-format=json"] if as_json else [])
    env = {"CARGO_NET_OFFLINE": "true", "CARGO_TARGET_DIR": ctx.target_dir, "RUSTFLAGS": "--cfg %s -A warnings" % vlib.GUARD_CFG}
    import time
    t = time.time()
    rc, out = vlib.sh(cmd, 1500, env=env)
    ctx.log("cargo build lvlattr %s rc=%d (%.1fs)" % (binname, rc, time.time() - t))
    return rc, out


def attr_file(cases, idxs, with_runner):
    lines = ["// GENERATED by driver/props/c19.py; one case per line (line number = case)."]
    where = {}
    for i in idxs:
        c = cases[i]
        lines.append(ATTR_FORMS[c["form"]][0] % (c["tok"], "c%d" % i))
        where[len(lines)] = i
    if with_runner:
        lines.append("fn run_all() { " + " ".join(ATTR_FORMS[cases[i]["form"]][1] % ("c%d" % i) for i in idxs) + " }")
    return "\n".join(lines) + "\n", where


def attr_impl(ctx, cases):
    """-> ({case index: -1 | level 1..5}, {case index: rejection message}, problems [str])."""
    problems = []
    with vlib.flock("lvlattr-" + ctx.repo_key):
        pkgdir = os.path.dirname(vlib.harness_pkg(ctx, "lvlattr"))
        text, where = attr_file(cases, range(len(cases)), False)
        gen_if_changed(os.path.join(pkgdir, "cases_probe.rs"), text)
        rc, out = attr_cargo(ctx, "h_lvlattr_probe", True)
        rejected = {}
        other = []
        for l in out.splitlines():
            if not l.startswith('{"reason"'):
                continue
            try:
                d = json.loads(l)
            except ValueError:
                continue
            if d.get("reason") != "compiler-message":
                continue
            m = d["message"]
            if not m.get("level", "").startswith("error") or m["message"].startswith("aborting due to"):
                continue
            lns = set()

            def walk(sp):
                if sp.get("file_name", "").endswith("cases_probe.rs"):
                    lns.add(sp["line_start"])
                ex = sp.get("expansion")
                if ex and ex.get("span"):
                    walk(ex["span"])
            for sp in m.get("spans", []):
                walk(sp)
            hit = [where[ln] for ln in lns if ln in where]
            if hit:
                for i in hit:
                    rejected.setdefault(i, m["message"])
            else:
                other.append(m["message"])
        if other:
            problems.append("stage 1: compiler errors not attributable to a case: %s" % "; ".join(other[:3]))
        if rc != 0 and not rejected and not other:
            problems.append("stage 1: cargo failed without diagnostics: %s" % vlib.last_error(out))
        if rc == 0 and rejected:
            problems.append("stage 1: errors reported but the build succeeded")
        accepted = [i for i in range(len(cases)) if i not in rejected]
        text2, _ = attr_file(cases, accepted, True)
        gen_if_changed(os.path.join(pkgdir, "cases_run.rs"), text2)
        # leave a probe file behind that compiles (./setup builds every harness binary)
        gen_if_changed(os.path.join(pkgdir, "cases_probe.rs"), attr_file(cases, accepted, False)[0])
        rc2, out2 = attr_cargo(ctx, "h_lvlattr_run", False)
        res = {i: -1 for i in rejected}
        if rc2 != 0:
            problems.append("stage 2: the cases stage 1 accepted do not build: %s" % vlib.last_error(out2))
            return res, rejected, problems
        rc3, out3 = run_bin(os.path.join(ctx.target_dir, "debug", "h_lvlattr_run"), timeout=300)
    spans, events, done = {}, {}, False
    for l in out3.splitlines():
        if not l.startswith("{"):
            continue
        r = json.loads(l)
        if r["k"] == "span":
            spans.setdefault(r["name"], []).append(r["level"])
        elif r["k"] == "event":
            events.setdefault(r["in"], []).append(r["level"])
        elif r["k"] == "done":
            done = True
    if rc3 != 0 or not done:
        problems.append("stage 2: run rc=%d %s" % (rc3, vlib.last_error(out3)))
    for i in accepted:
        nm = "c%d" % i
        form = cases[i]["form"]
        if form == "span":
            got, extra_ok = spans.get(nm, []), not events.get(nm)
        else:
            got, extra_ok = events.get(nm, []), spans.get(nm) == [3]      # the span itself stays at the default INFO
        if len(got) == 1 and extra_ok:
            res[i] = got[0]
        else:
            res[i] = -2
            problems.append("stage 2: case %d (%s level = %s): spans %s events %s" % (i, form, cases[i]["tok"], spans.get(nm), events.get(nm)))
    return res, rejected, problems


def corpus(ctx):
    strs = set()
    strs.update(load_corpus().get("strings", []))
    for name in NAMES:
        for bits in itertools.product([0, 1], repeat=len(name)):
            strs.add("".join(c.upper() if b else c for c, b in zip(name, bits)))
    for d in range(0, 12):
        for pre in ("", "+", "-", "0", "00", "+0", "+000", " ", "++", "+-"):
            strs.add(pre + str(d))
            strs.add(pre + str(d) + " ")
    extra = ["", " ", "+", "-", "0x1", "1.0", "1e0", "١", "５", "info ", " info", "inf", "infoo", "warning", "err", "of", "offf",
             "trace\n", "\tdebug", "TRACE!", "ıNFO", "İNFO", "ſ", "K", "error\u0000", "18446744073709551615", "18446744073709551616",
             "18446744073709551617", "0" * 40 + "3", "+" + "0" * 25 + "5", "0" * 30, "9" * 30, "1" + "0" * 19, "1" + "0" * 20,
             "00000000000000000000000000000000000006", "5 ", "٣", "3​", "OFF", "Off", "oFF", "none", "all", "true"]
    strs.update(extra)
    rng = ctx.rng
    alphabet = "eErRoOwWaAnNiIfFdDbBuUgGtTcC0123456789+- \t_x"
    n_rand = 400 if not ctx.thorough() else 6000
    for _ in range(n_rand):
        k = rng.randint(0, 7)
        strs.add("".join(rng.choice(alphabet) for _ in range(k)))
    # mutations of accepted strings
    acc = list(NAMES) + [str(i) for i in range(6)]
    for _ in range(n_rand):
        s = list(rng.choice(acc))
        op = rng.randint(0, 3)
        pos = rng.randint(0, len(s))
        if op == 0 and s:
            s[pos % len(s)] = rng.choice(alphabet)
        elif op == 1:
            s.insert(pos, rng.choice(alphabet))
        elif op == 2 and s:
            del s[pos % len(s)]
        else:
            s = [c.swapcase() if rng.random() < 0.5 else c for c in s]
        strs.add("".join(s))
    return sorted(strs)


def run(ctx):
    rep = Report(ctx)
    rep.rule = ("exhaustive: 10 operators x 11 x 11 Level/LevelFilter values (mixed-type cmp/min/max do not exist), all conversions, "
                "set_max->current for 6 filters, LevelFilter layer x 5 levels; strings: every letter-case pattern of the 6 names, "
                "digit strings with +/-/0 prefixes, overflow-length numerals, Unicode look-alikes, seeded random strings and "
                "mutations of accepted strings; the same strings (all accepted spellings, all non-ASCII ones, a seeded sample of the rest), "
                "case-mapping look-alikes substituted into each name, integer literals (all bases, suffixes, > u64), paths and other tokens as "
                "`#[instrument(level = ..)]` / `ret(level = ..)` / `err(level = ..)` fixtures; published maximum: every list of <= 3 live "
                "dispatchers over 7 hints, plus a dropped one. non-trivial = operator triple with a != b, or a string within edit distance 1 of "
                "an accepted spelling / a numeral with sign or leading zeros, an attribute token that is not a plain rejected string, a hint "
                "list with two different hints; distinct = distinct (op,a,b) / string / (form,token) / hint list")
    rep.trusted_base = [
        "Coq 8.16.1 kernel + vm_compute (no native_compute)", "translators/levels.py + rsparse.py (shape recognition of metadata.rs; fails closed via gen_unrecognised = [])",
        "harness h_levels.rs (calls the real operators; identifies values by derived Hash only)",
        "harness lvlattr (generated fixtures; rustc's JSON diagnostics attribute a rejection to the fixture line it points at; syn's LitStr::value / LitInt::base10_parse give the literal's value)", "std: usize::from_str, eq_ignore_ascii_case, Ord::min/max defaults (modelled)",
        "Python oracle (spec order / documented language)"]
    rep.assumptions = ["strings presented to FromStr are valid UTF-8 (Rust's &str); the theorem covers all byte lists",
                       "usize is 64-bit", "Ord::max/min are std's defaults built on the hand-written `lt`",
                       "the published-maximum theorems are sequential: one rebuild at a time (the translator checks that the source serialises set_max's only caller under the registry's write lock; overlapping rebuilds are C12_max_level_after / C04's schedules)",
                       "attribute level parser: a literal is modelled by its value (string bytes / integer), the tokenizer is rustc's and syn's"]
    # ---- leg B1: translator
    text, unrec = levels_tr.main(ctx.repo, None)
    gen_if_changed(os.path.join(vlib.COQ, "gen", "Gen_levels.v"), text)
    rep.tie("translator:Gen_levels", not unrec, "; ".join(unrec[:4]), unrec[:1] or None)
    # ---- leg A
    rep.proof = coq_prove(ctx, "C19", ["theories/Properties/C19.vo"])
    # ---- implementation
    builds = [False] + ([True] if ctx.thorough() else [])
    strs = corpus(ctx)
    stdin = "\n".join(s.encode("utf-8").hex() for s in strs) + "\n"
    impl_runs = []
    for rel in builds:
        ok, paths, log = cargo_build(ctx, "core", ["h_levels"], release=rel)
        if not ok:
            rep.tie("build:h_levels" + ("-release" if rel else ""), False, vlib.last_error(log))
            return rep
        rc, out = run_bin(paths["h_levels"], input=stdin, timeout=300)
        if rc != 0:
            rep.tie("run:h_levels", False, "rc=%d %s" % (rc, vlib.last_error(out)))
            return rep
        impl_runs.append(("release" if rel else "debug", [json.loads(l) for l in out.splitlines() if l.startswith("{")]))

    acases = attr_cases(ctx, strs)
    aimpl, arej, aproblems = attr_impl(ctx, acases)
    rep.tie("attr-fixtures", not aproblems, "; ".join(aproblems[:3]), aproblems[:1] or None)
    pub_lists = sorted({tuple(r["hs"]) for _, recs in impl_runs for r in recs if r["k"] == "published"})

    # ---- model evaluation (may be impossible when the proof leg / generated file is broken)
    model = None
    try:
        triples = []
        for op, cx in XOPS:
            for a in list(range(1, 6)) + list(range(10, 16)):
                for b in list(range(1, 6)) + list(range(10, 16)):
                    if op in ("cmp", "min", "max") and (a < 10) != (b < 10):
                        continue
                    triples.append((op, a, b, "(%s, %s, %s)" % (cx, coq_value(a), coq_value(b))))
        terms = [("ops", "map (fun t => enc_result (eval_x (fst (fst t)) (snd (fst t)) (snd t))) [%s]" % "; ".join(t[3] for t in triples))]
        enc_ol = "(fun o => match o with Some f => enc_olv f | None => 99 end)"
        enc_l = "(fun o => match o with Some l => rank_lv l | None => 99 end)"
        terms.append(("misc", "(map (fun l => (display_level l, as_str_level l, %s (as_log_level l), %s (as_trace_level l))) all_lv, "
                              "map (fun f => (display_filter f, %s (as_log_filter f), %s (as_trace_filter f), %s (current_after f))) (None :: map Some all_lv), "
                              "map (fun f => map (fun l => (layer_enabled \"enabled\" f l, layer_enabled \"register_callsite\" f l)) all_lv) (None :: map Some all_lv))"
                      % (enc_l, enc_l, enc_ol, enc_ol, enc_ol)))
        chunk = 150
        for i in range(0, len(strs), chunk):
            lits = "; ".join(vlib.coq_bytes(s.encode("utf-8")) for s in strs[i:i + chunk])
            terms.append(("parse%d" % i, "map (fun s => (%s (parse_level s), %s (parse_filter s))) [%s]" % (enc_l, enc_ol, lits)))
        astrs = sorted({c["sem"][1] for c in acases if c["sem"][0] == "str"})
        aints = sorted({c["sem"][1] for c in acases if c["sem"][0] == "int"})
        for i in range(0, len(astrs), chunk):
            lits = "; ".join(vlib.coq_bytes(x.encode("utf-8")) for x in astrs[i:i + chunk])
            terms.append(("attrs%d" % i, "map (fun s => %s (attr_parse_str s)) [%s]" % (enc_l, lits)))
        terms.append(("attri", "(map (fun n => %s (attr_parse_int n)) [%s], gen_attr_path_passthrough, map (fun n => %s (parse_level [48 + n])) [1; 2; 3; 4; 5])"
                      % (enc_l, "; ".join(str(n) for n in aints), enc_l)))
        hint = lambda h: "None" if h == 9 else ("(Some None)" if h == 0 else "(Some (Some %s))" % LV[h - 1])
        terms.append(("initial", "%s current_initial" % enc_ol))
        terms.append(("pub", "map (fun hs => %s (published hs)) [%s]" % (enc_ol, "; ".join("[" + "; ".join(hint(h) for h in hs) + "]" for hs in pub_lists))))
        res = coq_eval(ctx, "From TV Require Import Levels.Model.\nLocal Open Scope N_scope.\nLocal Open Scope string_scope.", terms)
        model = {"ops": {}, "parse": {}, "attr_str": {}, "attr_int": {}, "pub": {}}
        for i in range(0, len(astrs), chunk):
            for x, r in zip(astrs[i:i + chunk], res["attrs%d" % i]):
                model["attr_str"][x] = r if r != 99 else -1
        for n, r in zip(aints, res["attri"][0]):
            model["attr_int"][n] = r if r != 99 else -1
        model["initial"] = res["initial"] if res["initial"] != 99 else -1
        model["attr_path"] = res["attri"][1]
        model["from_str_digits"] = res["attri"][2]
        for hs, r in zip(pub_lists, res["pub"]):
            model["pub"][hs] = r if r != 99 else -1
        for (op, a, b, _), r in zip(triples, res["ops"]):
            model["ops"][(op, a, b)] = r
        for i in range(0, len(strs), chunk):
            for s, r in zip(strs[i:i + chunk], res["parse%d" % i]):
                model["parse"][s] = (r[0] if r[0] != 99 else -1, r[1] if r[1] != 99 else -1)
        model["misc"] = res["misc"]
    except Exception as ex:  # ModelEvalError or a parse problem: the tie is broken, the oracle still runs
        rep.tie("model-eval", False, str(ex)[:300])

    # ---- correspondence + oracle
    for prof, recs in impl_runs:
        disagree = []
        n_ops = 0
        seen_ops = set()
        for r in recs:
            k = r["k"]
            if k == "op":
                n_ops += 1
                key = (r["op"], r["a"], r["b"])
                seen_ops.add(key)
                rep.evaluations += 1
                rep.count("op:" + r["op"])
                if r["a"] != r["b"]:
                    rep.nontrivial.add(key)
                want = spec_op(*key)
                if r["r"] != want:
                    rep.violation("operator %s(%s,%s) = %s but the order OFF<ERROR<..<TRACE gives %s [%s build]" % (r["op"], r["a"], r["b"], r["r"], want, prof),
                                  {"kind": "op", "op": r["op"], "a": r["a"], "b": r["b"], "impl": r["r"], "spec": want, "profile": prof})
                if model is not None and model["ops"].get(key) != r["r"]:
                    disagree.append({"case": list(key), "impl": r["r"], "model": model["ops"].get(key)})
            elif k == "parse":
                s = bytes.fromhex(r["s"]).decode("utf-8")
                rep.evaluations += 1
                wl, wf = spec_parse(s, False), spec_parse(s, True)
                near = wl >= 0 or wf >= 0 or any(spec_parse(s[:i] + s[i + 1:], True) >= 0 for i in range(len(s)))
                if near:
                    rep.nontrivial.add(("str", s))
                rep.count("parse:" + ("accepted" if (r["level"] >= 0 or r["filter"] >= 0) else "rejected"))
                if r["level"] != wl:
                    rep.violation("Level::from_str(%r) = %s, documented language gives %s" % (s, r["level"], wl),
                                  {"kind": "parse_level", "input": s, "impl": r["level"], "spec": wl, "profile": prof})
                if r["filter"] != wf:
                    fid = "F13" if (s == "" and r["filter"] == 1) else None
                    rep.violation("LevelFilter::from_str(%r) = %s, documented language gives %s" % (s, r["filter"], wf),
                                  {"kind": "parse_filter", "input": s, "impl": r["filter"], "spec": wf, "profile": prof}, finding=fid)
                if model is not None and model["parse"].get(s) != (r["level"], r["filter"]):
                    disagree.append({"case": ["parse", s], "impl": [r["level"], r["filter"]], "model": model["parse"].get(s)})
            else:
                rep.evaluations += 1
                rep.count(k)
                bad = None
                if k in ("display_level", "as_str"):
                    s = bytes.fromhex(r["s"]).decode()
                    if s != LV[r["a"] - 1].upper():
                        bad = "%s(%s) = %r" % (k, r["a"], s)
                elif k == "display_level_pad":
                    s = bytes.fromhex(r["s"]).decode()
                    if s != LV[r["a"] - 1].upper().rjust(7):
                        bad = "padded Display of level %s = %r" % (r["a"], s)
                elif k == "display_filter":
                    s = bytes.fromhex(r["s"]).decode()
                    if s != (["off"] + [x.lower() for x in LV])[r["a"]]:
                        bad = "display_filter(%s) = %r" % (r["a"], s)
                elif k in ("as_log_level", "as_trace_level", "as_log_filter", "as_trace_filter", "current_after", "into_level", "into_option", "from_option"):
                    if r["r"] != r["a"]:
                        bad = "%s(%s) = %s" % (k, r["a"], r["r"])
                elif k in ("level_into_filter", "from_level"):
                    if r["r"] != r["a"]:
                        bad = "%s(level %s) = filter %s" % (k, r["a"], r["r"])
                elif k == "current_initial":
                    if r["r"] != 0:
                        bad = "LevelFilter::current() before any collector existed = %s, not OFF" % r["r"]
                    if model is not None and model["initial"] != r["r"]:
                        disagree.append({"case": ["current_initial"], "impl": r["r"], "model": model["initial"]})
                elif k == "current_after_nohint":
                    if r["r"] != 5:
                        bad = "current() with an unhinted collector = %s" % r["r"]
                elif k == "layer":
                    want = int(r["l"] <= r["f"])
                    if r["enabled"] != want or r["interest"] != (2 if want else 0):
                        bad = "LevelFilter %s as layer on level %s: enabled=%s interest=%s" % (r["f"], r["l"], r["enabled"], r["interest"])
                elif k == "layer_hint":
                    if r["r"] != r["f"]:
                        bad = "LevelFilter %s as layer: hint %s" % (r["f"], r["r"])
                elif k == "overlap":
                    rep.count("overlap:" + ("overlapped" if r["overlapped"] else "serialised"))
                    rep.nontrivial.add(("overlap", r["old"], r["new"]))
                    if not r["paused"] or r["before"] != r["old"]:
                        bad = "overlap probe did not reach its starting point: %s" % r
                    elif r["r"] != r["new"]:
                        bad = ("a second rebuild_interest_cache() %s one that was in progress (it had read the collector's hint %s); the hint changed to %s, "
                               "the second rebuild published %s, then the first one finished: with no rebuild in progress and the only collector's hint = %s, "
                               "LevelFilter::current() = %s (0..5 = OFF..TRACE)"
                               % ("overlapped" if r["overlapped"] else "ran after", r["old"], r["new"], r["mid"], r["new"], r["r"]))
                elif k == "published":
                    hs = tuple(r["hs"])
                    want = max([5 if h == 9 else h for h in hs] or [0])
                    if len(set(hs)) > 1:
                        rep.nontrivial.add(("published", hs, r.get("dead")))
                    if r["r"] != want:
                        bad = ("with live collectors whose max_level_hints are %s%s, LevelFilter::current() = %s but the greatest hint is %s "
                               "(0..5 = OFF..TRACE, 9 = no hint)" % (list(hs), " (after one with hint %s was dropped)" % r["dead"] if "dead" in r else "", r["r"], want))
                    if model is not None and model["pub"].get(hs) != r["r"]:
                        disagree.append({"case": ["published", list(hs), r.get("dead")], "impl": r["r"], "model": model["pub"].get(hs)})
                if bad:
                    rep.violation(bad + " [%s build]" % prof, dict(r, profile=prof))
        # completeness of the enumeration on the implementation side
        expected_ops = sum(1 for op, _ in XOPS for a in range(11) for b in range(11)
                           if not (op in ("cmp", "min", "max") and (a < 5) != (b < 5)))
        if len(seen_ops) != expected_ops:
            rep.tie("enumeration-complete:" + prof, False, "saw %d operator triples, expected %d" % (len(seen_ops), expected_ops))
        # model-side misc comparison
        if model is not None:
            lv_rows, f_rows, layer_rows = model["misc"]
            by = {}
            for r in recs:
                if r["k"] not in ("op", "parse", "published", "overlap"):
                    by.setdefault(r["k"], {})[(r.get("a"), r.get("f"), r.get("l"))] = r
            for i, row in enumerate(lv_rows, 1):
                disp, asstr, aslog, astrace = row
                for k, mv in (("display_level", disp), ("as_str", asstr)):
                    iv = list(bytes.fromhex(by[k][(i, None, None)]["s"]))
                    if mv != ("Some", iv):
                        disagree.append({"case": [k, i], "impl": iv, "model": mv})
                if by["as_log_level"][(i, None, None)]["r"] != aslog or by["as_trace_level"][(i, None, None)]["r"] != astrace:
                    disagree.append({"case": ["as_log/as_trace level", i], "model": [aslog, astrace]})
            for i, row in enumerate(f_rows):
                disp, aslog, astrace, cur = row
                iv = list(bytes.fromhex(by["display_filter"][(i, None, None)]["s"]))
                if disp != ("Some", iv):
                    disagree.append({"case": ["display_filter", i], "impl": iv, "model": disp})
                if by["as_log_filter"][(i, None, None)]["r"] != aslog or by["as_trace_filter"][(i, None, None)]["r"] != astrace:
                    disagree.append({"case": ["as_log/as_trace filter", i], "model": [aslog, astrace]})
                ic = by["current_after"][(i, None, None)]["r"]
                if (cur if cur != 99 else -1) != ic:
                    disagree.append({"case": ["current_after", i], "impl": ic, "model": cur})
            for fi, row in enumerate(layer_rows):
                for li, (en, rc) in enumerate(row, 1):
                    r = by["layer"][(None, fi, li)]
                    if en != ("Some", bool(r["enabled"])) or rc != ("Some", r["interest"] == 2):
                        disagree.append({"case": ["layer", fi, li], "impl": [r["enabled"], r["interest"]], "model": [en, rc]})
            rep.tie("correspondence:" + prof, not disagree, "%d disagreements" % len(disagree), disagree[:1] or None)
            rep.traces_validated += len(recs)
    # ---- the attribute's level parser: oracle (documented language) + correspondence with the model
    adis = []
    for i, c in enumerate(acases):
        got = aimpl.get(i, -2)
        if got == -2:
            continue                       # already reported as an attr-fixtures problem
        kind = c["sem"][0]
        rep.evaluations += 1
        rep.count("attr:%s:%s:%s" % (c["form"], kind, "accepted" if got >= 0 else "rejected"))
        shown = "#[instrument(%s)]" % {"span": "level = %s", "ret": "ret(level = %s)", "err": "err(level = %s)"}[c["form"]] % c["tok"]
        case = {"kind": "attr", "form": c["form"], "tok": c["tok"], "sem": c["sem"], "impl": got}
        lv_name = lambda v: "rejected" if v < 0 else "accepted as " + LV[v - 1].upper()
        if kind == "str":
            x = c["sem"][1]
            want = spec_attr_str(x)
            if want >= 0 or not x.isascii() or any(spec_parse(x[:j] + x[j + 1:], True) >= 0 for j in range(len(x))):
                rep.nontrivial.add(("attr", c["form"], c["tok"]))
            if got != want:
                rep.violation("%s (the string %r) is %s; only the five level names in any ASCII letter case may be accepted, so it must be %s%s"
                              % (shown, x, lv_name(got), lv_name(want),
                                 "" if got < 0 else " (Level::from_str(%r) is %s)" % (x, lv_name(spec_parse(x, False)))), dict(case, spec=want, input=x))
            elif got < 0 and "unknown verbosity level" not in arej.get(i, ""):
                rep.violation("%s is rejected, but not as an unknown verbosity level: %s" % (shown, arej.get(i, "")[:200]), dict(case, message=arej.get(i)))
            if model is not None and model["attr_str"].get(x) != got:
                adis.append({"case": [c["form"], c["tok"]], "impl": got, "model": model["attr_str"].get(x)})
        elif kind == "int":
            n = c["sem"][1]
            rep.nontrivial.add(("attr", c["form"], c["tok"]))
            if (got >= 0) != (1 <= n <= 5):
                rep.violation("%s (the number %d) is %s; exactly the numbers 1-5 are documented" % (shown, n, lv_name(got)), dict(case, spec_accepts=(1 <= n <= 5)))
            elif got < 0 and "unknown verbosity level" not in arej.get(i, ""):
                rep.violation("%s is rejected, but not as an unknown verbosity level: %s" % (shown, arej.get(i, "")[:200]), dict(case, message=arej.get(i)))
            if model is not None and model["attr_int"].get(n) != got:
                adis.append({"case": [c["form"], c["tok"]], "impl": got, "model": model["attr_int"].get(n)})
        elif kind == "path":
            rep.nontrivial.add(("attr", c["form"], c["tok"]))
            if got != c["sem"][1]:
                rep.violation("%s is %s, the path names %s" % (shown, lv_name(got), LV[c["sem"][1] - 1].upper()), dict(case, spec=c["sem"][1]))
            if model is not None and model["attr_path"] is not True:
                adis.append({"case": [c["form"], c["tok"]], "impl": got, "model": "paths are not passed through"})
        else:
            rep.nontrivial.add(("attr", c["form"], c["tok"]))
            if got >= 0:
                rep.violation("%s is %s; it is neither a string, nor a number, nor a path" % (shown, lv_name(got)), case)
    if model is not None:
        rep.tie("correspondence:attr", not adis, "%d disagreements" % len(adis), adis[:1] or None)
        rep.traces_validated += len(acases)
        digs = [model["attr_int"].get(n) for n in (1, 2, 3, 4, 5)]
        if None not in digs and digs != model["from_str_digits"]:
            ctx.notes.append("observation O1 (not demanded by the property text, not a violation): `#[instrument(level = n)]` maps 1..5 to %s while "
                             "Level::from_str maps \"1\"..\"5\" to %s (1..5 = ERROR..TRACE): the same digit denotes different levels at the two entry points"
                             % (digs, model["from_str_digits"]))
    rep.exhaustive = True
    rep.samples = [{"attr_cases": len(acases), "attr_accepted": sum(1 for v in aimpl.values() if v >= 0)},
                   {"op": "lt", "a": "Level::ERROR(1)", "b": "LevelFilter::OFF(10)", "impl": [0, 0]},
                   {"parse": "+003", "level": 3, "filter": 3}, {"parse": "wArN", "level": 2, "filter": 2},
                   {"parse": "18446744073709551616", "level": -1, "filter": -1}, {"strings_in_corpus": len(strs)}]
    return rep


def replay_attr(ctx, rep, case):
    cases = [{"form": case["form"], "tok": case["tok"], "sem": case["sem"]},
             {"form": "span", "tok": '"iNfO"', "sem": ["str", "iNfO"]}]              # a control that must be accepted
    aimpl, arej, problems = attr_impl(ctx, cases)
    rep.tie("attr-fixtures", not problems, "; ".join(problems[:3]))
    got = aimpl.get(0, -2)
    rep.evaluations += 2
    rep.samples.append({"replayed": cases[0], "impl": got, "control": aimpl.get(1)})
    rep.nontrivial.add(("attr", case["form"], case["tok"]))
    kind = case["sem"][0]
    want_ok = None
    if kind == "str":
        want = spec_attr_str(case["sem"][1])
        want_ok = got == want
    elif kind == "int":
        want_ok = (got >= 0) == (1 <= case["sem"][1] <= 5)
    elif kind == "path":
        want_ok = got == case["sem"][1]
    else:
        want_ok = got < 0
    if aimpl.get(1) != 3:
        rep.violation("control `#[instrument(level = \"iNfO\")]` is not accepted as INFO: %s" % aimpl.get(1), cases[1])
    if not want_ok:
        rep.violation("#[instrument(.. level = %s ..)] [%s form] gives %s (-1 = rejected, 1..5 = ERROR..TRACE), which the documented language does not allow"
                      % (case["tok"], case["form"], got), dict(case, impl=got))
    return rep


def replay(ctx, payload):
    """Re-run one recorded failing case against the implementation (and the spec oracle)."""
    case = payload.get("case") or {}
    if payload.get("kind") != "failing-input" or case.get("kind") not in ("op", "parse_level", "parse_filter", "attr"):
        return run(ctx)
    rep = Report(ctx)
    rep.rule = "replay of one recorded case"
    text, unrec = levels_tr.main(ctx.repo, None)
    gen_if_changed(os.path.join(vlib.COQ, "gen", "Gen_levels.v"), text)
    rep.tie("translator:Gen_levels", not unrec, "; ".join(unrec[:4]), unrec[:1] or None)
    rep.proof = coq_prove(ctx, "C19", ["theories/Properties/C19.vo"])
    if case["kind"] == "attr":
        return replay_attr(ctx, rep, case)
    rel = case.get("profile") == "release"
    ok, paths, log = cargo_build(ctx, "core", ["h_levels"], release=rel)
    if not ok:
        rep.tie("build:h_levels", False, vlib.last_error(log))
        return rep
    stdin = (case.get("input", "").encode("utf-8").hex() + "\n") if case["kind"] != "op" else ""
    rc, out = run_bin(paths["h_levels"], input=stdin, timeout=300)
    for r in (json.loads(l) for l in out.splitlines() if l.startswith("{")):
        rep.evaluations += 1
        if case["kind"] == "op" and r["k"] == "op" and (r["op"], r["a"], r["b"]) == (case["op"], case["a"], case["b"]):
            want = spec_op(r["op"], r["a"], r["b"])
            rep.samples.append({"replayed": r, "spec": want})
            rep.nontrivial.add(("op", r["op"], r["a"], r["b"]))
            if r["r"] != want:
                rep.violation("operator %s(%s,%s) = %s but the order gives %s" % (r["op"], r["a"], r["b"], r["r"], want), case)
        if case["kind"] != "op" and r["k"] == "parse":
            s = bytes.fromhex(r["s"]).decode("utf-8")
            filt = case["kind"] == "parse_filter"
            got = r["filter" if filt else "level"]
            want = spec_parse(s, filt)
            rep.samples.append({"replayed": r, "spec": want})
            rep.nontrivial.add(("str", s))
            if got != want:
                rep.violation("%s::from_str(%r) = %s, documented language gives %s" % ("LevelFilter" if filt else "Level", s, got, want), case,
                              finding="F13" if (filt and s == "" and got == 1) else None)
    rep.nontrivial.add(("replay",))
    return rep
