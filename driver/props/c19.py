"""C19 — Levels and level filters form one consistent total order; text round-trips.

Leg A: theorems of coq/theories/Properties/C19.v over the interpreter Levels/Model.v of the
       *generated* Gen_levels.v (translator re-run on every check).
Leg B: translator (every run) + exhaustive correspondence: every operator on every pair, every
       conversion, set_max->current, the LevelFilter layer, and a string corpus, implementation vs model.
Leg C: oracle = the specification order and the documented text language, evaluated here in Python
       directly on the implementation's answers."""
import itertools
import json
import os
import sys

import vlib
from vlib import Report, coq_prove, cargo_build, run_bin, coq_eval, gen_if_changed

sys.path.insert(0, os.path.join(vlib.VERIF, "translators"))
import levels as levels_tr  # noqa: E402

LV = ["Error", "Warn", "Info", "Debug", "Trace"]
NAMES = {"error": 1, "warn": 2, "info": 3, "debug": 4, "trace": 5, "off": 0}
XOPS = [("eq", "XBase OpEq"), ("ne", "XNe"), ("lt", "XBase OpLt"), ("le", "XBase OpLe"), ("gt", "XBase OpGt"),
        ("ge", "XBase OpGe"), ("cmp", "XBase OpCmp"), ("partial_cmp", "XBase OpPartialCmp"), ("min", "XMin"), ("max", "XMax")]


def coq_value(enc):
    if enc < 10:
        return "(VL %s)" % LV[enc - 1]
    return "(VF None)" if enc == 10 else "(VF (Some %s))" % LV[enc - 11]


def rank(enc):
    return enc if enc < 10 else enc - 10


def spec_op(op, a, b):
    ra, rb = rank(a), rank(b)
    c = 0 if ra < rb else (1 if ra == rb else 2)
    return {
        "eq": [0, int(ra == rb)], "ne": [0, int(ra != rb)], "lt": [0, int(ra < rb)], "le": [0, int(ra <= rb)],
        "gt": [0, int(ra > rb)], "ge": [0, int(ra >= rb)], "cmp": [1, c], "partial_cmp": [2, c],
        "max": [3, a if rb < ra else b], "min": [3, b if rb < ra else a],
    }[op]


def spec_parse(s, filt):
    """The documented language: a level name in any letter case, or the number (optional '+', leading zeros)."""
    low = s.lower() if s.isascii() else None
    if low in NAMES and (filt or low != "off"):
        return NAMES[low]
    t = s[1:] if s.startswith("+") else s
    if t and all(c in "0123456789" for c in t) and t.isascii():
        v = int(t)
        if v < 2 ** 64 and ((0 if filt else 1) <= v <= 5):
            return v
    return -1


def corpus(ctx):
    strs = set()
    for name in NAMES:
        for bits in itertools.product([0, 1], repeat=len(name)):
            strs.add("".join(c.upper() if b else c for c, b in zip(name, bits)))
    for d in range(0, 12):
        for pre in ("", "+", "-", "0", "00", "+0", "+000", " ", "++", "+-"):
            strs.add(pre + str(d))
            strs.add(pre + str(d) + " ")
    extra = ["", " ", "+", "-", "0x1", "1.0", "1e0", "١", "５", "info ", " info", "inf", "infoo", "warning", "err", "of", "offf",
             "trace\n", "\tdebug", "TRACE!", "ıNFO", "İNFO", "ſ", "K", "error\u0000", "18446744073709551615", "18446744073709551616",
             "18446744073709551617", "0" * 40 + "3", "+" + "0" * 25 + "5", "0" * 30, "9" * 30, "1" + "0" * 19, "1" + "0" * 20,
             "00000000000000000000000000000000000006", "5 ", "٣", "3​", "OFF", "Off", "oFF", "none", "all", "true"]
    strs.update(extra)
    rng = ctx.rng
    alphabet = "eErRoOwWaAnNiIfFdDbBuUgGtTcC0123456789+- \t_x"
    n_rand = 400 if not ctx.thorough() else 6000
    for _ in range(n_rand):
        k = rng.randint(0, 7)
        strs.add("".join(rng.choice(alphabet) for _ in range(k)))
    # mutations of accepted strings
    acc = list(NAMES) + [str(i) for i in range(6)]
    for _ in range(n_rand):
        s = list(rng.choice(acc))
        op = rng.randint(0, 3)
        pos = rng.randint(0, len(s))
        if op == 0 and s:
            s[pos % len(s)] = rng.choice(alphabet)
        elif op == 1:
            s.insert(pos, rng.choice(alphabet))
        elif op == 2 and s:
            del s[pos % len(s)]
        else:
            s = [c.swapcase() if rng.random() < 0.5 else c for c in s]
        strs.add("".join(s))
    return sorted(strs)


def run(ctx):
    rep = Report(ctx)
    rep.rule = ("exhaustive: 10 operators x 11 x 11 Level/LevelFilter values (mixed-type cmp/min/max do not exist), all conversions, "
                "set_max->current for 6 filters, LevelFilter layer x 5 levels; strings: every letter-case pattern of the 6 names, "
                "digit strings with +/-/0 prefixes, overflow-length numerals, Unicode look-alikes, seeded random strings and "
                "mutations of accepted strings. non-trivial = operator triple with a != b, or a string within edit distance 1 of "
                "an accepted spelling / a numeral with sign or leading zeros; distinct = distinct (op,a,b) or distinct string")
    rep.trusted_base = [
        "Coq 8.16.1 kernel + vm_compute (no native_compute)", "translators/levels.py + rsparse.py (shape recognition of metadata.rs; fails closed via gen_unrecognised = [])",
        "harness h_levels.rs (calls the real operators; identifies values by derived Hash only)", "std: usize::from_str, eq_ignore_ascii_case, Ord::min/max defaults (modelled)",
        "Python oracle (spec order / documented language)"]
    rep.assumptions = ["strings presented to FromStr are valid UTF-8 (Rust's &str); the theorem covers all byte lists",
                       "usize is 64-bit", "Ord::max/min are std's defaults built on the hand-written `lt`"]
    # ---- leg B1: translator
    text, unrec = levels_tr.main(ctx.repo, None)
    gen_if_changed(os.path.join(vlib.COQ, "gen", "Gen_levels.v"), text)
    rep.tie("translator:Gen_levels", not unrec, "; ".join(unrec[:4]), unrec[:1] or None)
    # ---- leg A
    rep.proof = coq_prove(ctx, "C19", ["theories/Properties/C19.vo"])
    # ---- implementation
    builds = [False] + ([True] if ctx.thorough() else [])
    strs = corpus(ctx)
    stdin = "\n".join(s.encode("utf-8").hex() for s in strs) + "\n"
    impl_runs = []
    for rel in builds:
        ok, paths, log = cargo_build(ctx, "core", ["h_levels"], release=rel)
        if not ok:
            rep.tie("build:h_levels" + ("-release" if rel else ""), False, vlib.last_error(log))
            return rep
        rc, out = run_bin(paths["h_levels"], input=stdin, timeout=300)
        if rc != 0:
            rep.tie("run:h_levels", False, "rc=%d %s" % (rc, vlib.last_error(out)))
            return rep
        impl_runs.append(("release" if rel else "debug", [json.loads(l) for l in out.splitlines() if l.startswith("{")]))

    # ---- model evaluation (may be impossible when the proof leg / generated file is broken)
    model = None
    try:
        triples = []
        for op, cx in XOPS:
            for a in list(range(1, 6)) + list(range(10, 16)):
                for b in list(range(1, 6)) + list(range(10, 16)):
                    if op in ("cmp", "min", "max") and (a < 10) != (b < 10):
                        continue
                    triples.append((op, a, b, "(%s, %s, %s)" % (cx, coq_value(a), coq_value(b))))
        terms = [("ops", "map (fun t => enc_result (eval_x (fst (fst t)) (snd (fst t)) (snd t))) [%s]" % "; ".join(t[3] for t in triples))]
        enc_ol = "(fun o => match o with Some f => enc_olv f | None => 99 end)"
        enc_l = "(fun o => match o with Some l => rank_lv l | None => 99 end)"
        terms.append(("misc", "(map (fun l => (display_level l, as_str_level l, %s (as_log_level l), %s (as_trace_level l))) all_lv, "
                              "map (fun f => (display_filter f, %s (as_log_filter f), %s (as_trace_filter f), %s (current_after f))) (None :: map Some all_lv), "
                              "map (fun f => map (fun l => (layer_enabled \"enabled\" f l, layer_enabled \"register_callsite\" f l)) all_lv) (None :: map Some all_lv))"
                      % (enc_l, enc_l, enc_ol, enc_ol, enc_ol)))
        chunk = 150
        for i in range(0, len(strs), chunk):
            lits = "; ".join(vlib.coq_bytes(s.encode("utf-8")) for s in strs[i:i + chunk])
            terms.append(("parse%d" % i, "map (fun s => (%s (parse_level s), %s (parse_filter s))) [%s]" % (enc_l, enc_ol, lits)))
        res = coq_eval(ctx, "From TV Require Import Levels.Model.\nLocal Open Scope N_scope.\nLocal Open Scope string_scope.", terms)
        model = {"ops": {}, "parse": {}}
        for (op, a, b, _), r in zip(triples, res["ops"]):
            model["ops"][(op, a, b)] = r
        for i in range(0, len(strs), chunk):
            for s, r in zip(strs[i:i + chunk], res["parse%d" % i]):
                model["parse"][s] = (r[0] if r[0] != 99 else -1, r[1] if r[1] != 99 else -1)
        model["misc"] = res["misc"]
    except Exception as ex:  # ModelEvalError or a parse problem: the tie is broken, the oracle still runs
        rep.tie("model-eval", False, str(ex)[:300])

    # ---- correspondence + oracle
    for prof, recs in impl_runs:
        disagree = []
        n_ops = 0
        seen_ops = set()
        for r in recs:
            k = r["k"]
            if k == "op":
                n_ops += 1
                key = (r["op"], r["a"], r["b"])
                seen_ops.add(key)
                rep.evaluations += 1
                rep.count("op:" + r["op"])
                if r["a"] != r["b"]:
                    rep.nontrivial.add(key)
                want = spec_op(*key)
                if r["r"] != want:
                    rep.violation("operator %s(%s,%s) = %s but the order OFF<ERROR<..<TRACE gives %s [%s build]" % (r["op"], r["a"], r["b"], r["r"], want, prof),
                                  {"kind": "op", "op": r["op"], "a": r["a"], "b": r["b"], "impl": r["r"], "spec": want, "profile": prof})
                if model is not None and model["ops"].get(key) != r["r"]:
                    disagree.append({"case": list(key), "impl": r["r"], "model": model["ops"].get(key)})
            elif k == "parse":
                s = bytes.fromhex(r["s"]).decode("utf-8")
                rep.evaluations += 1
                wl, wf = spec_parse(s, False), spec_parse(s, True)
                near = wl >= 0 or wf >= 0 or any(spec_parse(s[:i] + s[i + 1:], True) >= 0 for i in range(len(s)))
                if near:
                    rep.nontrivial.add(("str", s))
                rep.count("parse:" + ("accepted" if (r["level"] >= 0 or r["filter"] >= 0) else "rejected"))
                if r["level"] != wl:
                    rep.violation("Level::from_str(%r) = %s, documented language gives %s" % (s, r["level"], wl),
                                  {"kind": "parse_level", "input": s, "impl": r["level"], "spec": wl, "profile": prof})
                if r["filter"] != wf:
                    fid = "F13" if (s == "" and r["filter"] == 1) else None
                    rep.violation("LevelFilter::from_str(%r) = %s, documented language gives %s" % (s, r["filter"], wf),
                                  {"kind": "parse_filter", "input": s, "impl": r["filter"], "spec": wf, "profile": prof}, finding=fid)
                if model is not None and model["parse"].get(s) != (r["level"], r["filter"]):
                    disagree.append({"case": ["parse", s], "impl": [r["level"], r["filter"]], "model": model["parse"].get(s)})
            else:
                rep.evaluations += 1
                rep.count(k)
                bad = None
                if k in ("display_level", "as_str"):
                    s = bytes.fromhex(r["s"]).decode()
                    if s != LV[r["a"] - 1].upper():
                        bad = "%s(%s) = %r" % (k, r["a"], s)
                elif k == "display_level_pad":
                    s = bytes.fromhex(r["s"]).decode()
                    if s != LV[r["a"] - 1].upper().rjust(7):
                        bad = "padded Display of level %s = %r" % (r["a"], s)
                elif k == "display_filter":
                    s = bytes.fromhex(r["s"]).decode()
                    if s != (["off"] + [x.lower() for x in LV])[r["a"]]:
                        bad = "display_filter(%s) = %r" % (r["a"], s)
                elif k in ("as_log_level", "as_trace_level", "as_log_filter", "as_trace_filter", "current_after", "into_level"):
                    if r["r"] != r["a"]:
                        bad = "%s(%s) = %s" % (k, r["a"], r["r"])
                elif k in ("level_into_filter", "from_level"):
                    if r["r"] != r["a"]:
                        bad = "%s(level %s) = filter %s" % (k, r["a"], r["r"])
                elif k == "current_after_nohint":
                    if r["r"] != 5:
                        bad = "current() with an unhinted collector = %s" % r["r"]
                elif k == "layer":
                    want = int(r["l"] <= r["f"])
                    if r["enabled"] != want or r["interest"] != (2 if want else 0):
                        bad = "LevelFilter %s as layer on level %s: enabled=%s interest=%s" % (r["f"], r["l"], r["enabled"], r["interest"])
                elif k == "layer_hint":
                    if r["r"] != r["f"]:
                        bad = "LevelFilter %s as layer: hint %s" % (r["f"], r["r"])
                if bad:
                    rep.violation(bad + " [%s build]" % prof, dict(r, profile=prof))
        # completeness of the enumeration on the implementation side
        expected_ops = sum(1 for op, _ in XOPS for a in range(11) for b in range(11)
                           if not (op in ("cmp", "min", "max") and (a < 5) != (b < 5)))
        if len(seen_ops) != expected_ops:
            rep.tie("enumeration-complete:" + prof, False, "saw %d operator triples, expected %d" % (len(seen_ops), expected_ops))
        # model-side misc comparison
        if model is not None:
            lv_rows, f_rows, layer_rows = model["misc"]
            by = {}
            for r in recs:
                if r["k"] not in ("op", "parse"):
                    by.setdefault(r["k"], {})[(r.get("a"), r.get("f"), r.get("l"))] = r
            for i, row in enumerate(lv_rows, 1):
                disp, asstr, aslog, astrace = row
                for k, mv in (("display_level", disp), ("as_str", asstr)):
                    iv = list(bytes.fromhex(by[k][(i, None, None)]["s"]))
                    if mv != ("Some", iv):
                        disagree.append({"case": [k, i], "impl": iv, "model": mv})
                if by["as_log_level"][(i, None, None)]["r"] != aslog or by["as_trace_level"][(i, None, None)]["r"] != astrace:
                    disagree.append({"case": ["as_log/as_trace level", i], "model": [aslog, astrace]})
            for i, row in enumerate(f_rows):
                disp, aslog, astrace, cur = row
                iv = list(bytes.fromhex(by["display_filter"][(i, None, None)]["s"]))
                if disp != ("Some", iv):
                    disagree.append({"case": ["display_filter", i], "impl": iv, "model": disp})
                if by["as_log_filter"][(i, None, None)]["r"] != aslog or by["as_trace_filter"][(i, None, None)]["r"] != astrace:
                    disagree.append({"case": ["as_log/as_trace filter", i], "model": [aslog, astrace]})
                ic = by["current_after"][(i, None, None)]["r"]
                if (cur if cur != 99 else -1) != ic:
                    disagree.append({"case": ["current_after", i], "impl": ic, "model": cur})
            for fi, row in enumerate(layer_rows):
                for li, (en, rc) in enumerate(row, 1):
                    r = by["layer"][(None, fi, li)]
                    if en != ("Some", bool(r["enabled"])) or rc != ("Some", r["interest"] == 2):
                        disagree.append({"case": ["layer", fi, li], "impl": [r["enabled"], r["interest"]], "model": [en, rc]})
            rep.tie("correspondence:" + prof, not disagree, "%d disagreements" % len(disagree), disagree[:1] or None)
            rep.traces_validated += len(recs)
    rep.exhaustive = True
    rep.samples = [{"op": "lt", "a": "Level::ERROR(1)", "b": "LevelFilter::OFF(10)", "impl": [0, 0]},
                   {"parse": "+003", "level": 3, "filter": 3}, {"parse": "wArN", "level": 2, "filter": 2},
                   {"parse": "18446744073709551616", "level": -1, "filter": -1}, {"strings_in_corpus": len(strs)}]
    return rep


def replay(ctx, payload):
    """Re-run one recorded failing case against the implementation (and the spec oracle)."""
    case = payload.get("case") or {}
    if payload.get("kind") != "failing-input" or case.get("kind") not in ("op", "parse_level", "parse_filter"):
        return run(ctx)
    rep = Report(ctx)
    rep.rule = "replay of one recorded case"
    rep.proof = coq_prove(ctx, "C19", ["theories/Properties/C19.vo"])
    rel = case.get("profile") == "release"
    ok, paths, log = cargo_build(ctx, "core", ["h_levels"], release=rel)
    if not ok:
        rep.tie("build:h_levels", False, vlib.last_error(log))
        return rep
    stdin = (case.get("input", "").encode("utf-8").hex() + "\n") if case["kind"] != "op" else ""
    rc, out = run_bin(paths["h_levels"], input=stdin, timeout=300)
    for r in (json.loads(l) for l in out.splitlines() if l.startswith("{")):
        rep.evaluations += 1
        if case["kind"] == "op" and r["k"] == "op" and (r["op"], r["a"], r["b"]) == (case["op"], case["a"], case["b"]):
            want = spec_op(r["op"], r["a"], r["b"])
            rep.samples.append({"replayed": r, "spec": want})
            rep.nontrivial.add(("op", r["op"], r["a"], r["b"]))
            if r["r"] != want:
                rep.violation("operator %s(%s,%s) = %s but the order gives %s" % (r["op"], r["a"], r["b"], r["r"], want), case)
        if case["kind"] != "op" and r["k"] == "parse":
            s = bytes.fromhex(r["s"]).decode("utf-8")
            filt = case["kind"] == "parse_filter"
            got = r["filter" if filt else "level"]
            want = spec_parse(s, filt)
            rep.samples.append({"replayed": r, "spec": want})
            rep.nontrivial.add(("str", s))
            if got != want:
                rep.violation("%s::from_str(%r) = %s, documented language gives %s" % ("LevelFilter" if filt else "Level", s, got, want), case,
                              finding="F13" if (filt and s == "" and got == 1) else None)
    rep.nontrivial.add(("replay",))
    return rep
